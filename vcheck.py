#!/opt/veriftools/pyvenv/bin/python
"""vcheck: single entry point of the contract-based verification of discopy (see DESIGN.md).

  ./vcheck <Cxx> [--tier quick|thorough]      decide one property on /repo's current working tree
  ./vcheck <Cxx> --replay <file>              re-run a recorded counterexample natively
  ./vcheck setup                              sanity-check the offline tool chain
  ./vcheck all [--tier ..]                    every claimed property, in sequence

exit 0 held / 1 VIOLATION (not a listed known finding) / 2 undecided / 3 checker error."""
import argparse
import json
import os
import re
import subprocess
import sys
import time

HERE = os.path.dirname(os.path.abspath(__file__))
sys.path.insert(0, HERE)
os.chdir(HERE)

VENV_PY = os.environ.get('DISCOPY_PY', '/venv/bin/python')
REPO = os.environ.get('DISCOPY_REPO', '/repo')


def slug(s):
    return re.sub(r'[^A-Za-z0-9_.-]+', '_', s)[:120]


def run_native(script, args, timeout):
    """run a helper under the repository's own interpreter (numpy / sympy / pytket live there)"""
    env = dict(os.environ, PYTHONPATH=REPO + os.pathsep + HERE, MPLBACKEND='Agg', PYTHONHASHSEED='0',
               OMP_NUM_THREADS='1', OPENBLAS_NUM_THREADS='1', MKL_NUM_THREADS='1')   # drivers shard over processes
    env.pop('DISCOPY_VERIF', None)
    t0 = time.time()
    try:
        p = subprocess.run([VENV_PY, os.path.join(HERE, script)] + args, capture_output=True, text=True,
                           timeout=timeout, env=env, cwd=HERE)
        return p.returncode, p.stdout, p.stderr, time.time() - t0
    except subprocess.TimeoutExpired as e:
        return 124, (e.stdout or b'').decode() if isinstance(e.stdout, bytes) else (e.stdout or ''), 'timeout', \
            time.time() - t0


def load_known():
    path = os.path.join(HERE, 'known_findings.json')
    if not os.path.exists(path):
        return {'findings': [], 'fixed': []}
    with open(path) as f:
        return json.load(f)


def main():
    ap = argparse.ArgumentParser()
    ap.add_argument('prop')
    ap.add_argument('--tier', default=os.environ.get('VERIF_TIER', 'quick'), choices=['quick', 'thorough'])
    ap.add_argument('--replay', default=None)
    ap.add_argument('--only', default=None, help='comma-separated back ends: vc,sym,rtc')
    ap.add_argument('--verbose', '-v', action='store_true')
    args = ap.parse_args()
    if args.prop == 'setup':
        return setup()
    from checks import registry
    if args.prop == 'all':
        worst = 0
        for pid in registry.claimed():
            rc = subprocess.call([sys.executable, os.path.abspath(__file__), pid, '--tier', args.tier])
            worst = max(worst, rc)
        return worst
    if args.prop not in registry.PROPS:
        print('unknown property', args.prop)
        return 3
    if args.replay:
        from checks import runner
        return runner.replay(args.prop, args.replay)
    from checks import runner
    return runner.run_property(args.prop, args.tier, only=args.only, verbose=args.verbose)


def setup():
    ok = True
    for tool in ('z3-new', 'cvc5'):
        p = subprocess.run(['which', tool], capture_output=True, text=True)
        print('%-8s %s' % (tool, p.stdout.strip() or 'MISSING'))
        ok &= bool(p.stdout.strip())
    try:
        import z3
        print('z3-solver', z3.get_version_string())
    except Exception as e:
        print('z3-solver MISSING', e)
        ok = False
    rc, out, err, _ = run_native('rtc/selfcheck.py', [], 120)
    print(out.strip() or err.strip())
    ok &= rc == 0
    os.makedirs(os.path.join(HERE, 'evidence'), exist_ok=True)
    os.makedirs(os.path.join(HERE, 'replays'), exist_ok=True)
    print('setup', 'ok' if ok else 'FAILED')
    return 0 if ok else 3


if __name__ == '__main__':
    sys.exit(main())
