"""pyvc: verification-condition generator for the Python subset used by discopy's core.

Reads the real functions from /repo on every run (frontend), executes them symbolically
(interp) against sidecar contracts (../contracts) and discharges one small query per
path x obligation with z3 / cvc5 child processes (solve)."""
