"""Locate the real functions in /repo by qualified name, on every run.

Nothing of /repo's code is stored in /verif: the AST is taken from the current working tree.
What the extraction drops: docstrings, comments, decorators (@property/@staticmethod are the
calling convention), annotations, and the text of exception messages."""
import ast
import hashlib
import os
import subprocess

REPO = os.environ.get('DISCOPY_REPO', '/repo')

_cache = {}


def module_path(mod):
    return os.path.join(REPO, 'discopy', *mod.split('.')) + '.py'


def load_module(mod):
    if mod not in _cache:
        path = module_path(mod)
        with open(path) as f:
            src = f.read()
        _cache[mod] = (ast.parse(src, filename=path), src)
    return _cache[mod]


def clear_cache():
    _cache.clear()


def find(qualname):
    """'monoidal.Diagram.tensor', 'rewriting.snake_removal.<locals>.unsnake', 'quantum.gates.rewire'
    -> (FunctionDef node, source text)"""
    parts = qualname.split('.')
    # module may be dotted (quantum.gates); find the longest prefix that is a file
    for cut in range(len(parts) - 1, 0, -1):
        mod = '.'.join(parts[:cut])
        if os.path.exists(module_path(mod)):
            rest = parts[cut:]
            break
    else:
        raise KeyError(qualname)
    tree, src = load_module(mod)
    node = tree
    for name in rest:
        if name == '<locals>':
            continue
        found = None
        for child in ast.iter_child_nodes(node) if not isinstance(node, (ast.FunctionDef, ast.ClassDef, ast.Module)) \
                else node.body:
            if isinstance(child, (ast.FunctionDef, ast.ClassDef)) and child.name == name:
                found = child
        if found is None:
            # search nested statements (defs inside if/for)
            for child in ast.walk(node):
                if isinstance(child, (ast.FunctionDef, ast.ClassDef)) and child.name == name and child is not node:
                    found = child
                    break
        if found is None:
            raise KeyError(qualname)
        node = found
    return node, ast.get_source_segment(src, node)


def source_hash(qualname):
    _, seg = find(qualname)
    return hashlib.sha256(seg.encode()).hexdigest()[:16]


def strip_docstring(body):
    if body and isinstance(body[0], ast.Expr) and isinstance(body[0].value, ast.Constant) \
            and isinstance(body[0].value.value, str):
        return body[1:]
    return body


def repo_state():
    try:
        head = subprocess.run(['git', '-C', REPO, 'rev-parse', 'HEAD'], capture_output=True, text=True).stdout.strip()
        dirty = subprocess.run(['git', '-C', REPO, 'status', '--porcelain', '--', 'discopy'],
                               capture_output=True, text=True).stdout.strip()
        return {'head': head, 'dirty': bool(dirty), 'dirty_files': dirty.splitlines()[:20]}
    except Exception as e:  # pragma: no cover
        return {'head': None, 'dirty': None, 'error': str(e)}
