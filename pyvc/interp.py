"""Symbolic executor for the Python subset of DESIGN.md section 2.3.

One Executor = one path.  Forks are resolved by a list of decisions; the driver (verify.py)
re-runs the function once per decision prefix (depth-first), so the interpreter itself is a
plain recursive evaluator.  Every value is a term (eager substitution, no defining equalities);
quantified hypotheses are instantiated by the engine at the indices a path touches."""
import ast
import z3

from . import terms as T
from .values import *  # noqa


class VOpaqueZipStar(Value):
    """zip(*rows): the transposed columns of a list of equal-length tuples (lazy)"""
    kind = 'zipstar'

    def __init__(self, rows):
        self.rows = rows


class PyRaise(Exception):
    """a Python exception raised by the interpreted code"""

    def __init__(self, exc, note=''):
        super().__init__(exc, note)
        self.exc, self.note = exc, note


class Infeasible(Exception):
    """the path condition is unsatisfiable (LIA abstraction)"""


class PathEnd(Exception):
    """a side branch finished (its goals are recorded)"""


class Unsupported(Exception):
    """the code left the verified subset"""


class _Return(Exception):
    def __init__(self, value):
        self.value = value


class _Break(Exception):
    pass


class _Continue(Exception):
    pass


EXC_PARENT = {
    'InterchangerError': 'AxiomError', 'AxiomError': 'Exception', 'IndexError': 'LookupError',
    'KeyError': 'LookupError', 'LookupError': 'Exception', 'TypeError': 'Exception',
    'ValueError': 'Exception', 'NotImplementedError': 'RuntimeError', 'RuntimeError': 'Exception',
    'ZeroDivisionError': 'ArithmeticError', 'ArithmeticError': 'Exception', 'StopIteration': 'Exception',
    'AttributeError': 'Exception', 'AssertionError': 'Exception', 'Exception': None,
}


def exc_isinstance(exc, cls):
    while exc is not None:
        if exc == cls:
            return True
        exc = EXC_PARENT.get(exc)
    return False


class Env:
    def __init__(self, parent=None, vars=None):
        self.parent, self.vars = parent, dict(vars or {})

    def lookup(self, name):
        e = self
        while e is not None:
            if name in e.vars:
                return e.vars[name]
            e = e.parent
        raise KeyError(name)

    def set(self, name, value):
        self.vars[name] = value

    def has(self, name):
        try:
            self.lookup(name)
            return True
        except KeyError:
            return False


class Goal:
    def __init__(self, name, text, key, meta=None):
        self.name, self.text, self.key = name, text, key
        self.meta = meta or {}


class Executor:
    def __init__(self, decisions=(), registry=None, max_depth=40):
        self.decisions = list(decisions)
        self.pos = 0
        self.pending = []
        self.pc = []
        self.pc_keys = {}
        self.lia = T.LiaSolver()
        self.irel = T.IndexRel(self.lia)
        self.goal_keys = set()
        self.ghyps = []          # (guard, formula)
        self.touched = {}        # base id -> (base, {sexpr: term})
        self.qhyps = []          # (list of bases, fn(i) -> [(guard, formula)])
        self.goals = []
        self.registry = registry or {}
        self.depth = 0
        self.max_depth = max_depth
        self.verifying = None    # qualname currently verified (recursion uses the contract)
        self.inlining = set()
        self.side_queries = 0
        self.yields = []
        self.used = set()        # call-site contracts and axioms relied upon on this path (mechanical scan for the evidence)
        self.notes = []
        self.forker = None       # set by verify.py: explores alternatives in forked child processes
        T.reset_names()
        BaseList._ids = 0

    # ------------------------------------------------------------ path condition
    def assume(self, f):
        if isinstance(f, bool):
            f = z3.BoolVal(f)
        f = z3.simplify(f)
        if z3.is_true(f):
            return
        if z3.is_false(f):
            raise Infeasible()
        cs = f.children() if z3.is_app(f) and f.decl().kind() == z3.Z3_OP_AND else [f]
        for c in cs:
            k = c.get_id()
            if k in self.pc_keys:
                continue
            self.pc_keys[k] = c     # keeps c alive (z3 reuses ids)
            if self.pos >= len(self.decisions) and not T._mentions_seq(c) and self.lia.entails(c):
                continue
            self.pc.append(c)
            self.lia.add(c)

    def assume_guarded(self, guard, f):
        self.ghyps.append((guard, f))

    def feasible(self, cond):
        self.side_queries += 1
        return self.lia.check_with(cond) != 'unsat'

    def entails(self, cond):
        """LIA-entailment of cond by the current path condition"""
        self.side_queries += 1
        return self.lia.entails(cond)

    def fork(self, n):
        """unconditional n-way fork"""
        if self.forker is not None:
            for j in range(1, n):
                if self.forker.spawn(self):
                    return j
            return 0
        if self.pos < len(self.decisions):
            idx = self.decisions[self.pos]
        else:
            idx = 0
            for j in range(1, n):
                self.pending.append(self.decisions[:self.pos] + [j])
            self.decisions.append(0)
        self.pos += 1
        return idx

    def choose(self, conds, likely=None):
        """fork on a list of conditions (expected exhaustive); returns the index taken"""
        simp = [z3.simplify(c) for c in conds]
        for i, c in enumerate(simp):
            if z3.is_true(c):
                return i
        live = [i for i, c in enumerate(simp) if not z3.is_false(c)]
        if not live:
            raise Infeasible()
        if likely is not None and likely in live and self.lia.entails(simp[likely]):
            return likely
        if self.forker is not None:
            feas = [i for i in live if self.feasible(simp[i])]
            if not feas:
                raise Infeasible()
            idx = feas[0]
            for j in feas[1:]:
                if self.forker.spawn(self):
                    idx = j
                    break
            self.assume(simp[idx])
            return idx
        if self.pos < len(self.decisions):
            idx = self.decisions[self.pos]
            self.pos += 1
        else:
            feas = [i for i in live if self.feasible(simp[i])]
            if not feas:
                raise Infeasible()
            idx = feas[0]
            for j in feas[1:]:
                self.pending.append(self.decisions[:self.pos] + [j])
            self.decisions.append(idx)
            self.pos += 1
        self.assume(simp[idx])
        return idx

    def branch(self, cond):
        """True / False according to the branch taken on a boolean term"""
        c = z3.simplify(cond)
        if z3.is_true(c):
            return True
        if z3.is_false(c):
            return False
        return self.choose([c, z3.Not(c)]) == 0

    def side(self, thunk):
        """run thunk on a side branch that ends afterwards; the main branch continues.
        The first exploration runs the side branch in place (state saved and restored), so only
        the alternatives forked *inside* the thunk are re-executed from the start."""
        if self.forker is not None:
            # in place; children forked inside the thunk must end with it
            import os
            pid0 = os.getpid()
            snap = self._snapshot()
            try:
                self._run_thunk(thunk)
            except (PathEnd, Infeasible):
                pass
            if os.getpid() != pid0:
                raise PathEnd()
            self._restore(snap)
            return
        if self.pos < len(self.decisions):
            idx = self.decisions[self.pos]
            self.pos += 1
            if idx == 1:
                self._run_thunk(thunk)
                raise PathEnd()
            return
        snap = self._snapshot()
        here = self.pos
        self.decisions.append(1)
        self.pos += 1
        try:
            self._run_thunk(thunk)
        except (PathEnd, Infeasible):
            pass
        self._restore(snap)
        del self.decisions[here:]
        self.decisions.append(0)
        self.pos = here + 1

    def _run_thunk(self, thunk):
        try:
            thunk()
        except PyRaise as e:
            self.prove('proof script raised %s (%s)' % (e.exc, e.note), False)

    def _snapshot(self):
        self.lia.s.push()
        return (len(self.pc), dict(self.pc_keys), self.lia.n_extra, len(self.ghyps), len(self.qhyps),
                {k: (b, dict(d)) for k, (b, d) in self.touched.items()}, len(self.yields), self.depth,
                self.irel.copy_state(), dict(self.__dict__.get('_nth_cache', {})))

    def _restore(self, snap):
        npc, keys, n_extra, ng, nq, touched, ny, depth, irel, nth = snap
        self._nth_cache = nth
        self.irel.restore_state(irel)
        self.lia.s.pop()
        self.lia.version += 1
        self.lia.n_extra = n_extra
        del self.pc[npc:]
        self.pc_keys = keys
        del self.ghyps[ng:]
        del self.qhyps[nq:]
        self.touched.clear()
        self.touched.update(touched)
        del self.yields[ny:]
        self.depth = depth

    # ------------------------------------------------------------ goals
    def instantiations(self):
        out = []
        seen = set()
        for bases, fn in self.qhyps:
            terms = {}
            if bases is None:      # index-space hypothesis: instantiate at every index touched on any list
                for _, (_, d) in self.touched.items():
                    terms.update(d)
            else:
                for b in bases:
                    if b.id in self.touched:
                        terms.update(self.touched[b.id][1])
            cands = {}
            for key, t in terms.items():
                for d in (-1, 0):
                    tt = z3.simplify(t + d)
                    cands[tt.sexpr()] = tt
            for key, tt in cands.items():
                for guard, f in fn(tt):
                    k = (guard.sexpr(), f.sexpr())
                    if k not in seen:
                        seen.add(k)
                        out.append((guard, f))
        return out

    def prove(self, name, formula, meta=None):
        if isinstance(formula, bool):
            formula = z3.BoolVal(formula)
        f = z3.simplify(formula)
        if z3.is_true(f):
            self.goals.append(Goal(name, None, 'trivial', dict(meta or {}, trivial=True)))
            return
        # hypotheses: path condition + guarded hypotheses / instantiated quantified hypotheses whose
        # guards are resolved now against the live LIA abstraction of the path condition
        hyps = list(self.pc)
        for guard, h in list(self.ghyps) + self.instantiations():
            g = z3.simplify(guard)
            if z3.is_true(g):
                hyps.append(h)
            elif z3.is_false(g):
                continue
            elif self.lia.entails(g):
                hyps.append(h)
            elif self.lia.refutes(g):
                continue
            else:
                hyps.append(z3.Implies(g, h))
        import hashlib
        key = hashlib.sha1(repr((name, f.sexpr(), sorted(h.sexpr() for h in hyps))).encode()).hexdigest()
        if key in self.goal_keys:
            return
        self.goal_keys.add(key)
        text = T.to_smt2(hyps, f, irel=self.irel)
        self.goals.append(Goal(name, text, key, meta))

    def unreachable(self, name, meta=None):
        self.prove(name, z3.BoolVal(False), meta)

    def register_base(self, base):
        base.touched = self.touched
        return base

    def add_qhyp(self, bases, fn):
        self.qhyps.append((bases, fn))

    # ------------------------------------------------------------ symbolic inputs
    def sym_int(self, name):
        return VInt(z3.Int(name))

    def sym_bool(self, name):
        return VBool(z3.Bool(name))

    def sym_ty(self, name):
        return VTy(z3.Const(name, T.TyS))

    def sym_box(self, name):
        return VBox(z3.Const(name, T.BoxS))

    def sym_int_list(self, name, length=None):
        n = z3.Int(name + '.len') if length is None else length
        self.assume(n >= 0)
        f = z3.Function(name + '.at', T.IntS, T.IntS)
        base = self.register_base(BaseList(name, n, lambda i: VInt(f(i)), 'int'))
        return VList.of_base(base)

    def sym_box_list(self, name, length=None):
        n = z3.Int(name + '.len') if length is None else length
        self.assume(n >= 0)
        f = z3.Function(name + '.at', T.IntS, T.BoxS)
        base = self.register_base(BaseList(name, n, lambda i: VBox(f(i)), 'box'))
        return VList.of_base(base)

    def sym_arrow(self, name, wf=True, length=None, dom=None, cod=None):
        """a cat.Arrow of layers; with wf=True the chain conditions are hypotheses"""
        n = z3.Int(name + '.n') if length is None else length
        self.assume(n >= 0)
        dom = z3.Const(name + '.dom', T.TyS) if dom is None else dom
        cod = z3.Const(name + '.cod', T.TyS) if cod is None else cod
        Ll = z3.Function(name + '.left', T.IntS, T.TyS)
        Lb = z3.Function(name + '.box', T.IntS, T.BoxS)
        Lr = z3.Function(name + '.right', T.IntS, T.TyS)
        base = self.register_base(BaseList(
            name + '.layers', n, lambda i: VLayer(VTy(Ll(i)), VBox(Lb(i)), VTy(Lr(i))), 'layer'))
        arrow = VArrow(VTy(dom), VTy(cod), VList.of_base(base))
        arrow._fns = (Ll, Lb, Lr)
        arrow._n = n
        arrow._base = base
        if wf:
            self.assume_wfA(arrow)
        return arrow

    def assume_wfA(self, arrow, extra_bases=()):
        Ll, Lb, Lr = arrow._fns
        n, base = arrow._n, arrow._base
        dom, cod = arrow.dom.t, arrow.cod.t

        def ldom(i):
            return T.ty_concat(Ll(i), T.bdom(Lb(i)), Lr(i))

        def lcod(i):
            return T.ty_concat(Ll(i), T.bcod(Lb(i)), Lr(i))
        self.assume_guarded(n == 0, dom == cod)
        self.assume_guarded(n > 0, ldom(T.I(0)) == dom)
        self.assume_guarded(n > 0, lcod(n - 1) == cod)
        self.add_qhyp(None if extra_bases is None else [base] + list(extra_bases),
                      lambda i: [(z3.And(0 <= i, i + 1 < n), lcod(i) == ldom(i + 1))])

    def sym_diagram(self, name, wf=True, n=None, dom=None, cod=None, global_inst=False):
        """a monoidal.Diagram; with wf=True it satisfies the representation invariant by
        construction (boxes[i] := layers[i].box, offsets[i] := len(layers[i].left)) and the
        chain conditions of its layers are hypotheses"""
        n = z3.Int(name + '.n') if n is None else n
        arrow = self.sym_arrow(name, wf=False, length=n, dom=dom, cod=cod)
        Ll, Lb, Lr = arrow._fns
        if wf:
            bbase = self.register_base(BaseList(name + '.boxes', n, lambda i: VBox(Lb(i)), 'box'))
            obase = self.register_base(BaseList(name + '.offsets', n, lambda i: VInt(z3.Length(Ll(i))), 'int'))
            self.assume_wfA(arrow, extra_bases=None if global_inst else [bbase, obase])
            d = VDiagram(arrow.dom, arrow.cod, VList.of_base(bbase), VList.of_base(obase), arrow)
        else:
            boxes = self.sym_box_list(name + '.boxes', n)
            offsets = self.sym_int_list(name + '.offsets', n)
            d = VDiagram(arrow.dom, arrow.cod, boxes, offsets, arrow)
        d._n = n
        d._fns = (Ll, Lb, Lr)
        return d

    # ------------------------------------------------------------ lists
    def list_at(self, lst, i):
        """lst[i] with python semantics (negative indices, IndexError)"""
        if isinstance(i, int):
            i = T.I(i)
        n = lst.length()
        iv = T.int_val(i)
        if lst.is_literal():
            items = lst.items()
            if iv is not None:
                if -len(items) <= iv < len(items):
                    return items[iv]
                raise PyRaise('IndexError', 'list index out of range')
        c = self.choose([i < -n, z3.And(-n <= i, i < 0), z3.And(0 <= i, i < n), i >= n], likely=2)
        if c in (0, 3):
            raise PyRaise('IndexError', 'list index out of range')
        if c == 1:
            i = z3.simplify(i + n)
        segs = []
        for s in lst.segs:
            if s[0] == 'lit':
                segs.extend(('lit', [x]) for x in s[1])
            else:
                segs.append(s)
        cum = T.I(0)
        conds, starts = [], []
        for s in segs:
            ln = T.I(1) if s[0] == 'lit' else s[3] - s[2]
            conds.append(z3.And(cum <= i, i < cum + ln))
            starts.append(cum)
            cum = z3.simplify(cum + ln)
        k = self.choose(conds)
        s = segs[k]
        if s[0] == 'lit':
            return s[1][0]
        return s[1].elem(z3.simplify(s[2] + i - starts[k]))

    def norm_index(self, x, n, default):
        """python slice bound normalisation: clamp(x<0 ? x+n : x, 0, n)"""
        if isinstance(x, VNone) or x is None:
            return default
        t = x.t if isinstance(x, VInt) else x
        c = self.choose([t < -n, z3.And(-n <= t, t < 0), z3.And(0 <= t, t <= n), t > n], likely=2)
        return [T.I(0), z3.simplify(t + n), t, n][c]

    def list_slice(self, lst, sl):
        if not isinstance(sl.step, VNone):
            st = T.int_val(sl.step.t)
            if st == -1 and isinstance(sl.start, VNone) and isinstance(sl.stop, VNone):
                return self.list_reverse(lst)
            if st == -1:
                # lst[start:stop:-1] == reversed(lst)[n-1-start' : n-1-stop'] with start', stop' as slice.indices(n)
                # normalises them for a negative step (lower bound -1, upper bound n-1)
                n = lst.length()

                def adjust(v, default):
                    if isinstance(v, VNone):
                        return default
                    t = v.t
                    if self.branch(t < 0):
                        t = z3.simplify(t + n)
                        return T.I(-1) if self.branch(t < 0) else t
                    return z3.simplify(n - 1) if self.branch(t >= n) else t
                a = adjust(sl.start, z3.simplify(n - 1))
                b = adjust(sl.stop, T.I(-1))
                lo, hi = z3.simplify(n - 1 - a), z3.simplify(n - 1 - b)
                if not self.branch(lo < hi):
                    return VList([], lst.is_tuple)
                return self.list_sub(self.list_reverse(lst), lo, hi)
            if st != 1:
                raise Unsupported('slice step')
        n = lst.length()
        a = self.norm_index(sl.start, n, T.I(0))
        b = self.norm_index(sl.stop, n, n)
        if not self.branch(a < b):
            return VList([], lst.is_tuple)
        return self.list_sub(lst, a, b)

    def list_sub(self, lst, a, b):
        """lst[a:b] with 0 <= a < b <= len(lst) already established"""
        segs = []
        for s in lst.segs:
            if s[0] == 'lit':
                segs.extend(('lit', [x]) for x in s[1])
            else:
                segs.append(s)
        if len(segs) == 1 and segs[0][0] == 'sub':
            _, base, lo, hi = segs[0]
            return VList([('sub', base, z3.simplify(lo + a), z3.simplify(lo + b))], lst.is_tuple)
        cums = [T.I(0)]
        for s in segs:
            ln = T.I(1) if s[0] == 'lit' else s[3] - s[2]
            cums.append(z3.simplify(cums[-1] + ln))
        # segment containing a: cums[j] <= a < cums[j+1]
        ja = self.choose([z3.And(cums[j] <= a, a < cums[j + 1]) for j in range(len(segs))])
        # segment containing b-1: cums[j] < b <= cums[j+1]
        jb = self.choose([z3.And(cums[j] < b, b <= cums[j + 1]) for j in range(len(segs))])
        out = []
        for j in range(ja, jb + 1):
            s = segs[j]
            if s[0] == 'lit':
                out.append(s)
                continue
            lo, hi = s[2], s[3]
            if j == ja:
                lo = z3.simplify(s[2] + a - cums[j])
            if j == jb:
                hi = z3.simplify(s[2] + b - cums[j])
            out.append(('sub', s[1], lo, hi))
        return VList(out, lst.is_tuple)

    def list_reverse(self, lst):
        if lst.is_literal():
            return VList.lit(lst.items()[::-1])
        n = lst.length()
        base = self.register_base(BaseList('rev', n, lambda i: self.list_at(lst, z3.simplify(n - 1 - i))))
        return VList.of_base(base)

    def list_concat(self, a, b):
        return VList(a.segs + b.segs, a.is_tuple and b.is_tuple)

    def list_map(self, lst, fn, name='map'):
        """[fn(x) for x in lst] as a lazy list"""
        if lst.is_literal():
            return VList.lit([fn(x) for x in lst.items()])
        n = lst.length()
        base = self.register_base(BaseList(name, n, lambda i: fn(self.list_at(lst, i))))
        return VList.of_base(base)

    # ------------------------------------------------------------ types (Seq Ob)
    def ty_slice(self, ty, sl):
        if not isinstance(sl.step, VNone):
            raise Unsupported('type slice with a step')
        t = ty.t
        n = T.ty_len(t)
        a = self.norm_index(sl.start, n, T.I(0))
        b = self.norm_index(sl.stop, n, n)
        if not self.branch(a <= b):
            return VTy(T.EMPTY)
        return VTy(self.ty_sub(t, a, b))

    def ty_split(self, t, a):
        """(prefix, suffix) with len(prefix) == a, 0 <= a <= len(t) established"""
        if T.int_val(a) == 0:
            return T.EMPTY, t
        if T.int_val(T.ty_len(t) - a) == 0:
            return t, T.EMPTY
        parts = T._seq_parts(t)
        acc = T.I(0)
        for j, p in enumerate(parts):
            acc = z3.simplify(acc + T.ty_len(p))
            if T.int_val(acc - a) == 0:
                return T.ty_concat(*parts[:j + 1]), T.ty_concat(*parts[j + 1:])
        # entailed boundary?
        acc = T.I(0)
        for j, p in enumerate(parts[:-1]):
            acc = z3.simplify(acc + T.ty_len(p))
            if self.entails(acc == a):
                return T.ty_concat(*parts[:j + 1]), T.ty_concat(*parts[j + 1:])
        p = T.fresh('pre', T.TyS)
        q = T.fresh('suf', T.TyS)
        self.assume(t == T.ty_concat(p, q))
        self.assume(z3.Length(p) == a)
        return p, q

    def ty_sub(self, t, a, b):
        pre, rest = self.ty_split(t, a)
        mid, _ = self.ty_split(rest, z3.simplify(b - a))
        return mid

    def ty_at(self, ty, i):
        n = T.ty_len(ty.t)
        c = self.choose([i < -n, z3.And(-n <= i, i < 0), z3.And(0 <= i, i < n), i >= n])
        if c in (0, 3):
            raise PyRaise('IndexError', 'tuple index out of range')
        if c == 1:
            i = z3.simplify(i + n)
        if getattr(self, 'nth_by_parts', False):
            return self._ty_at_parts(ty, i)
        pre, rest = self.ty_split(ty.t, i)
        parts = T._seq_parts(rest)
        if parts and z3.is_app(parts[0]) and parts[0].decl().kind() == z3.Z3_OP_SEQ_UNIT:
            return VOb(parts[0].arg(0))
        o = T.fresh('ob', T.Ob)
        q = T.fresh('suf', T.TyS)
        self.assume(rest == T.ty_concat(z3.Unit(o), q))
        return VOb(o)

    def _ty_at_parts(self, ty, i):
        """t[i] for 0 <= i < len(t), t written as x1 ++ .. ++ xk: the part holding index i is chosen by a case split and
        the element of an atomic part is one constant per (part, index) pair, so that two reads of the same position are
        the same term (pointwise reasoning about types, L-ext)"""
        if ty.elems is not None:
            return self.list_at(ty.elems, i)
        parts = T._seq_parts(ty.t)
        if len(parts) > 1:
            cum, conds, starts = T.I(0), [], []
            for p_ in parts:
                ln = T.ty_len(p_)
                conds.append(z3.And(cum <= i, i < cum + ln))
                starts.append(cum)
                cum = z3.simplify(cum + ln)
            k = self.choose(conds)
            return self._ty_at_parts(VTy(parts[k]), z3.simplify(i - starts[k]))
        t = parts[0]
        if z3.is_app(t) and t.decl().kind() == z3.Z3_OP_SEQ_UNIT:
            return VOb(t.arg(0))
        cache = self.__dict__.setdefault('_nth_cache', {})
        key = (t.sexpr(), z3.simplify(i).sexpr())
        if key not in cache:
            o = T.fresh('ob', T.Ob)
            p_, q = T.fresh('pre', T.TyS), T.fresh('suf', T.TyS)
            self.assume(t == T.ty_concat(p_, z3.Unit(o), q))
            self.assume(z3.Length(p_) == i)
            cache[key] = o
        return VOb(cache[key])

    # ------------------------------------------------------------ truthiness / equality
    def truth(self, v):
        if isinstance(v, VBool):
            return v.t
        if isinstance(v, VInt):
            return v.t != 0
        if isinstance(v, VNone):
            return z3.BoolVal(False)
        if isinstance(v, VTy):
            return T.ty_len(v.t) != 0
        if isinstance(v, VList):
            return v.length() != 0
        if isinstance(v, VTuple):
            return z3.BoolVal(bool(v.items))
        if isinstance(v, VArrow):
            return v.boxes.length() != 0
        if isinstance(v, VDiagram):
            return v.boxes.length() != 0
        if isinstance(v, VStr) and v.s is not None:
            return z3.BoolVal(bool(v.s))
        if isinstance(v, (VClosure, VBuiltin, VClass, VObject, VBox, VLayer)):
            return z3.BoolVal(True)
        if isinstance(v, VOb):
            return T.ob_truthy(v.t)     # wire values are arbitrary: either truth value is possible
        raise Unsupported('truth value of %r' % (v,))

    def eq(self, a, b):
        """python `a == b` as a boolean term (structural equality of modelled values)"""
        if isinstance(a, VInt) and isinstance(b, VInt):
            return a.t == b.t
        if isinstance(a, VReal) or isinstance(b, VReal):
            return self.to_real(a) == self.to_real(b)
        if isinstance(a, VBool) and isinstance(b, VBool):
            return a.t == b.t
        if isinstance(a, VBool) and isinstance(b, VInt):
            return z3.If(a.t, 1, 0) == b.t
        if isinstance(a, VInt) and isinstance(b, VBool):
            return self.eq(b, a)
        if isinstance(a, VTy) and isinstance(b, VTy):
            return T.ty_eq(a.t, b.t)
        if isinstance(a, VBox) and isinstance(b, VBox):
            return a.t == b.t
        if isinstance(a, VOb) and isinstance(b, VOb):
            return a.t == b.t
        if isinstance(a, VVal) and isinstance(b, VVal):
            return a.t == b.t
        if isinstance(a, VNone) or isinstance(b, VNone):
            return z3.BoolVal(isinstance(a, VNone) and isinstance(b, VNone))
        if isinstance(a, VStr) and isinstance(b, VStr) and a.s is not None and b.s is not None:
            return z3.BoolVal(a.s == b.s)
        if isinstance(a, VTuple) and isinstance(b, VTuple):
            if len(a.items) != len(b.items):
                return z3.BoolVal(False)
            return z3.And(*[self.eq(x, y) for x, y in zip(a.items, b.items)]) if a.items else z3.BoolVal(True)
        if isinstance(a, VLayer) and isinstance(b, VLayer):
            return z3.And(self.eq(a.left, b.left), self.eq(a.box, b.box), self.eq(a.right, b.right))
        if isinstance(a, VSlice) and isinstance(b, VSlice):
            return z3.And(self.eq(a.start, b.start), self.eq(a.stop, b.stop), self.eq(a.step, b.step))
        if isinstance(a, VSlice) or isinstance(b, VSlice):
            return z3.BoolVal(False)
        if isinstance(a, VList) and isinstance(b, VList):
            if a.is_literal() and b.is_literal():
                xs, ys = a.items(), b.items()
                if len(xs) != len(ys):
                    return z3.BoolVal(False)
                return z3.And(*[self.eq(x, y) for x, y in zip(xs, ys)]) if xs else z3.BoolVal(True)
            # the full lists of objects of two types: equal exactly when the types are (L-ext)
            ta, tb = self._whole_type(a), self._whole_type(b)
            if ta is not None and tb is not None:
                return T.ty_eq(ta.t, tb.t)
        raise Unsupported('== between %s and %s' % (a.kind, b.kind))

    def flat_of(self, lst, inner_type=None):
        """the concatenation of the types of a list of types of symbolic length, as a type: flat(n) with flat(0) = () and
        flat(k + 1) = flat(k) ++ lst[k]; one function per list (memoised on its segments), recursion instances on request"""
        key = tuple((s_[0], id(s_[1]), str(s_[2]) if len(s_) > 2 else '', str(s_[3]) if len(s_) > 3 else '')
                    for s_ in lst.segs)
        reg = self.__dict__.setdefault('_flats', {})
        if key not in reg:
            fn = z3.Function(T.fresh_name('flat'), T.IntS, T.TyS)
            get = inner_type or (lambda i: self.list_at(lst, i))
            reg[key] = (fn, lst, get)
            self.assume(fn(T.I(0)) == T.EMPTY)
        fn, _, get = reg[key]
        v = VTy(fn(lst.length()))
        v.flat = reg[key]
        return v

    def flat_step(self, flat, k):
        """the recursion instance flat(k + 1) == flat(k) ++ types[k]   (0 <= k < n to be known by the caller)"""
        fn, lst, get = flat
        self.assume(fn(k + 1) == T.ty_concat(fn(k), get(k).t))

    def _whole_type(self, lst):
        """the type whose full list of objects `lst` is (tuple(ty._objects) / ty.objects), if it is one"""
        if lst.is_literal():
            items = lst.items()
            if all(isinstance(x, VOb) for x in items):
                return VTy(T.ty_concat(*[z3.Unit(x.t) for x in items]) if items else T.EMPTY)
            return None
        parts = []
        for s_ in lst.segs:
            if s_[0] == 'lit':
                if not all(isinstance(x, VOb) for x in s_[1]):
                    return None
                parts.extend(z3.Unit(x.t) for x in s_[1])
                continue
            _, base, lo, hi = s_
            org = getattr(base, 'origin', None)
            if org is None or org[0] != 'ty' or T.int_val(lo) != 0 or T.int_val(hi - base.length) != 0:
                return None
            if len(lst.segs) == 1:
                return org[1]
            parts.append(org[1].t)
        return VTy(T.ty_concat(*parts)) if parts else VTy(T.EMPTY)

    def to_real(self, v):
        if isinstance(v, VReal):
            return v.t
        if isinstance(v, VInt):
            return z3.ToReal(v.t)
        raise Unsupported('number expected, got %s' % v.kind)

    # ------------------------------------------------------------ proving equalities
    def prove_equal(self, name, a, b):
        """goals establishing that two values are equal (lists extensionally, L-ext)"""
        if type(a) is not type(b) and not (isinstance(a, (VList, VTuple)) and isinstance(b, (VList, VTuple))):
            self.prove(name + ':same-kind(%s,%s)' % (a.kind, b.kind), False)
            return
        if isinstance(a, VStr) and (a.s is None or b.s is None):
            return      # names / messages built by str.format are outside the model
        if isinstance(a, (VInt, VBool, VTy, VBox, VOb, VNone, VStr, VVal)):
            self.prove(name, self.eq(a, b))
        elif isinstance(a, VReal):
            self.prove(name, a.t == b.t)
        elif isinstance(a, VLayer):
            self.prove_equal(name + '.left', a.left, b.left)
            self.prove_equal(name + '.box', a.box, b.box)
            self.prove_equal(name + '.right', a.right, b.right)
        elif isinstance(a, (VList, VTuple)):
            la = VList.lit(a.items) if isinstance(a, VTuple) else a
            lb = VList.lit(b.items) if isinstance(b, VTuple) else b
            if la.is_literal() and lb.is_literal() and len(la.items()) == len(lb.items()):
                for j, (x, y) in enumerate(zip(la.items(), lb.items())):
                    self.prove_equal('%s[%d]' % (name, j), x, y)
                return
            self.prove(name + '.len', la.length() == lb.length())

            def elem():
                k = T.fresh('k', T.IntS)
                self.assume(z3.And(0 <= k, k < la.length(), k < lb.length()))
                x, y = self.list_at(la, k), self.list_at(lb, k)
                self.prove_equal(name + '[k]', x, y)
            self.side(elem)
        elif isinstance(a, VArrow):
            self.prove_equal(name + '.dom', a.dom, b.dom)
            self.prove_equal(name + '.cod', a.cod, b.cod)
            self.prove_equal(name + '.boxes', a.boxes, b.boxes)
        elif isinstance(a, VDiagram):
            self.prove_equal(name + '.dom', a.dom, b.dom)
            self.prove_equal(name + '.cod', a.cod, b.cod)
            self.prove_equal(name + '.boxes', a.boxes, b.boxes)
            self.prove_equal(name + '.offsets', a.offsets, b.offsets)
            self.prove_equal(name + '.layers', a.layers, b.layers)
        elif isinstance(a, VObject):
            # records may refer to themselves (a box is the diagram whose only box is itself): a pair under comparison
            # is not compared again below itself (equality of cyclic records is the greatest fixed point)
            seen = getattr(self, '_eq_seen', None)
            top = seen is None
            if top:
                seen = self._eq_seen = set()
            if (id(a), id(b)) in seen:
                return
            seen.add((id(a), id(b)))
            try:
                keys = sorted(set(a.attrs) | set(b.attrs))
                for k in keys:
                    if k not in a.attrs or k not in b.attrs:
                        if isinstance(a.attrs.get(k, b.attrs.get(k)), VOpaque):
                            continue        # a value outside the model (free symbols, drawing attributes)
                        self.prove(name + ':attr-' + k, False)
                    else:
                        self.prove_equal(name + '.' + k, a.attrs[k], b.attrs[k])
            finally:
                if top:
                    self._eq_seen = None
        else:
            raise Unsupported('prove_equal on %s' % a.kind)

    def forall(self, n, body, lo=0):
        """prove body(k) for a fresh k in [lo, n) on a side branch"""
        def thunk():
            k = T.fresh('k', T.IntS)
            self.assume(z3.And(lo <= k, k < n))
            body(k)
        self.side(thunk)


# ====================================================================== interpreter

class Interp:
    """evaluates function bodies (real code or spec functions) on an Executor"""

    def __init__(self, ex, world):
        self.ex = ex
        self.world = world      # World: builtins, attribute / method tables, contracts

    # -------------------------------------------------------- functions
    def call_function(self, node, closure_env, args, kwargs, qualname, loops=None, on_yield=None):
        ex = self.ex
        ex.depth += 1
        if ex.depth > ex.max_depth:
            raise Unsupported('call depth exceeded in ' + qualname)
        env = Env(closure_env)
        self.bind_params(node.args, env, args, kwargs, qualname)
        frame = Frame(qualname, loops or {}, node)
        frame.on_yield = on_yield
        try:
            try:
                self.exec_block(self.world.strip(node.body), env, frame)
                result = NONE
            except _Return as r:
                result = r.value
        finally:
            ex.depth -= 1
        return result

    def bind_params(self, a, env, args, kwargs, qualname):
        args = list(args)
        kwargs = dict(kwargs)
        names = [p.arg for p in a.posonlyargs + a.args]
        star = None
        if args and isinstance(args[-1], VStar):
            # f(a, b, *values) with values of symbolic length: the explicit arguments fill the named parameters,
            # the star fills *vararg (spilling a symbolic tuple into named parameters is outside the model)
            star = args.pop()
            if len(args) != len(names) or not a.vararg or a.kwonlyargs or kwargs:
                raise Unsupported('f(*values) of symbolic length into named parameters (%s)' % qualname)
        defaults = [None] * (len(names) - len(a.defaults)) + list(a.defaults)
        dframe = Frame(qualname, {})       # defaults are evaluated in the module of the function
        for name, default in zip(names, defaults):
            if args:
                env.set(name, args.pop(0))
            elif name in kwargs:
                env.set(name, kwargs.pop(name))
            elif default is not None:
                env.set(name, self.eval(default, env, dframe))
            else:
                raise PyRaise('TypeError', 'missing argument %s of %s' % (name, qualname))
        if a.vararg and star is not None and isinstance(star.seq, VList):
            env.set(a.vararg.arg, VList(star.seq.segs, True))       # f(*objects): the tuple of the list's elements
        elif a.vararg and star is not None:
            env.set(a.vararg.arg, self.world.as_wire_tuple(self, star.seq))
        elif a.vararg:
            env.set(a.vararg.arg, VList.lit(args) if True else None)
            env.lookup(a.vararg.arg).is_tuple = True
        elif args:
            raise PyRaise('TypeError', 'too many arguments for ' + qualname)
        for p, default in zip(a.kwonlyargs, a.kw_defaults):
            if p.arg in kwargs:
                env.set(p.arg, kwargs.pop(p.arg))
            elif default is not None:
                env.set(p.arg, self.eval(default, env, dframe))
            else:
                raise PyRaise('TypeError', 'missing keyword argument ' + p.arg)
        if a.kwarg:
            env.set(a.kwarg.arg, VObject('dict', kwargs))
        elif kwargs:
            raise PyRaise('TypeError', 'unexpected keyword %s for %s' % (sorted(kwargs), qualname))

    # -------------------------------------------------------- statements
    def exec_block(self, stmts, env, frame):
        for s in stmts:
            self.exec_stmt(s, env, frame)

    def exec_stmt(self, s, env, frame):
        ex = self.ex
        if isinstance(s, ast.Expr):
            if isinstance(s.value, ast.Constant):
                return
            self.eval(s.value, env, frame)
        elif isinstance(s, ast.Assign):
            v = self.eval(s.value, env, frame)
            for t in s.targets:
                self.assign(t, v, env, frame)
        elif isinstance(s, ast.AugAssign):
            cur = self.eval(self.as_load(s.target), env, frame)
            v = self.binop(s.op, cur, self.eval(s.value, env, frame))
            self.assign(s.target, v, env, frame)
        elif isinstance(s, ast.AnnAssign):
            if s.value is not None:
                self.assign(s.target, self.eval(s.value, env, frame), env, frame)
        elif isinstance(s, ast.Return):
            raise _Return(self.eval(s.value, env, frame) if s.value is not None else NONE)
        elif isinstance(s, ast.If):
            if ex.branch(ex.truth(self.eval(s.test, env, frame))):
                self.exec_block(s.body, env, frame)
            else:
                self.exec_block(s.orelse, env, frame)
        elif isinstance(s, ast.Raise):
            raise PyRaise(self.exc_name(s.exc, env, frame))
        elif isinstance(s, ast.Pass):
            return
        elif isinstance(s, ast.Break):
            raise _Break()
        elif isinstance(s, ast.Continue):
            raise _Continue()
        elif isinstance(s, (ast.Import, ast.ImportFrom)):
            self.world.do_import(s, env)
        elif isinstance(s, ast.FunctionDef):
            env.set(s.name, VClosure(s, env, frame.qualname + '.<locals>.' + s.name))
        elif isinstance(s, ast.For):
            self.exec_for(s, env, frame)
        elif isinstance(s, ast.While):
            self.exec_while(s, env, frame)
        elif isinstance(s, ast.Try):
            self.exec_try(s, env, frame)
        elif isinstance(s, ast.Assert):
            if not ex.branch(ex.truth(self.eval(s.test, env, frame))):
                raise PyRaise('AssertionError')
        elif isinstance(s, ast.ClassDef):
            raise Unsupported('local class definition ' + s.name)
        else:
            raise Unsupported('statement ' + type(s).__name__)

    def as_load(self, target):
        t = ast.parse(ast.unparse(target), mode='eval').body
        return t

    def exc_name(self, node, env, frame):
        if node is None:
            raise Unsupported('bare raise')
        if isinstance(node, ast.Call):
            # evaluate arguments for their possible exceptions, but drop message text
            fn = node.func
            for a in node.args:
                if isinstance(a, ast.Call) and isinstance(a.func, ast.Attribute) \
                        and isinstance(a.func.value, ast.Name) and a.func.value.id == 'messages':
                    continue
                if isinstance(a, (ast.Constant, ast.JoinedStr)):
                    continue
                if isinstance(a, ast.Call) and isinstance(a.func, ast.Attribute) and a.func.attr == 'format':
                    continue
                self.eval(a, env, frame)
            node = fn
        if isinstance(node, ast.Name):
            return node.id
        if isinstance(node, ast.Attribute):
            return node.attr
        raise Unsupported('raise of ' + ast.dump(node))

    def assign(self, target, v, env, frame):
        ex = self.ex
        if isinstance(target, ast.Name):
            env.set(target.id, v)
        elif isinstance(target, (ast.Tuple, ast.List)):
            items = self.unpack(v, len(target.elts), any(isinstance(e, ast.Starred) for e in target.elts))
            if any(isinstance(e, ast.Starred) for e in target.elts):
                raise Unsupported('starred assignment target')
            for t, x in zip(target.elts, items):
                self.assign(t, x, env, frame)
        elif isinstance(target, ast.Attribute):
            obj = self.eval(target.value, env, frame)
            if isinstance(obj, VObject):
                obj.attrs[target.attr] = v
            elif isinstance(obj, (VBox, VOpaque)):
                # drawing attributes set on boxes: dropped (DESIGN 2.3)
                if target.attr not in self.world.dropped_attrs:
                    raise Unsupported('attribute assignment .%s on %s' % (target.attr, obj.kind))
            else:
                raise Unsupported('attribute assignment on ' + obj.kind)
        elif isinstance(target, ast.Subscript):
            obj = self.eval(target.value, env, frame)
            idx = self.eval(target.slice, env, frame)
            if isinstance(obj, VList) and isinstance(idx, VInt) and isinstance(target.value, ast.Name):
                env_set_existing(env, target.value.id, self.list_set(obj, idx.t, v))
            elif isinstance(obj, VObject) and obj.cls == 'dict':
                obj.attrs[self.dict_key(idx)] = v
            elif isinstance(obj, VObject) and obj.cls == 'posmap':
                self.world.posmap_store(self, obj, idx, v)
            else:
                raise Unsupported('subscript assignment on ' + obj.kind)
        else:
            raise Unsupported('assignment target ' + type(target).__name__)

    def list_set(self, lst, i, v):
        ex = self.ex
        n = lst.length()
        c = ex.choose([z3.And(0 <= i, i < n), z3.Or(i < 0, i >= n)])
        if c == 1:
            raise Unsupported('negative or out-of-range list store')
        if lst.is_literal():
            iv = T.int_val(i)
            items = lst.items()
            if iv is not None:
                return VList.lit(items[:iv] + [v] + items[iv + 1:])
            # symbolic index into a literal list: item-wise ite is not expressible for all kinds -> fork
            k = ex.choose([i == j for j in range(len(items))])
            return VList.lit(items[:k] + [v] + items[k + 1:])
        before = ex.list_sub(lst, T.I(0), i) if ex.branch(i > 0) else VList([])
        after = ex.list_sub(lst, z3.simplify(i + 1), n) if ex.branch(i + 1 < n) else VList([])
        return VList(before.segs + [('lit', [v])] + after.segs)

    def dict_key(self, v):
        if isinstance(v, VStr):
            return v.s
        if isinstance(v, VInt) and T.int_val(v.t) is not None:
            return T.int_val(v.t)
        raise Unsupported('dict key')

    def unpack(self, v, n, starred=False):
        ex = self.ex
        if isinstance(v, VTuple):
            items = v.items
        elif isinstance(v, VLayer):
            items = [v.left, v.box, v.right]
        elif isinstance(v, VList):
            if v.is_literal():
                items = v.items()
            else:
                if not ex.branch(v.length() == n):
                    raise PyRaise('ValueError', 'unpack')
                items = [ex.list_at(v, T.I(j)) for j in range(n)]
        else:
            items = self.world.iterate_static(self, v)
        if len(items) != n and not starred:
            raise PyRaise('ValueError', 'unpack: expected %d got %d' % (n, len(items)))
        return items

    # -------------------------------------------------------- loops
    def loop_spec(self, frame, node):
        ordinal = frame.loop_ordinal(node)
        return frame.loops.get(ordinal), ordinal

    def exec_for(self, s, env, frame):
        ex = self.ex
        it = self.eval(s.iter, env, frame)
        spec, ordinal = self.loop_spec(frame, s)
        seq = self.world.as_sequence(self, it)
        if s.orelse:
            raise Unsupported('for-else')
        if spec is None:
            if isinstance(seq, VList) and seq.is_literal():
                try:
                    for x in seq.items():
                        self.assign(s.target, x, env, frame)
                        try:
                            self.exec_block(s.body, env, frame)
                        except _Continue:
                            continue
                except _Break:
                    pass
                return
            n = seq.length() if isinstance(seq, VList) else None
            nv = T.int_val(n) if n is not None else None
            if nv is not None and nv <= 8:
                try:
                    for j in range(nv):
                        self.assign(s.target, ex.list_at(seq, T.I(j)), env, frame)
                        try:
                            self.exec_block(s.body, env, frame)
                        except _Continue:
                            continue
                except _Break:
                    pass
                return
            raise Unsupported('loop %d of %s needs an invariant' % (ordinal, frame.qualname))
        n = seq.length()
        spec.check(self, env, T.I(0), 'loop%d.entry' % ordinal, seq=seq)
        which = ex.fork(2)
        if which == 1:
            k = T.fresh('it', T.IntS)
            ex.assume(z3.And(0 <= k, k < n))
            spec.assume(self, env, k, seq=seq)
            self.assign(s.target, ex.list_at(seq, k), env, frame)
            try:
                self.exec_block(s.body, env, frame)
            except _Continue:
                pass
            except _Break:
                if spec.break_ok:
                    return
                raise Unsupported('break in a loop with an invariant')
            spec.check(self, env, z3.simplify(k + 1), 'loop%d.preserved' % ordinal, seq=seq)
            raise PathEnd()
        spec.assume(self, env, n, seq=seq, at_exit=True)

    def exec_while(self, s, env, frame):
        ex = self.ex
        spec, ordinal = self.loop_spec(frame, s)
        if spec is None:
            # bounded unrolling is not a proof: refuse
            raise Unsupported('while loop %d of %s needs an invariant' % (ordinal, frame.qualname))
        if s.orelse:
            raise Unsupported('while-else')
        spec.check(self, env, T.I(0), 'loop%d.entry' % ordinal)
        which = ex.fork(2)
        k = T.fresh('it', T.IntS)
        ex.assume(k >= 0)
        spec.assume(self, env, k)
        cond = ex.truth(self.eval(s.test, env, frame))
        if which == 1:
            ex.assume(cond)
            before = spec.variant(self, env) if spec.has_variant else None
            try:
                self.exec_block(s.body, env, frame)
            except _Continue:
                pass
            except _Break:
                if spec.break_ok:
                    if getattr(spec, 'on_break', None) is not None:
                        spec.on_break(self, env)
                    return      # this path leaves the loop through `break` and continues after it
                raise Unsupported('break in a loop with an invariant')
            spec.check(self, env, z3.simplify(k + 1), 'loop%d.preserved' % ordinal)
            if before is not None:
                after = spec.variant(self, env)
                ex.prove('%s.loop%d.variant' % (frame.qualname, ordinal), z3.And(after < before, before > 0) if False
                         else z3.And(after >= 0, after < before))
            raise PathEnd()
        ex.assume(z3.Not(cond))

    def exec_try(self, s, env, frame):
        if s.finalbody:
            raise Unsupported('try/finally')
        try:
            self.exec_block(s.body, env, frame)
        except PyRaise as e:
            for h in s.handlers:
                names = []
                if h.type is None:
                    names = ['Exception']
                elif isinstance(h.type, ast.Tuple):
                    names = [x.id if isinstance(x, ast.Name) else x.attr for x in h.type.elts]
                else:
                    names = [h.type.id if isinstance(h.type, ast.Name) else h.type.attr]
                if any(exc_isinstance(e.exc, nm) for nm in names):
                    if h.name:
                        env.set(h.name, VOpaque('exception'))
                    self.exec_block(h.body, env, frame)
                    return
            raise
        else:
            self.exec_block(s.orelse, env, frame)

    # -------------------------------------------------------- expressions
    def eval(self, e, env, frame=None):
        ex = self.ex
        if isinstance(e, ast.Constant):
            v = e.value
            if v is None:
                return NONE
            if isinstance(v, bool):
                return VBool(v)
            if isinstance(v, int):
                return VInt(v)
            if isinstance(v, float):
                return VReal(v)
            if isinstance(v, str):
                return VStr(v)
            if v is Ellipsis:
                return VOpaque('...')
            raise Unsupported('constant %r' % (v,))
        if isinstance(e, ast.Name):
            try:
                return env.lookup(e.id)
            except KeyError:
                return self.world.global_name(e.id, frame)
        if isinstance(e, ast.Attribute):
            obj = self.eval(e.value, env, frame)
            return self.world.getattr(self, obj, e.attr)
        if isinstance(e, ast.BinOp):
            return self.binop(e.op, self.eval(e.left, env, frame), self.eval(e.right, env, frame))
        if isinstance(e, ast.UnaryOp):
            v = self.eval(e.operand, env, frame)
            if isinstance(e.op, ast.Not):
                return VBool(z3.Not(ex.truth(v)))
            if isinstance(e.op, ast.USub):
                if isinstance(v, VInt):
                    return VInt(z3.simplify(-v.t))
                if isinstance(v, VReal):
                    return VReal(-v.t)
            if isinstance(e.op, ast.UAdd) and isinstance(v, (VInt, VReal)):
                return v
            raise Unsupported('unary op on ' + v.kind)
        if isinstance(e, ast.BoolOp):
            vals = e.values
            cur = self.eval(vals[0], env, frame)
            for nxt in vals[1:]:
                t = ex.truth(cur)
                if isinstance(e.op, ast.Or):
                    if ex.branch(t):
                        return cur
                else:
                    if not ex.branch(t):
                        return cur
                cur = self.eval(nxt, env, frame)
            return cur
        if isinstance(e, ast.Compare):
            left = self.eval(e.left, env, frame)
            conj = []
            for op, rnode in zip(e.ops, e.comparators):
                right = self.eval(rnode, env, frame)
                conj.append(self.compare(op, left, right))
                left = right
            return VBool(z3.And(*conj) if len(conj) > 1 else conj[0])
        if isinstance(e, ast.IfExp):
            if ex.branch(ex.truth(self.eval(e.test, env, frame))):
                return self.eval(e.body, env, frame)
            return self.eval(e.orelse, env, frame)
        if isinstance(e, ast.Tuple):
            return VTuple(self.eval_elts(e.elts, env, frame))
        if isinstance(e, ast.List):
            return VList.lit(self.eval_elts(e.elts, env, frame))
        if isinstance(e, ast.Subscript):
            obj = self.eval(e.value, env, frame)
            idx = self.eval(e.slice, env, frame)
            return self.world.getitem(self, obj, idx)
        if isinstance(e, ast.Slice):
            return VSlice(*[self.eval(x, env, frame) if x is not None else NONE for x in (e.lower, e.upper, e.step)])
        if isinstance(e, ast.Call):
            return self.eval_call(e, env, frame)
        if isinstance(e, ast.Lambda):
            fn = ast.FunctionDef(name='<lambda>', args=e.args, body=[ast.Return(value=e.body)], decorator_list=[])
            return VClosure(fn, env, (frame.qualname if frame else '?') + '.<lambda>')
        if isinstance(e, ast.ListComp):
            return self.eval_comp(e, env, frame)
        if isinstance(e, ast.GeneratorExp):
            return self.eval_comp(e, env, frame)
        if isinstance(e, ast.JoinedStr):
            return VStr(None)
        if isinstance(e, ast.Yield):
            v = self.eval(e.value, env, frame) if e.value is not None else NONE
            if frame is None or frame.on_yield is None:
                ex.yields.append(v)
            else:
                frame.on_yield(self, env, v)
            return NONE
        if isinstance(e, ast.Starred):
            raise Unsupported('starred expression outside a call')
        raise Unsupported('expression ' + type(e).__name__)

    def eval_elts(self, elts, env, frame):
        out = []
        for x in elts:
            if isinstance(x, ast.Starred):
                v = self.eval(x.value, env, frame)
                out.extend(self.world.iterate_static(self, v))
            else:
                out.append(self.eval(x, env, frame))
        return out

    def eval_call(self, e, env, frame):
        # messages.*(...) are evaluated for nothing: text is dropped (DESIGN 2.1)
        if isinstance(e.func, ast.Attribute) and isinstance(e.func.value, ast.Name) \
                and e.func.value.id == 'messages' and not env.has('messages'):
            return VStr(None)
        if isinstance(e.func, ast.Attribute) and e.func.attr == 'format' and isinstance(e.func.value, ast.Constant):
            return VStr(None)
        if isinstance(e.func, ast.Name) and e.func.id == 'super' and not e.args:
            return VMethod(env.lookup('self') if env.has('self') else NONE, '<super>:' + frame.qualname)
        if isinstance(e.func, ast.Name) and e.func.id == 'zip' and len(e.args) == 1 \
                and isinstance(e.args[0], ast.Starred) and not env.has('zip'):
            seq = self.world.as_sequence(self, self.eval(e.args[0].value, env, frame))
            return VOpaqueZipStar(seq)
        fn = self.eval(e.func, env, frame)
        args = []
        for a in e.args:
            if isinstance(a, ast.Starred):
                sv = self.eval(a.value, env, frame)
                if len(e.args) == 1 and (isinstance(sv, VTy) or (isinstance(sv, VTuple) and getattr(sv, 'wires', False))):
                    args.append(VStar(sv))        # a tuple of wire values of symbolic length
                    continue
                if a is e.args[-1] and isinstance(sv, VList) and not sv.is_literal() \
                        and T.int_val(sv.length()) is None:
                    args.append(VStar(sv))        # f(*objects) with a list of symbolic length (Ty(*objects))
                    continue
                args.extend(self.world.iterate_static(self, sv))
            else:
                args.append(self.eval(a, env, frame))
        kwargs = {}
        for kw in e.keywords:
            if kw.arg is None:
                v = self.eval(kw.value, env, frame)
                if isinstance(v, VObject) and v.cls == 'dict':
                    kwargs.update(v.attrs)
                else:
                    raise Unsupported('**kwargs of ' + v.kind)
            else:
                kwargs[kw.arg] = self.eval(kw.value, env, frame)
        return self.world.call(self, fn, args, kwargs, frame)

    def eval_comp(self, e, env, frame):
        """list comprehension / generator expression with one or two `for` clauses"""
        ex = self.ex
        gens = e.generators
        if any(g.is_async for g in gens):
            raise Unsupported('async comprehension')

        def rec(gi, env):
            g = gens[gi]
            it = self.world.as_sequence(self, self.eval(g.iter, env, frame))

            def body(x):
                env2 = Env(env)
                self.assign(g.target, x, env2, frame)
                keep = True
                for cond in g.ifs:
                    if not ex.branch(ex.truth(self.eval(cond, env2, frame))):
                        keep = False
                        break
                if not keep:
                    return None
                if gi + 1 < len(gens):
                    return rec(gi + 1, env2)
                return self.eval(e.elt, env2, frame)
            if isinstance(it, VList) and it.is_literal():
                segs = []
                for x in it.items():
                    r = body(x)
                    if r is None:
                        continue
                    if gi + 1 < len(gens):
                        segs.extend(r.segs)      # the inner clause's list (possibly of symbolic length), in order
                    else:
                        segs.append(('lit', [r]))
                return VList(segs)
            if not g.ifs and gi + 1 == len(gens) and isinstance(e.elt, ast.Name) and isinstance(g.target, ast.Name) \
                    and e.elt.id == g.target.id:
                return it          # [x for x in xs] is a copy of xs
            if not g.ifs and gi + 2 == len(gens) and gi == 0:
                # [.. for t in types for x in t.objects] with a symbolic number of types: the flattening of the types
                # the inner clause ranges over (semantics of nested comprehensions, T2): flat(0) = (), flat(k + 1) =
                # flat(k) ++ inner(types[k]); recursion instances are taken on request (ex.flat_step)
                return self.flatten_comp(it, body)
            if g.ifs or gi + 1 < len(gens):
                raise Unsupported('filter / nested clause over a symbolic list')
            # exceptions raised by the body at an arbitrary element
            def probe():
                k = T.fresh('ci', T.IntS)
                ex.assume(z3.And(0 <= k, k < it.length()))
                body(ex.list_at(it, k))
            ex.side(probe)
            return ex.list_map(it, body, 'comp')
        return rec(0, env)

    def flatten_comp(self, outer, body):
        ex = self.ex
        probe_k = T.fresh('fk', T.IntS)
        whole = []

        def probe():
            ex.assume(z3.And(0 <= probe_k, probe_k < outer.length()))
            r = body(ex.list_at(outer, probe_k))
            w = ex._whole_type(r) if isinstance(r, VList) else None
            whole.append(w is not None)
        ex.side(probe)
        if not whole or not whole[0]:
            raise Unsupported('nested comprehension over a symbolic list whose inner clause is not the objects of a type')

        def inner_type(i):
            return ex._whole_type(body(ex.list_at(outer, i)))
        return self.world.as_sequence(self, ex.flat_of(outer, inner_type))

    # -------------------------------------------------------- operators
    def binop(self, op, a, b):
        ex = self.ex
        w = self.world
        if isinstance(a, (VInt, VBool)) and isinstance(b, (VInt, VBool)):
            x = a.t if isinstance(a, VInt) else z3.If(a.t, 1, 0)
            y = b.t if isinstance(b, VInt) else z3.If(b.t, 1, 0)
            if isinstance(op, ast.Add):
                return VInt(z3.simplify(x + y))
            if isinstance(op, ast.Sub):
                return VInt(z3.simplify(x - y))
            if isinstance(op, ast.Mult):
                return VInt(z3.simplify(x * y))
            if isinstance(op, (ast.FloorDiv, ast.Mod)):
                if not ex.branch(y != 0):
                    raise PyRaise('ZeroDivisionError')
                yv = T.int_val(y)
                if yv is None or yv <= 0:
                    raise Unsupported('// or % by a non-constant or negative divisor')
                return VInt(x / y) if isinstance(op, ast.FloorDiv) else VInt(x % y)
            if isinstance(op, ast.Div):
                if not ex.branch(y != 0):
                    raise PyRaise('ZeroDivisionError')
                return VReal(z3.ToReal(x) / z3.ToReal(y))
            raise Unsupported('int operator ' + type(op).__name__)
        if isinstance(a, (VReal, VInt)) and isinstance(b, (VReal, VInt)):
            x, y = ex.to_real(a), ex.to_real(b)
            if isinstance(op, ast.Add):
                return VReal(z3.simplify(x + y))
            if isinstance(op, ast.Sub):
                return VReal(z3.simplify(x - y))
            if isinstance(op, ast.Mult):
                return VReal(z3.simplify(x * y))
            if isinstance(op, ast.Div):
                if not ex.branch(y != 0):
                    raise PyRaise('ZeroDivisionError')
                return VReal(z3.simplify(x / y))
            raise Unsupported('real operator ' + type(op).__name__)
        if isinstance(a, VList) and isinstance(b, VList) and isinstance(op, ast.Add):
            return ex.list_concat(a, b)
        if isinstance(a, VTuple) and isinstance(b, VTuple) and isinstance(op, ast.Add):
            return VTuple(a.items + b.items)
        if isinstance(a, VTuple) and isinstance(b, VList) and isinstance(op, ast.Add) and b.is_tuple:
            return VList([('lit', a.items)] + b.segs, True)
        if isinstance(a, VList) and isinstance(b, VTuple) and isinstance(op, ast.Add) and a.is_tuple:
            return VList(a.segs + [('lit', b.items)], True)
        if isinstance(op, ast.Mult) and isinstance(a, (VList, VTuple)) and isinstance(b, VInt) or \
                isinstance(op, ast.Mult) and isinstance(b, (VList, VTuple)) and isinstance(a, VInt):
            lst, k = (a, b) if isinstance(b, VInt) else (b, a)
            return w.list_repeat(self, lst, k)
        if isinstance(op, ast.MatMult):
            return w.call_method(self, a, 'tensor', [b], {})
        if isinstance(op, ast.Add) and (getattr(a, 'cls', None) == 'tuple' or getattr(b, 'cls', None) == 'tuple'):
            ta, tb = w.as_wire_tuple(self, a), w.as_wire_tuple(self, b)
            return VTy(T.ty_concat(ta.t, tb.t), cls='tuple')
        if isinstance(op, (ast.RShift, ast.LShift)) and isinstance(a, VTy) and isinstance(b, VTy):
            return w.ty_slash(self, a, b, 'under' if isinstance(op, ast.RShift) else 'over')
        if isinstance(op, ast.RShift):
            return w.call_method(self, a, 'then', [b], {})
        if isinstance(op, ast.LShift):
            return w.call_method(self, b, 'then', [a], {})
        raise Unsupported('operator %s on %s, %s' % (type(op).__name__, a.kind, b.kind))

    def compare(self, op, a, b):
        ex = self.ex
        if isinstance(op, ast.Eq):
            return self.world.py_eq(self, a, b)
        if isinstance(op, ast.NotEq):
            return z3.Not(self.world.py_eq(self, a, b))
        if isinstance(op, (ast.Is, ast.IsNot)):
            for x, y in ((a, b), (b, a)):
                if isinstance(x, VNone) and isinstance(y, VOb):
                    # an abstract wire value is any python value, None included: both outcomes are explored
                    r = T.ob_is_none(y.t)
                    return r if isinstance(op, ast.Is) else z3.Not(r)
            if isinstance(a, VNone) or isinstance(b, VNone):
                r = z3.BoolVal(isinstance(a, VNone) and isinstance(b, VNone))
                return r if isinstance(op, ast.Is) else z3.Not(r)
            raise Unsupported('`is` between modelled values')
        if isinstance(op, (ast.In, ast.NotIn)):
            r = self.world.contains(self, b, a)
            return r if isinstance(op, ast.In) else z3.Not(r)
        if isinstance(a, (VInt, VBool)) and isinstance(b, (VInt, VBool)):
            x = a.t if isinstance(a, VInt) else z3.If(a.t, 1, 0)
            y = b.t if isinstance(b, VInt) else z3.If(b.t, 1, 0)
        elif isinstance(a, (VInt, VReal)) and isinstance(b, (VInt, VReal)):
            x, y = ex.to_real(a), ex.to_real(b)
        else:
            raise Unsupported('ordering between %s and %s' % (a.kind, b.kind))
        if isinstance(op, ast.Lt):
            return x < y
        if isinstance(op, ast.LtE):
            return x <= y
        if isinstance(op, ast.Gt):
            return x > y
        if isinstance(op, ast.GtE):
            return x >= y
        raise Unsupported('comparison ' + type(op).__name__)


def env_set_existing(env, name, value):
    e = env
    while e is not None:
        if name in e.vars:
            e.vars[name] = value
            return
        e = e.parent
    env.set(name, value)


def loops_in_order(fn_node):
    """for/while statements of a function in source order, nested defs excluded"""
    out = []

    def walk(stmts):
        for s in stmts:
            if isinstance(s, (ast.FunctionDef, ast.ClassDef, ast.AsyncFunctionDef)):
                continue
            if isinstance(s, (ast.For, ast.While)):
                out.append(s)
            for field in ('body', 'orelse', 'finalbody'):
                walk(getattr(s, field, []) or [])
            for h in getattr(s, 'handlers', []) or []:
                walk(h.body)
    walk(fn_node.body)
    return out


class Frame:
    def __init__(self, qualname, loops, node=None):
        self.qualname, self.loops = qualname, loops
        self._ordinals = {id(n): k for k, n in enumerate(loops_in_order(node))} if node is not None else {}
        self.on_yield = None

    def loop_ordinal(self, node):
        return self._ordinals[id(node)]
