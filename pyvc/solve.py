"""Discharge SMT-LIB queries with z3-new and cvc5 child processes (hard kill), in parallel."""
import hashlib
import os
import shutil
import subprocess
import tempfile
import time
from concurrent.futures import ThreadPoolExecutor

Z3_BIN = shutil.which('z3-new') or shutil.which('z3')
CVC5_BIN = shutil.which('cvc5')


def _parse(out):
    lines = (out or '').strip().splitlines()
    verdict = lines[0].strip() if lines else 'unknown'
    if verdict not in ('sat', 'unsat'):
        verdict = 'unknown'
    return verdict, '\n'.join(lines[1:])


def _race(cmds, timeout, need_all=False):
    """start all solver processes; first definite verdict wins (others are killed) unless need_all"""
    t0 = time.time()
    procs = {name: subprocess.Popen(cmd, stdout=subprocess.PIPE, stderr=subprocess.PIPE, text=True)
             for name, cmd in cmds.items()}
    res = {}
    try:
        while procs and time.time() - t0 < timeout + 2:
            for name in list(procs):
                p = procs[name]
                if p.poll() is not None:
                    out = p.stdout.read()
                    v, tail = _parse(out)
                    res[name] = (v, time.time() - t0, tail)
                    del procs[name]
                    if v != 'unknown' and not need_all:
                        return res
            if procs:
                time.sleep(0.005)
        return res
    finally:
        for name, p in procs.items():
            p.kill()
            p.wait()
            res.setdefault(name, ('unknown', time.time() - t0, 'killed'))
        for p in list(procs.values()):
            for f in (p.stdout, p.stderr):
                try:
                    f.close()
                except Exception:
                    pass


def solve_text(text, timeout=10, both=False, want_model=False):
    """returns dict(verdict, by={solver: (verdict, seconds)}, model)"""
    d = tempfile.mkdtemp(prefix='pyvc_q_')
    try:
        fn = os.path.join(d, 'q.smt2')
        with open(fn, 'w') as f:
            f.write(text + "\n(check-sat)\n")
        cmds = {'z3': [Z3_BIN, '-T:%d' % timeout, fn],
                'cvc5': [CVC5_BIN, '--strings-exp', '--tlimit=%d' % (timeout * 1000), fn]}
        raw = _race(cmds, timeout, need_all=both)
        res = {k: (v[0], v[1]) for k, v in raw.items()}
        verdicts = {v for v, _ in res.values()} - {'unknown'}
        if len(verdicts) > 1:
            verdict = 'disagree'
        elif verdicts:
            verdict = verdicts.pop()
        else:
            verdict = 'unknown'
        model = None
        if verdict == 'sat' and want_model:
            with open(fn, 'w') as f:
                f.write("(set-option :produce-models true)\n" + text + "\n(check-sat)\n(get-model)\n")
            solver = 'z3' if res.get('z3', ('', 0))[0] == 'sat' else 'cvc5'
            raw = _race({solver: cmds[solver]}, timeout)
            model = raw[solver][2]
        return {'verdict': verdict, 'by': res, 'model': model}
    finally:
        shutil.rmtree(d, ignore_errors=True)


def solve_many(texts, timeout=10, both=False, workers=None, want_model=True):
    workers = workers or min(16, os.cpu_count() or 4)
    cache = {}
    keys = [hashlib.sha1(t.encode()).hexdigest() for t in texts]
    uniq = {}
    for k, t in zip(keys, texts):
        uniq.setdefault(k, t)
    with ThreadPoolExecutor(max_workers=workers) as ex:
        futs = {k: ex.submit(solve_text, t, timeout, both, want_model) for k, t in uniq.items()}
        for k, f in futs.items():
            cache[k] = f.result()
    return [cache[k] for k in keys]
