"""Driver: explore every path of a real function against its contract, emit and discharge goals."""
import hashlib
import os
import subprocess
import time
import traceback
import z3

from . import terms as T
from . import frontend, solve
from .values import VOpaque, VStr
from .values import *  # noqa
from .interp import (Executor, Interp, Env, PyRaise, Unsupported, PathEnd, Infeasible)
from .world import World


class Obligation:
    def __init__(self, fn, name, text, meta, trivial=False):
        self.fn, self.name, self.text, self.meta, self.trivial = fn, name, text, meta, trivial
        self.verdict, self.by, self.model = None, None, None

    def key(self):
        return (self.fn, self.name, self.text)

    def to_json(self):
        return {'function': self.fn, 'obligation': self.name, 'verdict': self.verdict,
                'solvers': {k: {'verdict': v[0], 'time_s': round(v[1], 3)} for k, v in (self.by or {}).items()},
                'trivial': self.trivial}


class FunctionReport:
    def __init__(self, qualname):
        self.qualname = qualname
        self.paths = 0
        self.infeasible = 0
        self.obligations = []
        self.undecided = []       # reasons (left the subset, path limit)
        self.errors = []
        self.source_hash = None
        self.wall = 0.0
        self.used = set()

    def counts(self):
        n = len(self.obligations)
        d = sum(1 for o in self.obligations if o.verdict == 'unsat' or o.trivial)
        f = [o for o in self.obligations if o.verdict == 'sat']
        u = [o for o in self.obligations if o.verdict in ('unknown', 'disagree')]
        return n, d, f, u


class Forker:
    """explore alternatives in forked child processes (no re-execution): at a choice point the
    process forks; the child waits for a job slot, drops the goals it inherited and continues
    with its alternative.  Every process writes the goals of its own path to a file."""

    def __init__(self, outdir, slots, path_limit):
        import multiprocessing
        ctx = multiprocessing.get_context('fork')
        self.outdir = outdir
        self.sem = ctx.BoundedSemaphore(slots)
        self.live = ctx.Value('i', 1)
        self.total = ctx.Value('i', 1)
        self.path_limit = path_limit
        self.is_child = False
        self.over_limit = False

    def spawn(self, ex):
        """fork; returns True in the child"""
        t00 = time.time()
        with self.total.get_lock():
            self.total.value += 1
            if self.total.value > self.path_limit:
                self.over_limit = True
                return False
        with self.live.get_lock():
            self.live.value += 1
        t0 = time.time()
        self.lock_time = getattr(self, 'lock_time', 0.0) + t0 - t00
        pid = os.fork()
        if pid == 0:
            self.is_child = True
            ex.goals = []
            self.t_fork = time.time()
            self.sem.acquire()
            self.t_start = time.time()
            self.n_forks = 0
            self.fork_time = 0.0
            return True
        self.n_forks = getattr(self, 'n_forks', 0) + 1
        self.fork_time = getattr(self, 'fork_time', 0.0) + time.time() - t0
        return False

    def finish(self, payload):
        import pickle
        if os.environ.get('PYVC_TRACE'):
            with open(os.environ['PYVC_TRACE'], 'a') as f:
                f.write('%d cpu=%.2f lockt=%.2f ' % (os.getpid(), time.process_time(), getattr(self, 'lock_time', 0.0)))
                f.write('%d forked@%.2f start@%.2f end@%.2f forks=%d forktime=%.2f\n' % (
                    os.getpid(), getattr(self, 't_fork', 0) % 1000, getattr(self, 't_start', 0) % 1000,
                    time.time() % 1000, getattr(self, 'n_forks', 0), getattr(self, 'fork_time', 0.0)))
        tmp = os.path.join(self.outdir, '%d.tmp' % os.getpid())
        with open(tmp, 'wb') as f:
            pickle.dump(payload, f)
        os.rename(tmp, os.path.join(self.outdir, '%d.pkl' % os.getpid()))
        self.sem.release()
        with self.live.get_lock():
            self.live.value -= 1


def _fork_root(contract, world, forker):
    """body of the root exploration process and, after forks, of all its descendants"""
    forker.sem.acquire()
    try:
        res = _explore_one(contract, world, [], forker=forker)
    except BaseException as e:     # noqa
        res = ('error', [], [], 'engine error: %r\n%s' % (e, traceback.format_exc()))
    if forker.over_limit:
        res = (res[0], res[1], res[2], res[3], 'path limit')
    forker.finish(res)
    os._exit(0)


def explore_forking(contract, world, path_limit, slots=16, timeout=900):
    import multiprocessing
    import pickle
    import shutil
    import tempfile
    outdir = tempfile.mkdtemp(prefix='pyvc_paths_')
    try:
        forker = Forker(outdir, slots, path_limit)
        ctx = multiprocessing.get_context('fork')
        p = ctx.Process(target=_fork_root, args=(contract, world, forker))
        p.start()
        t0 = time.time()
        timed_out = False
        while True:
            with forker.live.get_lock():
                n = forker.live.value
            if n <= 0:
                break
            if time.time() - t0 > timeout:
                timed_out = True
                break
            time.sleep(0.02)
        p.join(timeout=5)
        results = []
        for fn in sorted(os.listdir(outdir)):
            if fn.endswith('.pkl'):
                with open(os.path.join(outdir, fn), 'rb') as f:
                    results.append(pickle.load(f))
        if timed_out:
            results.append(('error', [], [], 'exploration timed out after %ds' % timeout))
            subprocess.run(['pkill', '-P', str(p.pid)], capture_output=True)
        return results, forker.total.value
    finally:
        shutil.rmtree(outdir, ignore_errors=True)


def run_path(contract, world, prefix, compare_spec=True, forker=None):
    ex = Executor(prefix)
    ex.forker = forker
    interp = Interp(ex, world)
    q = contract.qualname
    status = 'ok'
    try:
        try:
            if getattr(contract, 'lemma', None) is not None:
                try:
                    contract.lemma(interp)
                except PyRaise as e:
                    ex.prove('no exception in the lemma (raised %s)' % e.exc, False)
                return ex, status
            args, kwargs = contract.params(ex)
            ex.verifying = q
            node, _ = frontend.find(q)
            body_exc, body_res = None, None
            self_obj = args[0] if contract.is_init else None
            try:
                hook = None
                if contract.on_yield is not None:
                    hook = (lambda c_: lambda it, env, v: c_.on_yield(it, env, v, args))(contract)
                cenv = getattr(contract, 'closure_env', None) or {}
                if getattr(contract, 'closure_env_fn', None) is not None:
                    cenv = contract.closure_env_fn(ex)
                body_res = interp.call_function(node, Env(None, dict(cenv)),
                                                list(args), dict(kwargs), q,
                                                loops=contract.loops, on_yield=hook)
            except PyRaise as e:
                body_exc = e.exc
            yields = list(ex.yields)
            if contract.spec_src is not None and compare_spec and getattr(ex, 'compare_spec', True):
                spec_exc, spec_res = None, None
                args2 = list(args)
                if contract.is_init:
                    args2[0] = VObject(self_obj.cls)
                ex.verifying = None
                try:
                    world.spec_mode += 1
                    try:
                        spec_res = interp.call_function(contract.spec_node(), Env(None, {}), args2, dict(kwargs),
                                                        'spec:' + q, loops=contract.spec_loops)
                    finally:
                        world.spec_mode -= 1
                except PyRaise as e:
                    spec_exc = e.exc
                if body_exc != spec_exc:
                    ex.prove('%s: body %s but contract says %s' % (
                        'exceptions', 'raises ' + body_exc if body_exc else 'returns',
                        'raises ' + spec_exc if spec_exc else 'returns'), False,
                        meta={'kind': 'exception-agreement', 'body': body_exc, 'spec': spec_exc})
                elif body_exc is None:
                    if contract.is_init:
                        so, bo = args2[0], self_obj
                        for k, v in so.attrs.items():
                            if isinstance(v, VOpaque) or (isinstance(v, VStr) and v.s is None):
                                continue        # names / messages built by str.format are outside the model
                            if k not in bo.attrs:
                                ex.prove('result.%s is set' % k, False)
                            else:
                                ex.prove_equal('result.' + k, bo.attrs[k], v)
                    else:
                        ex.prove_equal('result', body_res, spec_res)
            if contract.ensures is not None:
                if body_exc is None:
                    contract.ensures(interp, args, kwargs, body_res if not contract.is_init else self_obj)
                elif contract.on_raise is not None:
                    contract.on_raise(interp, args, kwargs, body_exc)
                elif contract.spec_src is None:
                    ex.prove('no exception escapes (raised %s)' % body_exc, False,
                             meta={'kind': 'unexpected-exception', 'body': body_exc})
        except PathEnd:
            status = 'side'
        except Infeasible:
            status = 'infeasible'
    except Unsupported as e:
        # a construct outside the model was reached: the path is only acceptable if it is infeasible, which the LIA
        # abstraction used for branching may have missed; the full solver decides (a failure here is "undecided",
        # never a violation)
        status = 'guarded-unsupported'
        try:
            ex.prove('a path reaching an unmodelled construct is infeasible (%s)' % e, False,
                     meta={'kind': 'unsupported-path', 'what': str(e)})
        except Exception:
            status = 'unsupported: %s' % e
    return ex, status


def _explore_one(contract, world, prefix, forker=None):
    """run one decision prefix; returns picklable (status, pending, goals[(name, text|None, meta)], error)"""
    try:
        ex, status = run_path(contract, world, prefix, forker=forker)
    except Exception as e:   # engine bug: never a verdict about the code
        return ('error', [], [], 'engine error on path %r: %s\n%s' % (prefix, e, traceback.format_exc()))
    out = []
    for g in ex.goals:
        if g.meta.get('trivial'):
            out.append((g.name, None, _plain(g.meta)))
            continue
        meta = _plain(g.meta)
        meta['_key'] = g.key
        out.append((g.name, g.text, meta))
    if ex.used:
        out.append(('__used__', None, {'used': '\n'.join(sorted(ex.used))}))
    return (status, ex.pending, out, None)


def _plain(meta):
    return {k: v for k, v in (meta or {}).items() if isinstance(v, (str, int, float, bool, type(None)))}


_WORKER = {}


def real_name(contract):
    return contract.qualname


def _worker_task(qualname, prefix):
    c = _WORKER['contracts'][qualname]
    return _explore_one(c, _WORKER['world'], prefix)


def verify_contract(contract, world, path_limit=4000, pool=None):
    rep = FunctionReport(getattr(contract, 'label', None) or contract.qualname)
    t0 = time.time()
    try:
        if getattr(contract, 'lemma', None) is None:
            rep.source_hash = frontend.source_hash(contract.qualname)
    except KeyError:
        rep.undecided.append('function %s not found in /repo (renamed or removed)' % contract.qualname)
        return rep, []
    goals = []
    seen = set()

    def absorb(res):
        status, pending, gl, err = res
        if err:
            rep.errors.append(err)
            return []
        if status.startswith('unsupported'):
            if status not in rep.undecided:
                rep.undecided.append(status)
        if status == 'infeasible':
            rep.infeasible += 1
        for name, text, meta in gl:
            if name == '__used__':
                rep.used |= set(meta['used'].split('\n'))
                continue
            if text is None:
                key = (name, 'trivial')
                if key not in seen:
                    seen.add(key)
                    ob = Obligation(rep.qualname, name, '', meta, trivial=True)
                    ob.verdict = 'unsat'
                    rep.obligations.append(ob)
                continue
            key = (name, meta.get('_key', text))
            if key in seen:
                continue
            seen.add(key)
            ob = Obligation(rep.qualname, name, text, meta)
            rep.obligations.append(ob)
            goals.append(ob)
        return pending

    if pool == 'fork':
        results, total = explore_forking(contract, world, path_limit)
        rep.paths = total
        for res in results:
            absorb(res[:4])
            if len(res) > 4 and 'path limit %d exceeded' % path_limit not in rep.undecided:
                rep.undecided.append('path limit %d exceeded' % path_limit)
    elif pool is None:
        work = [[]]
        while work:
            prefix = work.pop()
            rep.paths += 1
            if rep.paths > path_limit:
                rep.undecided.append('path limit %d exceeded' % path_limit)
                break
            work.extend(absorb(_explore_one(contract, world, prefix)))
    else:
        import queue
        done = queue.Queue()

        def submit(pfx):
            pool.apply_async(_worker_task, (contract.qualname, pfx), callback=done.put,
                             error_callback=lambda e: done.put(('error', [], [], 'worker failed: %r' % (e,))))
        submit([])
        rep.paths = 1
        outstanding = 1
        while outstanding:
            res = done.get()
            outstanding -= 1
            for pfx in absorb(res):
                rep.paths += 1
                if rep.paths > path_limit:
                    if 'path limit %d exceeded' % path_limit not in rep.undecided:
                        rep.undecided.append('path limit %d exceeded' % path_limit)
                    continue
                submit(pfx)
                outstanding += 1
    rep.wall = time.time() - t0
    return rep, goals


def discharge(obligations, timeout=10, both=False):
    texts = [o.text for o in obligations]
    results = solve.solve_many(texts, timeout=timeout, both=both)
    # an obligation left open in the first pass (solver budget exhausted, e.g. on a loaded machine) is tried once more,
    # few at a time and with six times the budget, so that verdicts do not flip with the load; `unknown` stays undecided
    again = [i for i, (o, r) in enumerate(zip(obligations, results))
             if r['verdict'] == 'unknown' and (o.meta or {}).get('kind') != 'unsupported-path']
    if again and len(again) <= 40:
        second = solve.solve_many([texts[i] for i in again], timeout=6 * timeout, both=both, workers=4)
        for i, r in zip(again, second):
            if r['verdict'] != 'unknown':
                results[i] = r
    for o, r in zip(obligations, results):
        o.verdict, o.by, o.model = r['verdict'], r['by'], r['model']
        if (o.meta or {}).get('kind') == 'unsupported-path' and o.verdict != 'unsat':
            o.verdict = 'unknown'       # undecided (engine limit), not a refutation of the code


def verify_all(contracts, names=None, timeout=10, both=False, path_limit=4000, verbose=False, workers=None):
    """contracts: dict qualname -> Contract.  Returns list of FunctionReport."""
    world = World(contracts)
    reports = []
    pending = []
    pool = None
    if workers != 1:
        import multiprocessing
        _WORKER['contracts'], _WORKER['world'] = contracts, world
        pool = multiprocessing.get_context('fork').Pool(workers or min(16, multiprocessing.cpu_count()))
    for q, c in contracts.items():
        if names is not None and q not in names:
            continue
        if c.params is None and getattr(c, 'lemma', None) is None:
            continue     # call-site-only contract (assumed): listed by the caller as an assumption
        rep, goals = verify_contract(c, world, path_limit=path_limit, pool=pool)
        reports.append(rep)
        pending.extend(goals)
        if verbose:
            print('  explored %-55s paths=%-4d goals=%-4d %s' % (q, rep.paths, len(rep.obligations),
                                                                   '; '.join(rep.undecided + rep.errors)[:200]))
    if pool is not None:
        pool.close()
        pool.join()
    discharge(pending, timeout=timeout, both=both)
    return reports
