"""Name resolution, built-ins, attribute / method dispatch and contract application.

A call inside a verified function is resolved by the static kind of the receiver to a
*contract* (functional spec written in the same Python subset, contracts/*.py); only local
helper closures without a contract are inlined."""
import ast
import z3

from . import terms as T
from . import frontend
from .values import *  # noqa
from .interp import (Interp, Env, Frame, PyRaise, Unsupported, PathEnd, Infeasible, _Return,
                     exc_isinstance, EXC_PARENT)

EXCEPTIONS = set(EXC_PARENT)

# class name -> (record kind, bases) ; used for isinstance and construction
CLASSES = {
    'cat.Ob': ('ob', []),
    'cat.Quiver': ('record', []), 'cat.Functor': ('record', []), 'monoidal.Functor': ('record', ['cat.Functor']),
    'rigid.Functor': ('record', ['monoidal.Functor']), 'cartesian.PythonFunctor': ('record', ['rigid.Functor']),
    'cat.Arrow': ('arrow', []),
    'cat.Id': ('arrow', ['cat.Arrow']),
    'cat.Box': ('box', ['cat.Arrow']),
    'cat.Sum': ('sum', ['cat.Box']),
    'cat.Bubble': ('bubble', ['cat.Box']),
    'monoidal.Ty': ('ty', ['cat.Ob']),
    'monoidal.PRO': ('ty', ['monoidal.Ty']),
    'monoidal.Layer': ('layer', ['cat.Box']),
    'monoidal.Diagram': ('diagram', ['cat.Arrow']),
    'monoidal.Id': ('diagram', ['cat.Id', 'monoidal.Diagram']),
    'monoidal.Box': ('box', ['cat.Box', 'monoidal.Diagram']),
    'monoidal.Swap': ('box', ['monoidal.Box']),
    'monoidal.Sum': ('sum', ['cat.Sum', 'monoidal.Box']),
    'monoidal.Bubble': ('bubble', ['cat.Bubble', 'monoidal.Box']),
    'rigid.Ob': ('ob', ['cat.Ob']),
    'rigid.Ty': ('ty', ['monoidal.Ty', 'rigid.Ob']),
    'rigid.PRO': ('ty', ['monoidal.PRO', 'rigid.Ty']),
    'rigid.Diagram': ('diagram', ['monoidal.Diagram']),
    'rigid.Id': ('diagram', ['monoidal.Id', 'rigid.Diagram']),
    'rigid.Box': ('box', ['monoidal.Box', 'rigid.Diagram']),
    'rigid.Swap': ('box', ['monoidal.Swap', 'rigid.Box']),
    'rigid.Cup': ('box', ['rigid.Box']),
    'rigid.Cap': ('box', ['rigid.Box']),
    'cartesian.Function': ('function', ['rigid.Box']),
    'biclosed.Ty': ('ty', ['monoidal.Ty']),
    'biclosed.Over': ('ty', ['biclosed.Ty']),
    'biclosed.Under': ('ty', ['biclosed.Ty']),
    'biclosed.Diagram': ('diagram', ['monoidal.Diagram']),
    'biclosed.Id': ('diagram', ['monoidal.Id', 'biclosed.Diagram']),
    'biclosed.Box': ('box', ['monoidal.Box', 'biclosed.Diagram']),
    'biclosed.Curry': ('box', ['biclosed.Box']),
    'biclosed.FA': ('box', ['biclosed.Box']),
    'biclosed.BA': ('box', ['biclosed.Box']),
    'biclosed.FC': ('box', ['biclosed.Box']),
    'biclosed.BC': ('box', ['biclosed.Box']),
    'biclosed.FX': ('box', ['biclosed.Box']),
    'biclosed.BX': ('box', ['biclosed.Box']),
}

# module-level functions that verified code may call by name (inlined from the real source)
MODULE_FUNCTIONS = {'cartesian': ('tuplify', 'untuplify'), 'rigid': ('cups', 'caps')}

BOX_KIND_OF_CLASS = {'monoidal.Swap': 'Swap', 'rigid.Swap': 'Swap', 'rigid.Cup': 'Cup', 'rigid.Cap': 'Cap',
                     'cat.Sum': 'Sum', 'monoidal.Sum': 'Sum', 'cat.Bubble': 'Bubble', 'monoidal.Bubble': 'Bubble',
                     'biclosed.FA': 'FA', 'biclosed.BA': 'BA', 'biclosed.FC': 'FC', 'biclosed.BC': 'BC',
                     'biclosed.FX': 'FX', 'biclosed.BX': 'BX', 'biclosed.Curry': 'Curry'}

# names visible in each module (the module's own imports and definitions)
MODULE_NAMES = {
    'cat': {'Ob': 'cat.Ob', 'Arrow': 'cat.Arrow', 'Id': 'cat.Id', 'Box': 'cat.Box', 'Sum': 'cat.Sum',
            'Bubble': 'cat.Bubble', 'Quiver': 'cat.Quiver'},
    'monoidal': {'Ob': 'cat.Ob', 'Ty': 'monoidal.Ty', 'PRO': 'monoidal.PRO', 'Layer': 'monoidal.Layer',
                 'Diagram': 'monoidal.Diagram', 'Id': 'monoidal.Id', 'Box': 'monoidal.Box',
                 'Swap': 'monoidal.Swap', 'Sum': 'monoidal.Sum', 'Bubble': 'monoidal.Bubble'},
    'rewriting': {},
    'rigid': {'Ob': 'rigid.Ob', 'Ty': 'rigid.Ty', 'PRO': 'rigid.PRO', 'Diagram': 'rigid.Diagram',
              'Id': 'rigid.Id', 'Box': 'rigid.Box', 'Swap': 'rigid.Swap', 'Cup': 'rigid.Cup', 'Cap': 'rigid.Cap'},
    'cartesian': {'Function': 'cartesian.Function', 'Sum': 'monoidal.Sum', 'PRO': 'rigid.PRO', 'AxiomError': 'exc.AxiomError'},
    'biclosed': {'Ty': 'biclosed.Ty', 'Over': 'biclosed.Over', 'Under': 'biclosed.Under', 'Diagram': 'biclosed.Diagram',
                 'Id': 'biclosed.Id', 'Box': 'biclosed.Box', 'Curry': 'biclosed.Curry', 'FA': 'biclosed.FA',
                 'BA': 'biclosed.BA', 'FC': 'biclosed.FC', 'BC': 'biclosed.BC', 'FX': 'biclosed.FX', 'BX': 'biclosed.BX'},
}
MODULES = {'cat', 'monoidal', 'messages', 'drawing', 'rewriting', 'rigid', 'tensor'}


def is_subclass(cls, base):
    if cls == base:
        return True
    return any(is_subclass(b, base) for b in CLASSES.get(cls, (None, []))[1])


class LoopSpec:
    """loop invariant given as a closed form / by-construction state of the loop-carried
    variables at iteration k (see DESIGN 2.5)"""
    break_ok = False
    has_variant = False

    def __init__(self, state=None, check=None, assume=None):
        self._state, self._check, self._assume = state, check, assume

    def assume(self, interp, env, k, seq=None, at_exit=False):
        if self._assume is not None:
            return self._assume(interp, env, k, seq, at_exit)
        for name, v in self._state(interp, env, k, seq).items():
            env.set(name, v)

    def check(self, interp, env, k, label, seq=None):
        if self._check is not None:
            return self._check(interp, env, k, label, seq)
        for name, v in self._state(interp, env, k, seq).items():
            try:
                cur = env.lookup(name)
            except KeyError:
                interp.ex.prove(label + ':' + name + ' bound', False)
                continue
            interp.ex.prove_equal(label + ':' + name, cur, v)


class Contract:
    """functional contract of one real function.

    spec      python source of `def spec(...)` in the verified subset + Raw constructors: the value
              (or exception) the function must produce; used at call sites instead of the body
    params    callable(ex) -> (args, kwargs): symbolic inputs for verifying the body; assumes `requires`
    ensures   callable(interp, args, kwargs, result) -> None, emitting property-level goals
    loops     {ordinal: LoopSpec} for the real body
    """

    def __init__(self, qualname, spec=None, params=None, ensures=None, loops=None, record=None,
                 is_init=False, requires=None, on_raise=None, spec_loops=None, property_ids=()):
        self.qualname, self.spec_src, self.params, self.ensures = qualname, spec, params, ensures
        self.loops = loops or {}
        self.record, self.is_init = record, is_init
        self.requires = requires
        self.on_raise = on_raise
        self.spec_loops = spec_loops or {}
        self.property_ids = tuple(property_ids)
        self.lemma = None
        self.abstract = None      # callable(interp, args, kwargs) -> value: call-site contract with a fresh result
        self.on_yield = None      # callable(interp, env, value): obligations at every `yield` of the real body
        self._spec_node = None

    def spec_node(self):
        if self._spec_node is None and self.spec_src is not None:
            import textwrap
            tree = ast.parse(textwrap.dedent(self.spec_src))
            self._spec_node = [n for n in tree.body if isinstance(n, ast.FunctionDef)][0]
        return self._spec_node


class World:
    dropped_attrs = {'draw_as_wires', 'draw_as_spider', 'drawing_name', 'tikzstyle_name', 'color', 'shape',
                     'bubble_opening', 'bubble_closing', 'draw_as_box'}

    def __init__(self, contracts):
        self.contracts = contracts
        self.spec_mode = 0

    def strip(self, body):
        return frontend.strip_docstring(body)

    # ------------------------------------------------------------ names
    def module_of(self, frame):
        if frame is None:
            return None
        q = frame.qualname
        if q.startswith('spec:'):
            q = q[5:]
        return q.split('.')[0]

    def global_name(self, name, frame):
        mod = self.module_of(frame)
        if mod in MODULE_NAMES and name in MODULE_NAMES[mod]:
            return VClass(MODULE_NAMES[mod][name])
        if name in MODULES:
            return VModule(name)
        if name in EXCEPTIONS:
            return VClass('exc.' + name)
        if mod in MODULE_FUNCTIONS and name in MODULE_FUNCTIONS[mod]:
            from . import frontend
            q = mod + '.' + name
            node, _ = frontend.find(q)
            return VClosure(node, Env(None, {}), q)
        if name in BUILTINS:
            return VBuiltin(name, BUILTINS[name])
        if name in SPEC_PRIMS:
            return VBuiltin(name, SPEC_PRIMS[name])
        if name in ('int', 'slice', 'list', 'tuple', 'bool', 'str', 'float', 'set', 'dict', 'type'):
            return VClass('py.' + name)
        if name == 'Mapping' and mod == 'cat':
            return VClass('py.Mapping')
        raise Unsupported('unknown name %s in %s' % (name, frame.qualname if frame else '?'))

    def do_import(self, s, env):
        if isinstance(s, ast.ImportFrom):
            mod = (s.module or '').replace('discopy.', '').replace('discopy', '')
            for a in s.names:
                name = a.asname or a.name
                if mod == '' and a.name in MODULES:
                    env.set(name, VModule(a.name))
                elif mod in MODULE_NAMES and a.name in MODULE_NAMES[mod]:
                    env.set(name, VClass(MODULE_NAMES[mod][a.name]))
                elif mod in MODULE_NAMES or mod in MODULES:
                    env.set(name, VClass(mod + '.' + a.name))
                else:
                    env.set(name, VOpaque('import ' + a.name))
        else:
            for a in s.names:
                env.set(a.asname or a.name.split('.')[0], VOpaque('import ' + a.name))

    # ------------------------------------------------------------ views
    def box_dagger(self, interp, b):
        """call-site contract of Box.dagger / Box[::-1]: swaps dom and cod and is an involution.  Verified on the four real
        bodies (contracts/daggers.py): dom / cod exchanged, and twice gives back every field __eq__ compares; that this
        fieldwise involution is an equality of boxes rests on L-box (a box is determined by the fields its __eq__
        compares: C03's obligations)"""
        ex = interp.ex
        for u in ('cat.Box.dagger', 'monoidal.Swap.dagger', 'rigid.Cup.dagger', 'rigid.Cap.dagger'):
            ex.used.add(u)
        ex.used.add('L-box: a box is determined by the fields its __eq__ compares (C03), so the fieldwise involution of dagger is an equality')
        d = T.bdag(b.t)
        ex.assume(T.bdom(d) == T.bcod(b.t))
        ex.assume(T.bcod(d) == T.bdom(b.t))
        ex.assume(T.bdag(d) == b.t)
        return VBox(d)

    def box_as_diagram(self, b):
        eps = VTy(T.EMPTY)
        dom, cod = VTy(T.bdom(b.t)), VTy(T.bcod(b.t))
        layer = VLayer(eps, b, eps)
        return VDiagram(dom, cod, VList.lit([b]), VList.lit([VInt(0)]),
                        VArrow(dom, cod, VList.lit([layer])))

    def as_diagram(self, v):
        if isinstance(v, VDiagram):
            return v
        if isinstance(v, VBox):
            return self.box_as_diagram(v)
        raise Unsupported('diagram expected, got ' + v.kind)

    def as_sequence(self, interp, v):
        """the VList a `for` loop / comprehension iterates over"""
        ex = interp.ex
        if isinstance(v, VList):
            return v
        if isinstance(v, VTuple):
            return VList.lit(v.items)
        if isinstance(v, VRange):
            lo, hi = v.lo, v.hi
            n = z3.If(hi >= lo, hi - lo, 0)
            if ex.branch(hi >= lo):
                n = z3.simplify(hi - lo)
            else:
                n = T.I(0)
            nv, lov = T.int_val(n), T.int_val(lo)
            if nv is not None and nv <= 16:
                return VList.lit([VInt(z3.simplify(lo + j)) for j in range(nv)])
            base = ex.register_base(BaseList('range', n, lambda i: VInt(z3.simplify(lo + i)), 'int'))
            return VList.of_base(base)
        if isinstance(v, VArrow):
            return v.boxes
        if isinstance(v, VTy):
            if v.elems is not None:
                return v.elems
            n = T.ty_len(v.t)
            nv = T.int_val(n)
            if nv is not None and nv <= 8:
                return VList.lit([ex.ty_at(v, T.I(j)) for j in range(nv)])
            base = ex.register_base(BaseList('ty_iter', n, lambda i: ex.ty_at(v, i), 'ob'))
            base.origin = ('ty', v)
            return VList.of_base(base)
        if isinstance(v, VLayer):
            return VList.lit([v.left, v.box, v.right])
        if isinstance(v, VDiagram):
            # monoidal.Diagram.__iter__: Id(left) @ box @ Id(right) per layer
            return ex.list_map(v.layers.boxes, lambda l: self.layer_as_diagram(l), 'diagram_iter')
        if isinstance(v, VBox):
            return self.as_sequence(interp, self.box_as_diagram(v))
        raise Unsupported('iteration over ' + v.kind)

    def layer_as_diagram(self, l):
        dom, cod = l.dom(), l.cod()
        return VDiagram(dom, cod, VList.lit([l.box]), VList.lit([VInt(T.ty_len(l.left.t))]),
                        VArrow(dom, cod, VList.lit([l])))

    def iterate_static(self, interp, v):
        seq = self.as_sequence(interp, v)
        if seq.is_literal():
            return seq.items()
        nv = T.int_val(seq.length())
        if nv is None:
            raise Unsupported('static iteration over a list of symbolic length')
        return [interp.ex.list_at(seq, T.I(j)) for j in range(nv)]

    def list_repeat(self, interp, lst, k):
        kv = T.int_val(k.t)
        items = lst.items if isinstance(lst, VTuple) else (lst.items() if lst.is_literal() else None)
        if items is None:
            raise Unsupported('repeat of a symbolic list')
        if kv is not None:
            out = VList.lit(items * max(kv, 0))
        elif len(items) == 1:
            ex = interp.ex
            n = k.t
            if not ex.branch(n > 0):
                return VList([], isinstance(lst, VTuple))
            x = items[0]
            out = VList.of_base(ex.register_base(BaseList('repeat', n, lambda i: x)))
        else:
            raise Unsupported('repeat with symbolic count')
        out.is_tuple = isinstance(lst, VTuple)
        return out

    # ------------------------------------------------------------ equality / membership
    def py_eq(self, interp, a, b):
        ex = interp.ex
        if isinstance(a, VBox) and isinstance(b, VDiagram):
            a, b = b, a
        if isinstance(a, VDiagram) and isinstance(b, VBox):
            b = self.box_as_diagram(b)
        if isinstance(a, VDiagram) and isinstance(b, VDiagram):
            raise Unsupported('== between diagrams inside verified code')
        if isinstance(a, VClass) and isinstance(b, VClass):
            return z3.BoolVal(a.name == b.name)
        if isinstance(a, VObject) and isinstance(b, VObject) and a.cls == b.cls == 'setof':
            return self.set_eq(interp, a.attrs['src'], b.attrs['src'])
        return ex.eq(a, b)

    def posmap_store(self, interp, pm, key, value):
        """pos[node] = (x, y): functional update of the two coordinate functions"""
        if not (isinstance(key, VVal) and isinstance(value, VTuple) and len(value.items) == 2):
            raise Unsupported('positions[node] = value of another shape')
        ex = interp.ex
        nx_, ny_ = ex.to_real(value.items[0]), ex.to_real(value.items[1])
        ox, oy, k = pm.attrs['x'], pm.attrs['y'], key.t
        pm.attrs['x'] = lambda n, ox=ox, k=k, v=nx_: z3.If(n == k, v, ox(n))
        pm.attrs['y'] = lambda n, oy=oy, k=k, v=ny_: z3.If(n == k, v, oy(n))

    def set_eq(self, interp, a, b):
        """set(range(n)) == set(lst) (either order): a boolean e with its reading (semantics of set equality, T2):
        e implies every element of lst is in [0, n) and every v in [0, n) occurs in lst at position where(v); the second
        half is instantiated on request (ex.set_eq_at(v)) since the engine does not leave quantifiers to the solver"""
        ex = interp.ex
        if isinstance(a, VList) and isinstance(b, VRange):
            a, b = b, a
        if not (isinstance(a, VRange) and isinstance(b, VList) and T.int_val(a.lo) == 0):
            raise Unsupported('== between sets other than set(range(n)) and set(list)')
        n, lst = a.hi, b
        e = T.fresh('same_set', z3.BoolSort())
        where = z3.Function(T.fresh_name('where'), T.IntS, T.IntS)
        for s_ in lst.segs:
            if s_[0] == 'sub':
                base = s_[1]
                ex.add_qhyp([base], (lambda bs: lambda i: [(z3.And(e, 0 <= i, i < bs.length),
                                                           z3.And(0 <= bs._elem(i).t, bs._elem(i).t < n))])(base))
            else:
                for x in s_[1]:
                    ex.assume(z3.Implies(e, z3.And(0 <= x.t, x.t < n)))

        def at(v):
            p_ = where(v)
            ex.assume(z3.Implies(z3.And(e, 0 <= v, v < n), z3.And(0 <= p_, p_ < lst.length())))
            if ex.entails(z3.And(e, 0 <= v, v < n)):
                ex.assume(ex.list_at(lst, p_).t == v)
            return p_
        ex.set_eq_at = at
        ex.set_eq_flag = e
        return e

    def contains(self, interp, container, x):
        ex = interp.ex
        if isinstance(container, (VList, VTuple)):
            items = container.items if isinstance(container, VTuple) else \
                (container.items() if container.is_literal() else None)
            if items is not None:
                return z3.Or(*[ex.eq(x, y) for y in items]) if items else z3.BoolVal(False)
        if isinstance(container, VObject) and container.cls == 'dict':
            return z3.BoolVal(interp.dict_key(x) in container.attrs)
        if isinstance(container, VObject) and container.cls == 'set':
            base, k = container.attrs['base'], container.attrs['k']
            if base is None or T.int_val(k) == 0:
                return z3.BoolVal(False)
            # membership in {base[0], .., base[k-1]}: a fresh boolean with its two readings (witness / none equal)
            m = T.fresh('member', z3.BoolSort())
            w = T.fresh('w', T.IntS)
            ex.assume(z3.Implies(m, z3.And(0 <= w, w < k, ex.eq(base._elem(w), x))))
            ex.add_qhyp([base], lambda i: [(z3.And(z3.Not(m), 0 <= i, i < k), z3.Not(ex.eq(base._elem(i), x)))])
            ex.member_witness = (m, w, x)
            return m
        raise Unsupported('`in` on ' + container.kind)

    # ------------------------------------------------------------ attributes
    def getattr(self, interp, obj, name):
        ex = interp.ex
        if isinstance(obj, VDiagram):
            if name in ('dom', 'cod', 'layers', '_dom', '_cod', '_layers'):
                return getattr(obj, name.lstrip('_'))
            if name in ('boxes', 'offsets'):
                return getattr(obj, name)
            if name in ('_boxes', '_offsets'):
                return getattr(obj, name[1:])
            return VMethod(obj, name)
        if isinstance(obj, VArrow):
            if name in ('dom', 'cod', 'boxes', '_dom', '_cod', '_boxes'):
                return getattr(obj, name.lstrip('_'))
            return VMethod(obj, name)
        if isinstance(obj, VBox):
            if name in obj.extra:
                return obj.extra[name]
            if name in ('dom', '_dom'):
                return VTy(T.bdom(obj.t))
            if name in ('cod', '_cod'):
                return VTy(T.bcod(obj.t))
            if name == 'left':
                return VTy(T.bleft(obj.t))
            if name == 'right':
                return VTy(T.bright(obj.t))
            if name in ('boxes', 'offsets', 'layers'):
                return getattr(self.box_as_diagram(obj), name)
            if name in ('name', 'data', '_name', '_data'):
                return VOpaque(name)
            return VMethod(obj, name)
        if isinstance(obj, VLayer):
            if name in ('dom', '_dom'):
                return obj.dom()
            if name in ('cod', '_cod'):
                return obj.cod()
            if name in ('_left', '_box', '_right'):
                return getattr(obj, name[1:])
            if name in ('boxes', '_boxes'):
                return VList.lit([obj])     # a cat.Box is the arrow with itself as only box
            return VMethod(obj, name)
        if isinstance(obj, VOb):
            # a rigid.Ob is the pair (name, z) (call-site contracts of rigid.Ob.l / .r / .z, contracts/types.py)
            if name in ('l', 'r'):
                ex.used.add('rigid.Ob.' + name)
                o = (T.ob_l if name == 'l' else T.ob_r)(obj.t)
                ex.assume(T.ob_name(o) == T.ob_name(obj.t))
                ex.assume(T.ob_z(o) == T.ob_z(obj.t) + (-1 if name == 'l' else 1))
                return VOb(o)
            if name in ('z', '_z'):
                return VInt(T.ob_z(obj.t))
            if name in ('name', '_name'):
                return VVal(T.ob_name(obj.t))
            return VMethod(obj, name)
        if isinstance(obj, VTy):
            if name == 'objects' or name == '_objects':
                return self.as_sequence(interp, obj)
            if name in ('l', 'r'):
                return VTy(self.ty_adjoint(interp, obj.t, name), cls=obj.cls)
            if name in ('left', 'right'):
                # biclosed slash types carry their two sides; every other type has None there
                if ex.branch(z3.Or(T.ty_over(obj.t), T.ty_under(obj.t))):
                    return VTy((T.ty_sl if name == 'left' else T.ty_sr)(obj.t))
                return NONE
            return VMethod(obj, name)
        if isinstance(obj, VSlice):
            if name in ('start', 'stop', 'step'):
                return getattr(obj, name)
            return VMethod(obj, name)
        if isinstance(obj, VObject):
            if name in obj.attrs:
                return obj.attrs[name]
            # read-only properties of the classes under construction
            if '_' + name in obj.attrs and name in ('dom', 'cod', 'layers', 'name', 'data'):
                return obj.attrs['_' + name]
            if name in ('boxes', 'offsets') and '_' + name in obj.attrs:
                return obj.attrs['_' + name]
            return VMethod(obj, name)
        if isinstance(obj, VModule):
            if obj.name == 'messages':
                return VBuiltin('messages.' + name, lambda interp, *a, **k: VStr(None))
            if obj.name in MODULE_NAMES and name in MODULE_NAMES[obj.name]:
                return VClass(MODULE_NAMES[obj.name][name])
            if name in EXCEPTIONS:
                return VClass('exc.' + name)
            return VClass(obj.name + '.' + name)
        if isinstance(obj, VClass):
            return VMethod(obj, name)
        if isinstance(obj, VFunctor):
            if name == 'ar_factory':
                return VClass('cartesian.Function' if getattr(obj, 'python', False) else obj.ar_factory)
            if name == 'ob_factory':
                return VClass('rigid.Ty' if obj.ar_factory == 'rigid.Diagram' else 'monoidal.Ty')
            if name == 'ob':
                return VObject('functor.ob', {'functor': obj})      # the object mapping given by the user
            return VMethod(obj, name)
        if isinstance(obj, (VList, VTuple, VMethod, VOpaque, VInt, VStr)):
            return VMethod(obj, name)
        raise Unsupported('attribute .%s of %s' % (name, obj.kind))

    # ------------------------------------------------------------ subscripts
    def getitem(self, interp, obj, idx):
        ex = interp.ex
        if isinstance(obj, VList):
            if isinstance(idx, VSlice):
                return ex.list_slice(obj, idx)
            if isinstance(idx, VInt):
                return ex.list_at(obj, idx.t)
        if isinstance(obj, VTuple):
            if isinstance(idx, VInt) and T.int_val(idx.t) is not None:
                try:
                    return obj.items[T.int_val(idx.t)]
                except IndexError:
                    raise PyRaise('IndexError')
            if isinstance(idx, VSlice):
                return ex.list_slice(VList.lit(obj.items), idx)
            if isinstance(idx, VInt):
                return ex.list_at(VList.lit(obj.items), idx.t)
        if isinstance(obj, VTy):
            if isinstance(idx, VSlice):
                return ex.ty_slice(obj, idx)
            if isinstance(idx, VInt):
                return ex.ty_at(obj, idx.t)
        if isinstance(obj, VObject) and obj.cls == 'posmap':
            # the dict of positions of the drawing layout: node -> (x, y), as two functions on nodes
            if not isinstance(idx, VVal):
                raise Unsupported('positions[...] of a key that is not a node')
            return VTuple([VReal(obj.attrs['x'](idx.t)), VReal(obj.attrs['y'](idx.t))])
        if isinstance(obj, VObject) and obj.cls == 'functor.ob':
            # F.ob[Ty(x)]: the image the user gave for a one-object type (precondition: it is given, and it is a type)
            F = obj.attrs['functor']
            if not isinstance(idx, VTy):
                raise Unsupported('functor.ob[...] of a key that is not a type')
            if not ex.entails(T.ty_len(idx.t) == 1):
                raise Unsupported('functor.ob[...] of a type that is not one object')
            ex.used.add('precondition: the object mapping of a functor is given for every one-object type and its values are types')
            return VTy(F.FT(idx.t), cls='rigid' if F.ar_factory == 'rigid.Diagram' else None)
        if isinstance(obj, VArrow):
            return self.apply(interp, 'cat.Arrow.__getitem__', [obj, idx], {})
        if isinstance(obj, VDiagram):
            return self.apply(interp, 'monoidal.Diagram.__getitem__', [obj, idx], {})
        if isinstance(obj, VBox):
            if isinstance(idx, VSlice) and isinstance(idx.start, VNone) and isinstance(idx.stop, VNone) \
                    and T.int_val(getattr(idx.step, 't', T.I(0))) == -1:
                return self.box_dagger(interp, obj)
            return self.getitem(interp, self.box_as_diagram(obj), idx)
        if isinstance(obj, VLayer):
            if isinstance(idx, VSlice) and isinstance(idx.start, VNone) and isinstance(idx.stop, VNone) \
                    and T.int_val(getattr(idx.step, 't', T.I(0))) == -1:
                return VLayer(obj.left, self.box_dagger(interp, obj.box), obj.right)
        if isinstance(obj, VObject) and obj.cls == 'dict':
            k = interp.dict_key(idx)
            if k in obj.attrs:
                return obj.attrs[k]
            raise PyRaise('KeyError')
        raise Unsupported('subscript of %s by %s' % (obj.kind, idx.kind))

    # ------------------------------------------------------------ calls
    def call(self, interp, fn, args, kwargs, frame):
        if isinstance(fn, VBuiltin):
            return fn.fn(interp, *args, **kwargs)
        if isinstance(fn, VClosure):
            q = fn.qualname
            if q.endswith('.recursive_free_symbols'):
                # cat.Box.__init__'s local helper: the free symbols of the payload are outside the model (C14's suites)
                interp.ex.used.add('assumed: the free symbols of a payload (cat.Box.__init__.recursive_free_symbols) are outside the model')
                return VOpaque('free symbols')
            if q in self.contracts and interp.ex.verifying != q and not self.spec_mode_inline(q):
                return self.apply(interp, q, args, kwargs)
            return interp.call_function(fn.node, fn.env, args, kwargs, q,
                                        loops=self.contracts[q].loops if q in self.contracts else None)
        if isinstance(fn, VClass):
            return self.construct(interp, fn.name, args, kwargs)
        if isinstance(fn, VMethod):
            return self.call_method(interp, fn.recv, fn.name, args, kwargs)
        if isinstance(fn, VFunctor):
            return self.functor_call(interp, fn, args[0])
        if isinstance(fn, VPyFun):
            return self.call_pyfun(interp, fn, args)
        if isinstance(fn, VObject) and fn.cls == 'cartesian.Function':
            # calling a Function object: the real body of Function.__call__
            from . import frontend
            node, _ = frontend.find('cartesian.Function.__call__')
            return interp.call_function(node, Env(None, {}), [fn] + list(args), kwargs, 'cartesian.Function.__call__')
        raise Unsupported('call of ' + fn.kind)

    def ty_adjoint(self, interp, t, side):
        """t.l / t.r of a rigid type: uninterpreted on sequences, with the pregroup facts instantiated where the term
        is created: same length, mutually inverse, anti-homomorphism on the concatenation t is written as, unit"""
        ex = interp.ex
        # call-site contract of rigid.Ty.l / .r: their pointwise postcondition (contracts/types.py) and the four lemmas
        # derived from it (length, mutual inverses, anti-homomorphism, unit), lifted to sequences by L-ext
        for u in ('rigid.Ty.l', 'rigid.Ty.r', 'rigid.Ob.l', 'rigid.Ob.r', 'lemma:adjoint.inverse.l', 'lemma:adjoint.inverse.r',
                  'lemma:adjoint.antihom.l', 'lemma:adjoint.antihom.r'):
            ex.used.add(u)
        f, g = (T.tyl, T.tyr) if side == 'l' else (T.tyr, T.tyl)
        parts = T._seq_parts(t)
        if not parts:
            return T.EMPTY
        # (x.l).r == x : cancel syntactically when t is itself an adjoint
        if len(parts) == 1 and z3.is_app(parts[0]) and parts[0].decl().name() == g.name():
            return parts[0].arg(0)
        whole = f(t)
        ex.assume(z3.Length(whole) == T.ty_len(t))
        ex.assume(g(whole) == t)
        if len(parts) > 1:
            pieces = []
            for p_ in reversed(parts):
                pieces.append(self.ty_adjoint(interp, p_, side))
            ex.assume(whole == T.ty_concat(*pieces))
        return whole

    def as_wire_tuple(self, interp, v):
        """a tuple of wire values as a sequence term (cls='tuple'): literal tuples of bare values are converted"""
        if isinstance(v, VTy):
            return v if v.cls == 'tuple' else VTy(v.t, cls='tuple')
        if isinstance(v, (VTuple, VList)):
            items = v.items if isinstance(v, VTuple) else (v.items() if v.is_literal() else None)
            if items is not None and all(isinstance(x, VOb) for x in items):
                return VTy(T.ty_concat(*[z3.Unit(x.t) for x in items]) if items else T.EMPTY, cls='tuple')
        raise Unsupported('a tuple of wire values was expected, got ' + v.kind)

    def call_pyfun(self, interp, f, args):
        ex = interp.ex
        if len(args) == 1 and isinstance(args[0], VStar):
            x = self.as_wire_tuple(interp, args[0].seq)
        else:
            x = self.as_wire_tuple(interp, VTuple(list(args)))
        out = f.out(x.t)
        ex.assume(z3.Length(out) == f.cod)
        if ex.branch(f.cod == 1):
            return ex.ty_at(VTy(out, cls='tuple'), T.I(0))      # one output: the bare value
        return VTy(out, cls='tuple')

    def ty_slash(self, interp, a, b, which):
        """a << b ('over') / a >> b ('under').  On rigid types (images of a functor into rigid.Ty) these are
        a @ b.l / a.r @ b (rigid.Ty.__lshift__ / __rshift__); on biclosed types they build the one-object slash type"""
        ex = interp.ex
        if a.cls == 'rigid' or b.cls == 'rigid':
            if which == 'over':
                return VTy(T.ty_concat(a.t, self.ty_adjoint(interp, b.t, 'l')), cls='rigid')
            return VTy(T.ty_concat(self.ty_adjoint(interp, a.t, 'r'), b.t), cls='rigid')
        t = (T.mk_over if which == 'over' else T.mk_under)(a.t, b.t)
        ex.assume(z3.Length(t) == 1)
        ex.assume(T.ty_over(t) == z3.BoolVal(which == 'over'))
        ex.assume(T.ty_under(t) == z3.BoolVal(which == 'under'))
        ex.assume(T.ty_sl(t) == a.t)
        ex.assume(T.ty_sr(t) == b.t)
        return VTy(t)

    def functor_ty(self, interp, F, t):
        """F(t) for a type t: FT(t), with the homomorphism instance for the concatenation t is written as; for a
        functor on biclosed types also F(a << b) = F(a) << F(b), F(a >> b) = F(a) >> F(b) on the atomic parts"""
        ex = interp.ex
        if getattr(F, 'adjoints', False):
            # rigid.Functor has its own type branch (adjoints of any winding number): the snoc-recursion over the z-fold
            # adjoints of the basic images (verified on the real branch and its local function), a homomorphism (lemma)
            for u in ('rigid.Functor.__call__[Ty]', 'rigid.Functor.__call__.<locals>.adjoint', 'lemma:functor.homomorphism'):
                ex.used.add(u)
        elif getattr(F, 'slash', False):
            # biclosed.Functor: several objects by its own tensor branch, none or one (not a slash) by monoidal.Functor's
            for u in ('biclosed.Functor.__call__[Ty]', 'monoidal.Functor.__call__[Ty]', 'lemma:functor.homomorphism'):
                ex.used.add(u)
        else:
            # monoidal.Functor: F on a type is the snoc-recursion D over the user's images (verified on the real type
            # branch) and D is a homomorphism (lemma, by induction)
            ex.used.add('monoidal.Functor.__call__[Ty]')
            ex.used.add('lemma:functor.homomorphism')
        if getattr(F, 'python', False):
            ex.used.add('lemma:cartesian.Diagram.__call__.quivers')       # the two lambdas, executed from the real AST
            # the plumbing from PythonFunctor(ob, ar) to the calls ob(type), ar(box): constructors, Functor.ob / .ar, Quiver
            for u in ('cartesian.PythonFunctor.__init__', 'rigid.Functor.__init__', 'monoidal.Functor.__init__',
                      'cat.Functor.__init__', 'cat.Quiver.__init__', 'lemma:cat.Quiver.wraps'):
                ex.used.add(u)
        if getattr(F, 'adjoints', False):
            # F(t.l) == F(t).l, F(t.r) == F(t).r: lemmas by snoc-induction from the object-level statement
            for u in ('lemma:functor.adjoint.object.l', 'lemma:functor.adjoint.object.r', 'lemma:functor.adjoint.type.l',
                      'lemma:functor.adjoint.type.r'):
                ex.used.add(u)
        if getattr(F, 'slash', False):
            ex.used.add('axiom: a functor on biclosed types is called recursively on the two sides of a slash type '
                        '(proved for the Over / Under branches, assumed at the recursive call sites)')
        parts = T._seq_parts(t)
        if not parts:
            ex.assume(F.FT(T.EMPTY) == T.EMPTY)
            return T.EMPTY
        whole = F.FT(t)
        if len(parts) > 1:
            ex.assume(whole == T.ty_concat(*[F.FT(p) for p in parts]))
        if getattr(F, 'python', False):
            ex.assume(z3.Length(whole) == T.ty_len(t))          # ob = lambda t: PRO(len(t))
        if getattr(F, 'adjoints', False):
            # a rigid functor commutes with adjoints (assumed contract of the type branch of rigid.Functor.__call__)
            for p_ in parts:
                key = ('adjoint', F.name, p_.sexpr())
                if key in F.images:
                    continue
                F.images[key] = True
                for side in ('l', 'r'):
                    adj_p = self.ty_adjoint(interp, p_, side)
                    ex.assume(F.FT(adj_p) == self.ty_adjoint(interp, F.FT(p_), side))
        if getattr(F, 'slash', False):
            for p_ in parts:
                key = ('slash', F.name, p_.sexpr())
                if key in F.images:
                    continue
                F.images[key] = True
                l_, r_ = F.FT(T.ty_sl(p_)), F.FT(T.ty_sr(p_))
                ex.assume(z3.Implies(T.ty_over(p_), F.FT(p_) == T.ty_concat(l_, self.ty_adjoint(interp, r_, 'l'))))
                ex.assume(z3.Implies(T.ty_under(p_), F.FT(p_) == T.ty_concat(self.ty_adjoint(interp, l_, 'r'), r_)))
        return whole

    def functor_call(self, interp, F, arg):
        ex = interp.ex
        if isinstance(arg, VTy):
            return VTy(self.functor_ty(interp, F, arg.t), cls='rigid' if F.ar_factory == 'rigid.Diagram' else None)
        if isinstance(arg, VDiagram):
            # the image of a sub-diagram (induction hypothesis of the functor contract): well-formed, F(dom) -> F(cod)
            ex.used.add('axiom: the functor sends a sub-diagram to a well-formed diagram F(dom) -> F(cod) (induction hypothesis)')
            key = ('diagram', id(arg))
            if key not in F.images:
                F.images[key] = ex.sym_diagram(T.fresh_name(F.name + '.dimg'), wf=True,
                                               dom=self.functor_ty(interp, F, arg.dom.t),
                                               cod=self.functor_ty(interp, F, arg.cod.t), global_inst=True)
            return F.images[key]
        if isinstance(arg, VBox) and getattr(F, 'python', False):
            # PythonFunctor: the image of a box is the Function wrapping the box's own python function
            b = arg.t
            n, m = T.ty_len(T.bdom(b)), T.ty_len(T.bcod(b))
            f = VPyFun('box', m, out=lambda x, b=b: T.boxout(b, x))
            dom, cod = VTy(self.functor_ty(interp, F, T.bdom(b))), VTy(self.functor_ty(interp, F, T.bcod(b)))
            return VObject('cartesian.Function', {'dom': dom, 'cod': cod, '_dom': dom, '_cod': cod,
                                                  'function': f, '_function': f})
        if isinstance(arg, VBox):
            ex.used.add('precondition: the images a functor is given for boxes are well-formed diagrams F(dom) -> F(cod)')
            key = arg.t.sexpr()
            if key not in F.images:
                dom = self.functor_ty(interp, F, T.bdom(arg.t))
                cod = self.functor_ty(interp, F, T.bcod(arg.t))
                F.images[key] = ex.sym_diagram(T.fresh_name(F.name + '.img'), wf=True, dom=dom, cod=cod, global_inst=True)
            return F.images[key]
        raise Unsupported('functor applied to ' + arg.kind)

    def spec_mode_inline(self, q):
        return False

    def construct(self, interp, cls, args, kwargs):
        ex = interp.ex
        if cls.startswith('exc.'):
            return VOpaque(cls)
        if cls == 'py.int':
            v, = args
            if isinstance(v, VInt):
                return v
            if isinstance(v, VBool):
                return VInt(z3.If(v.t, 1, 0))
        if cls == 'py.list':
            if not args:
                return VList([])
            return self.to_list(interp, args[0])
        if cls == 'py.tuple':
            if not args:
                return VTuple([])
            if args[0].kind == 'zipstar':
                rows = args[0].rows
                if not ex.branch(rows.length() > 0):
                    return VTuple([])
                probe = ex.list_at(rows, T.I(0))
                if not isinstance(probe, VTuple):
                    raise Unsupported('zip(*rows) over rows that are not tuples')
                cols = []
                for j in range(len(probe.items)):
                    col = ex.list_map(rows, (lambda jj: lambda row: row.items[jj])(j), 'column%d' % j)
                    cols.append(VList(col.segs, True))
                return VTuple(cols)
            out = self.to_list(interp, args[0])
            return VList(out.segs, True)
        if cls == 'py.set' and len(args) == 1 and isinstance(args[0], (VRange, VList)):
            return VObject('setof', {'src': args[0]})       # set(range(n)) / set(list): only compared (see py_eq)
        if cls == 'py.set' and not args:
            # a set filled by adding the elements of one sequence in order: represented by that sequence and the length of
            # the prefix added so far (ghost representation, see contracts/rewriting.py normal_form)
            return VObject('set', {'base': None, 'k': T.I(0)})
        if cls == 'py.slice':
            a = list(args) + [NONE] * (3 - len(args))
            if len(args) == 1:
                a = [NONE, args[0], NONE]
            return VSlice(*a)
        if cls == 'py.bool':
            return VBool(ex.truth(args[0]))
        if cls == 'py.str':
            return VStr(None)        # printed forms are outside the model
        if cls == 'py.type' and len(args) == 1 and isinstance(args[0], VObject) and args[0].cls:
            return VClass(args[0].cls)
        if cls == 'py.type' and len(args) == 1 and isinstance(args[0], VBox) and getattr(args[0], 'pycls', None):
            return VClass(args[0].pycls)
        if cls == 'py.type' and len(args) == 1 and isinstance(args[0], VOb):
            return VClass('rigid.Ob')       # objects with a winding number (precondition of the rigid contracts)
        if cls == 'py.type' and len(args) == 1 and isinstance(args[0], VTy):
            # the class of a type: the model does not tell monoidal.Ty from its subclasses; what is done with the class
            # (calling it without arguments, its upgrade) is the same for all of them up to the verified upgrade contracts
            return VClass('rigid.Ty' if args[0].cls == 'rigid' else 'monoidal.Ty')
        if cls in ('monoidal.Ty', 'rigid.Ty', 'biclosed.Ty') and not args and not kwargs:
            return VTy(T.EMPTY)
        if cls in ('monoidal.PRO', 'rigid.PRO') and len(args) <= 1 and not kwargs:
            # assumed call-site contract of PRO.__init__: PRO(n), PRO(PRO(n)) is the type of n wires (all named 1, so only
            # the length is modelled; the body multiplies a list by a symbolic integer, outside the engine)
            ex.used.add('assumed: PRO(n) and PRO(PRO(n)) are the type of n wires named 1, a function of n alone, so PRO(a) @ PRO(b) == PRO(a + b) '
                        '(monoidal.PRO.__init__ multiplies a list by a symbolic integer, outside the engine)')
            if not args:
                return VTy(T.EMPTY)
            n = None
            if isinstance(args[0], VTy):
                n = z3.Length(args[0].t)
            elif isinstance(args[0], VInt):
                n = z3.If(args[0].t >= 0, args[0].t, 0)
            if n is not None:
                t = T.pro_of(n)
                ex.assume(z3.Length(t) == n)
                return VTy(t)
        if cls == 'rigid.Id':
            cls = 'monoidal.Id'        # same fields; the rigid class only upgrades (abstract Upgrade contract)
        init = cls + '.__init__'
        if init not in self.contracts:
            # a class without its own __init__ inherits the one of its same-named base (rigid.Diagram -> monoidal.Diagram)
            todo = [cls]
            while todo:
                c_ = todo.pop(0)
                if c_ + '.__init__' in self.contracts:
                    init, cls = c_ + '.__init__', c_
                    break
                todo.extend(b for b in CLASSES.get(c_, (None, []))[1] if b.split('.')[-1] == c_.split('.')[-1])
        if init in self.contracts and getattr(self.contracts[init], 'make', None) is not None:
            # call-site contract of a box constructor: the class invariant as a fresh box (verified against the body of
            # __init__ by the contract of the same name)
            ex.used.add(init)
            return self.contracts[init].make(interp, list(args), dict(kwargs))
        if init in self.contracts:
            return self.apply(interp, init, args, kwargs, construct=cls)
        raise Unsupported('construction of ' + cls)

    def to_list(self, interp, v):
        seq = self.as_sequence(interp, v)
        return VList(seq.segs, False)

    METHODS = {
        ('function', 'then'): 'cartesian.Function.then',
        ('function', 'tensor'): 'cartesian.Function.tensor',
        ('arrow', 'then'): 'cat.Arrow.then',
        ('arrow', '__getitem__'): 'cat.Arrow.__getitem__',
        ('diagram', 'then'): 'monoidal.Diagram.then',
        ('diagram', 'tensor'): 'monoidal.Diagram.tensor',
        ('diagram', '__getitem__'): 'monoidal.Diagram.__getitem__',
        ('diagram', 'interchange'): 'rewriting.interchange',
        ('diagram', 'dagger'): 'cat.Arrow.dagger',
        ('ty', 'tensor'): 'monoidal.Ty.tensor',
        ('diagram', 'cups'): 'rigid.cups', ('diagram', 'caps'): 'rigid.caps',
    }
    CLASS_METHODS = {
        ('monoidal.Diagram', 'id'): 'monoidal.Id.__init__',
        ('rigid.Diagram', 'id'): 'monoidal.Id.__init__',
        ('monoidal.Diagram', 'swap'): 'monoidal.Diagram.swap',
        ('rigid.Diagram', 'swap'): 'rigid.Diagram.swap',
        ('monoidal.Diagram', 'permutation'): 'monoidal.Diagram.permutation',
        ('rigid.Diagram', 'cups'): 'rigid.cups',
        ('rigid.Diagram', 'caps'): 'rigid.caps',
        ('rigid.Id', 'id'): 'monoidal.Id.__init__',
        ('cat.Arrow', 'id'): 'cat.Id.__init__',
        ('rigid.Diagram', 'cups'): 'rigid.cups', ('rigid.Diagram', 'caps'): 'rigid.caps',
        ('monoidal.Diagram', 'normalize'): 'rewriting.normalize',
        ('cartesian.Function', 'id'): 'cartesian.Function.id',
        ('rigid.Diagram', 'fa'): 'rigid.Diagram.fa', ('rigid.Diagram', 'ba'): 'rigid.Diagram.ba',
        ('rigid.Diagram', 'fc'): 'rigid.Diagram.fc', ('rigid.Diagram', 'bc'): 'rigid.Diagram.bc',
        ('rigid.Diagram', 'fx'): 'rigid.Diagram.fx', ('rigid.Diagram', 'bx'): 'rigid.Diagram.bx',
        ('rigid.Diagram', 'curry'): 'rigid.Diagram.curry',
    }

    def call_method(self, interp, recv, name, args, kwargs):
        ex = interp.ex
        if isinstance(recv, VBox) and name in ('then', 'tensor', 'interchange', 'normal_form', 'id', 'upgrade',
                                               '__getitem__'):
            recv = self.box_as_diagram(recv)
        if isinstance(recv, VBox) and name == 'dagger':
            return self.box_dagger(interp, recv)
        if isinstance(recv, (VDiagram, VArrow)) and name == 'upgrade':
            # Upgrade contract (DESIGN 2.4): identity on every modelled field.  Verified for the base classes (`return
            # old`) and for the closure installed by Diagram.subclass (rigid.Diagram and every subclass built the same
            # way: the fast-path constructor on the same five fields); contracts/types.py
            for u in ('cat.Arrow.upgrade', 'monoidal.Diagram.upgrade', 'monoidal.Diagram.subclass.<locals>.upgrade'):
                ex.used.add(u)
            return args[0]
        if isinstance(recv, VDiagram) and name == 'id':
            return self.apply(interp, 'monoidal.Id.__init__', args, kwargs, construct='monoidal.Id')
        if isinstance(recv, VTy):
            if name == 'tensor' and len(args) == 1 and isinstance(args[0], VStar) and isinstance(args[0].seq, VList):
                # t.tensor(*types) with a symbolic number of types: t ++ flatten(types) (verified: monoidal.Ty.tensor)
                ex.used.add('monoidal.Ty.tensor')
                return VTy(T.ty_concat(recv.t, ex.flat_of(args[0].seq).t))
            if name == 'tensor':
                ts = [recv.t]
                for a in args:
                    if not isinstance(a, VTy):
                        raise PyRaise('TypeError')
                    ts.append(a.t)
                return VTy(T.ty_concat(*ts))
            if name == 'upgrade':
                ex.used.add('monoidal.Ty.upgrade')
                ex.used.add('rigid.Ty.upgrade')
                return args[0]
            if name == 'count':
                raise Unsupported('Ty.count')
        if isinstance(recv, VSlice) and name == 'indices':
            # slice.indices(n) for a step of -1 (CPython's PySlice_AdjustIndices): lower = -1, upper = n - 1
            n = args[0].t
            if not (isinstance(recv.step, VInt) and T.int_val(recv.step.t) == -1):
                raise Unsupported('slice.indices for a step other than -1')

            def adjust(v, default):
                if isinstance(v, VNone):
                    return default
                t = v.t
                if ex.branch(t < 0):
                    t = z3.simplify(t + n)
                    if ex.branch(t < 0):
                        return T.I(-1)
                    return t
                if ex.branch(t >= n):
                    return z3.simplify(n - 1)
                return t
            start = adjust(recv.start, z3.simplify(n - 1))
            stop = adjust(recv.stop, T.I(-1))
            return VTuple([VInt(start), VInt(stop), VInt(-1)])
        if isinstance(recv, VList):
            if name == 'index':
                return BUILTINS['list_index'](interp, recv, *args)
            if name == 'copy':
                return recv
        if isinstance(recv, VList) and name == 'append' and len(args) == 1 and not recv.is_tuple:
            # in place, as in Python: every name bound to this list sees the new element
            if recv.segs and recv.segs[-1][0] == 'lit':
                recv.segs[-1] = ('lit', recv.segs[-1][1] + [args[0]])
            else:
                recv.segs.append(('lit', [args[0]]))
            return NONE
        if isinstance(recv, VObject) and recv.cls == 'posmap' and name == 'items' and not args:
            # the (key, value) pairs in insertion order; a value is read when the pair is produced (the view is live)
            keys = recv.attrs['keys']
            base = ex.register_base(BaseList('pos.items', keys.length(), lambda i, pm=recv: (lambda k_: VTuple([
                k_, VTuple([VReal(pm.attrs['x'](k_.t)), VReal(pm.attrs['y'](k_.t))])]))(ex.list_at(keys, i))))
            return VList.of_base(base)
        if isinstance(recv, VObject) and recv.cls == 'set' and name == 'add':
            base, k = recv.attrs['base'], recv.attrs['k']
            base = base if base is not None else getattr(ex, 'set_source', None)
            if base is None or not z3.is_true(z3.simplify(ex.eq(base._elem(k), args[0]))):
                raise Unsupported('set.add of a value that is not the next element of the sequence the set is filled from')
            recv.attrs['base'], recv.attrs['k'] = base, z3.simplify(k + 1)
            return NONE
        if isinstance(recv, VObject) and recv.cls == 'dict' and name == 'get':
            k = interp.dict_key(args[0])
            return recv.attrs.get(k, args[1] if len(args) > 1 else NONE)
        if isinstance(recv, VObject) and recv.cls == 'dict' and name == 'items':
            return VList.lit([VTuple([VStr(k), v]) for k, v in recv.attrs.items()])
        if isinstance(recv, VMethod) and recv.name.startswith('<super>:'):
            # super().name(...) : resolved through the explicit table below
            owner = recv.name.split(':', 1)[1]
            target = SUPER.get((owner.rsplit('.', 1)[0], name))
            if target is None:
                raise Unsupported('super().%s in %s' % (name, owner))
            return self.apply(interp, target, [recv.recv] + list(args), kwargs)
        if isinstance(recv, VClass):
            key = (recv.name, name)
            if name == '__init__':
                # explicit base-class initialiser: Base.__init__(self, ...); a class without its own __init__ inherits it
                q = recv.name + '.__init__'
                todo = [recv.name]
                while q not in self.contracts and todo:
                    c_ = todo.pop(0)
                    if c_ + '.__init__' in self.contracts:
                        q = c_ + '.__init__'
                        break
                    todo.extend(b for b in CLASSES.get(c_, (None, []))[1] if b.split('.')[-1] == c_.split('.')[-1])
                return self.apply(interp, q, list(args), kwargs)
            if key in self.CLASS_METHODS:
                q = self.CLASS_METHODS[key]
                if q.endswith('.__init__'):
                    return self.apply(interp, q, args, kwargs, construct=q[:-9])
                return self.apply(interp, q, args, kwargs)
            if name == 'tensor' and recv.name in ('monoidal.Ty', 'rigid.Ty', 'biclosed.Ty') and len(args) == 1 \
                    and isinstance(args[0], VStar) and isinstance(args[0].seq, VList):
                # Ty.tensor(*types) on the class: the first type is `self`, i.e. types[0].tensor(*types[1:]) =
                # flatten(types) when there is at least one (verified: monoidal.Ty.tensor); TypeError otherwise
                if not ex.branch(args[0].seq.length() >= 1):
                    raise PyRaise('TypeError', 'tensor() missing self')
                ex.used.add('monoidal.Ty.tensor')
                return VTy(ex.flat_of(args[0].seq).t, cls='rigid' if recv.name == 'rigid.Ty' else None)
            if name == 'upgrade' and recv.name in ('monoidal.Ty', 'rigid.Ty'):
                ex.used.add(recv.name + '.upgrade')       # verified: the same objects (contracts/types.py)
                return VTy(args[0].t, cls=args[0].cls)
            if name == 'upgrade':
                ex.used.add('axiom: Upgrade (class-preserving upgrade) is the identity on the modelled fields')
                return args[0]
            raise Unsupported('class attribute %s.%s' % (recv.name, name))
        if isinstance(recv, VObject) and recv.cls == 'cartesian.Function':
            key = ('function', name)
            if key in self.METHODS:
                return self.apply(interp, self.METHODS[key], [recv] + list(args), kwargs)
        key = (recv.kind, name)
        if key in (('diagram', 'cups'), ('diagram', 'caps')):
            return self.apply(interp, self.METHODS[key], list(args), kwargs)       # static methods: no receiver
        if key in self.METHODS:
            return self.apply(interp, self.METHODS[key], [recv] + list(args), kwargs)
        raise Unsupported('method .%s of %s' % (name, recv.kind))

    # ------------------------------------------------------------ contracts
    def apply(self, interp, qualname, args, kwargs, construct=None):
        """use the contract of `qualname` at a call site: run its functional spec"""
        ex = interp.ex
        c = self.contracts.get(qualname)
        if c is None:
            raise Unsupported('no contract for callee ' + qualname)
        if not self.spec_mode:
            ex.used.add(qualname)
        if c.abstract is not None and not self.spec_mode and construct is None:
            return c.abstract(interp, list(args), dict(kwargs))
        node = c.spec_node()
        if node is None:
            raise Unsupported('contract of %s has no functional spec' % qualname)
        if construct is not None:
            obj = VObject(construct)
            args = [obj] + list(args)
        self.spec_mode += 1
        try:
            res = interp.call_function(node, Env(None, {}), args, kwargs, 'spec:' + qualname, loops=c.spec_loops)
        finally:
            self.spec_mode -= 1
        if construct is not None:
            return self.record_of(construct, obj)
        return res

    def record_of(self, cls, obj):
        kind = CLASSES[cls][0]
        a = obj.attrs
        try:
            if kind == 'arrow':
                return VArrow(a['_dom'], a['_cod'], a['_boxes'])
            if kind == 'diagram':
                offs = a['_offsets']
                if isinstance(offs, VTuple):
                    offs = VList.lit(offs.items)
                return VDiagram(a['_dom'], a['_cod'], a['_boxes'], VList(offs.segs, False), a['_layers'])
            if kind == 'layer':
                return VLayer(a['_left'], a['_box'], a['_right'])
            if kind == 'record':
                return obj
            if kind == 'box' and cls in ('monoidal.Box', 'rigid.Box'):
                return obj          # a plain box as the record of its fields (name, dom, cod, data, dagger flag, ...)
        except KeyError as e:
            raise Unsupported('constructor of %s did not set %s' % (cls, e))
        raise Unsupported('record of ' + cls)


# super() resolution: (class owning the method, method) -> qualified callee
SUPER = {
    ('monoidal.Ty', '__init__'): 'cat.Ob.__init__', ('rigid.Ob', '__init__'): 'cat.Ob.__init__',
    ('monoidal.Box', '__init__'): 'cat.Box.__init__',
    ('monoidal.Diagram', '__init__'): 'cat.Arrow.__init__',
    ('monoidal.Layer', '__init__'): 'cat.Box.__init__',
    ('monoidal.Diagram', 'then'): 'cat.Arrow.then',
    ('monoidal.Layer', '__getitem__'): 'cat.Box.__getitem__',
    ('biclosed.FA', '__init__'): 'monoidal.Box.__init__', ('biclosed.BA', '__init__'): 'monoidal.Box.__init__',
    ('biclosed.FC', '__init__'): 'monoidal.Box.__init__', ('biclosed.BC', '__init__'): 'monoidal.Box.__init__',
    ('biclosed.FX', '__init__'): 'monoidal.Box.__init__', ('biclosed.BX', '__init__'): 'monoidal.Box.__init__',
    ('biclosed.Curry', '__init__'): 'monoidal.Box.__init__',
    ('rigid.Cup', '__init__'): 'rigid.Box.__init__', ('rigid.Cap', '__init__'): 'rigid.Box.__init__',
    ('monoidal.Swap', '__init__'): 'monoidal.Box.__init__',
    ('cartesian.Function', '__init__'): 'rigid.Box.__init__',
    ('monoidal.Functor', '__init__'): 'cat.Functor.__init__', ('rigid.Functor', '__init__'): 'monoidal.Functor.__init__',
    ('cartesian.PythonFunctor', '__init__'): 'rigid.Functor.__init__',
}


# ====================================================================== builtins

def _len(interp, v):
    ex = interp.ex
    if isinstance(v, VList):
        return VInt(v.length())
    if isinstance(v, VTuple):
        return VInt(len(v.items))
    if isinstance(v, VTy):
        return VInt(T.ty_len(v.t))
    if isinstance(v, (VArrow, VDiagram)):
        return VInt(v.boxes.length())
    if isinstance(v, VBox):
        return VInt(1)
    if isinstance(v, VRange):
        return VInt(interp.world.as_sequence(interp, v).length())
    raise Unsupported('len of ' + v.kind)


def _range(interp, *args):
    if len(args) == 1:
        return VRange(T.I(0), args[0].t)
    if len(args) == 2:
        return VRange(args[0].t, args[1].t)
    raise Unsupported('range with a step')


def _isinstance(interp, v, cls):
    ex = interp.ex
    names = [c.name for c in cls.items] if isinstance(cls, VTuple) else [cls.name]
    out = []
    for nm in names:
        out.append(_isinstance1(interp, v, nm))
    return VBool(z3.Or(*out) if len(out) > 1 else out[0])


def _isinstance1(interp, v, nm):
    if nm == 'py.int':
        return z3.BoolVal(isinstance(v, (VInt, VBool)))
    if nm == 'py.slice':
        return z3.BoolVal(isinstance(v, VSlice))
    if nm == 'py.tuple' and isinstance(v, VTy):
        return z3.BoolVal(v.cls == 'tuple')
    if nm in ('py.list', 'py.tuple'):
        return z3.BoolVal(isinstance(v, (VList, VTuple)))
    if nm == 'py.Mapping' and isinstance(v, (VClosure, VBuiltin, VPyFun)):
        return z3.BoolVal(False)        # a python function is not a Mapping
    if nm.startswith('py.'):
        raise Unsupported('isinstance ' + nm)
    kind = CLASSES.get(nm, (None,))[0]
    if kind is None:
        raise Unsupported('isinstance against unknown class ' + nm)
    if isinstance(v, VTy):
        if nm == 'biclosed.Over':
            return T.ty_over(v.t)
        if nm == 'biclosed.Under':
            return T.ty_under(v.t)
        return z3.BoolVal(kind in ('ty', 'ob'))
    if isinstance(v, VOb):
        return z3.BoolVal(kind == 'ob')
    if isinstance(v, VDiagram):
        if kind in ('diagram', 'arrow'):
            return z3.BoolVal(True)
        # a symbolic diagram value is never a Sum/Bubble/Box (contract precondition of the model)
        return z3.BoolVal(False)
    if isinstance(v, VArrow):
        return z3.BoolVal(kind == 'arrow' and nm in ('cat.Arrow', 'cat.Id'))
    if isinstance(v, VLayer):
        return z3.BoolVal(nm in ('monoidal.Layer', 'cat.Box', 'cat.Arrow'))
    if isinstance(v, VBox):
        if nm in BOX_KIND_OF_CLASS:
            return T.bkind(v.t) == T.KINDS[BOX_KIND_OF_CLASS[nm]]
        return z3.BoolVal(kind in ('box', 'diagram', 'arrow'))
    if isinstance(v, (VInt, VBool, VNone, VList, VTuple, VStr, VSlice, VOpaque, VReal)):
        return z3.BoolVal(False)
    if isinstance(v, VObject):
        return z3.BoolVal(v.cls == nm or nm in _bases(v.cls))
    raise Unsupported('isinstance(%s, %s)' % (v.kind, nm))


def _bases(cls):
    out, todo = set(), [cls]
    while todo:
        c = todo.pop()
        for b in CLASSES.get(c, (None, []))[1]:
            if b not in out:
                out.add(b)
                todo.append(b)
    return out


def _zip(interp, *lists):
    ex = interp.ex
    seqs = [interp.world.as_sequence(interp, l) for l in lists]
    if all(s.is_literal() for s in seqs):
        return VList.lit([VTuple(list(t)) for t in zip(*[s.items() for s in seqs])])
    n = seqs[0].length()
    for s in seqs[1:]:
        ln = s.length()
        if not ex.branch(ln == n):
            if ex.branch(ln < n):
                n = ln
    base = ex.register_base(BaseList('zip', n, lambda i: VTuple([ex.list_at(s, i) for s in seqs])))
    return VList.of_base(base)


def _enumerate(interp, lst):
    ex = interp.ex
    seq = interp.world.as_sequence(interp, lst)
    if seq.is_literal():
        return VList.lit([VTuple([VInt(j), x]) for j, x in enumerate(seq.items())])
    base = ex.register_base(BaseList('enumerate', seq.length(), lambda i: VTuple([VInt(i), ex.list_at(seq, i)])))
    return VList.of_base(base)


def _list_index(interp, lst, x):
    """list.index(x): smallest i with lst[i] == x, ValueError if none"""
    ex = interp.ex
    if lst.is_literal():
        items = lst.items()
        conds = []
        prev = []
        for j, y in enumerate(items):
            e = ex.eq(y, x)
            conds.append(z3.And(*(prev + [e])) if prev else e)
            prev.append(z3.Not(e))
        conds.append(z3.And(*prev) if prev else z3.BoolVal(True))
        c = ex.choose(conds)
        if c == len(items):
            raise PyRaise('ValueError', 'x not in list')
        return VInt(c)
    # symbolic list: either a smallest position j holds x, or no position does (ValueError)
    n = lst.length()
    if ex.fork(2) == 1:
        for s_ in lst.segs:
            if s_[0] == 'sub':
                base, lo, hi = s_[1], s_[2], s_[3]
                ex.add_qhyp([base], (lambda bs, lo_, hi_: lambda i: [(z3.And(lo_ <= i, i < hi_),
                                                                     z3.Not(ex.eq(bs._elem(i), x)))])(base, lo, hi))
            else:
                for y in s_[1]:
                    ex.assume(z3.Not(ex.eq(y, x)))
        raise PyRaise('ValueError', 'x not in list')
    j = T.fresh('idx', T.IntS)
    ex.assume(z3.And(0 <= j, j < n))
    ex.assume(ex.eq(ex.list_at(lst, j), x))
    ex.index_before = (lst, j, x)      # every earlier position holds another value: instantiated on request
    return VInt(j)


def _all_any(is_all):
    def fn(interp, it):
        ex = interp.ex
        seq = interp.world.as_sequence(interp, it)
        if not seq.is_literal():
            raise Unsupported('all/any over a symbolic list')
        for x in seq.items():
            t = ex.branch(ex.truth(x))
            if is_all and not t:
                return VBool(False)
            if not is_all and t:
                return VBool(True)
        return VBool(is_all)
    return fn


def _getattr(interp, obj, name, *default):
    try:
        return interp.world.getattr(interp, obj, name.s)
    except Unsupported:
        if default:
            return default[0]
        raise


def _tuple(interp, *a):
    return interp.world.construct(interp, 'py.tuple', list(a), {})


def _min_max(is_min):
    def fn(interp, *args):
        ex = interp.ex
        if len(args) == 1:
            args = interp.world.iterate_static(interp, args[0])
        cur = args[0]
        for x in args[1:]:
            c = (x.t < cur.t) if is_min else (x.t > cur.t)
            if ex.branch(c):
                cur = x
        return cur
    return fn


def _sum(interp, it, start=None):
    items = interp.world.iterate_static(interp, it)
    cur = start if start is not None else VInt(0)
    for x in items:
        cur = interp.binop(ast.Add(), cur, x)
    return cur


def _reversed(interp, lst):
    return interp.ex.list_reverse(interp.world.as_sequence(interp, lst))


BUILTINS = {
    'len': _len, 'range': _range, 'isinstance': _isinstance, 'getattr': lambda interp, o, n, *d: interp.world.getattr(interp, o, n.s), 'zip': _zip, 'enumerate': _enumerate,
    'list_index': _list_index, 'all': _all_any(True), 'any': _all_any(False), 'getattr': _getattr,
    'min': _min_max(True), 'max': _min_max(False), 'sum': _sum, 'reversed': _reversed,
    'hasattr': lambda interp, obj, name: VBool(isinstance(obj, VOb) and getattr(name, 's', None) == 'z'),
    'repr': lambda interp, obj: VVal(T.fresh('repr', T.ValS)),      # some text: an arbitrary opaque value (only ever stored as a name)
    'map': lambda interp, fn, lst: interp.ex.list_map(interp.world.as_sequence(interp, lst),
                                                     lambda x: interp.world.call(interp, fn, [x], {}, None), 'map'),
}


# ---------------------------------------------------------------------- spec primitives

def _raw_arrow(interp, dom, cod, boxes):
    return VArrow(dom, cod, interp.world.to_list(interp, boxes))


def _raw_diagram(interp, dom, cod, boxes, offsets, layers):
    w = interp.world
    return VDiagram(dom, cod, w.to_list(interp, boxes), w.to_list(interp, offsets), layers)


def _raw_layer(interp, left, box, right):
    return VLayer(left, box, right)


def _empty_ty(interp):
    return VTy(T.EMPTY)


def _as_diagram(interp, v):
    return interp.world.as_diagram(v)


def _interchange_far(interp, self, i, j, left=None):
    """spec of a distant move at call sites: only a marker; the abstract contract builds the fresh result"""
    d = VDiagram(self.dom, self.cod, self.boxes, self.offsets, self.layers)
    d._far = True
    d._lo = z3.If(i.t < j.t, i.t, j.t)
    d._hi = z3.If(i.t < j.t, j.t, i.t)
    d._src = (i.t, j.t)
    # a distant move may be refused by one of its adjacent steps
    if interp.ex.fork(2) == 1:
        raise PyRaise('InterchangerError', 'some box on the way is connected')
    return d


def _scan_layers(interp, dom, cod, boxes, offsets):
    """layers computed by the scanning constructor, at a call site: the caller's contract supplies well-formed layers for
    its boxes / offsets in closed form (ex.scan_witness); they are checked here (pointwise obligations `pre:scan ...`),
    and by the acceptance contract of the constructor (monoidal.Diagram.__init__[accepts]) they are what it computes"""
    ex = interp.ex
    hint = getattr(ex, 'scan_witness', None)
    if hint is None:
        raise Unsupported('scanning constructor at a call site without a layer witness')
    ex.used.add('monoidal.Diagram.__init__')
    layers = hint(interp, dom, cod, boxes, offsets)           # VArrow with closed-form layers
    from contracts.preds import prove_wfA
    n = boxes.length()
    ex.prove('pre:scan: one layer per box', layers.boxes.length() == n)
    ex.prove('pre:scan: layers start at dom', T.ty_eq(layers.dom.t, dom.t))
    ex.prove('pre:scan: layers end at cod', T.ty_eq(layers.cod.t, cod.t))
    prove_wfA(ex, 'pre:scan', layers)

    def pointwise(k):
        l = ex.list_at(layers.boxes, k)
        ex.prove('pre:scan: layer k carries box k', ex.eq(l.box, ex.list_at(boxes, k)))
        ex.prove('pre:scan: box k sits at offset k', T.ty_len(l.left.t) == ex.list_at(interp.world.as_sequence(interp, offsets), k).t)
    ex.forall(n, pointwise)
    return layers


SPEC_PRIMS = {
    'scan_layers': _scan_layers,
    'RawArrow': _raw_arrow, 'RawDiagram': _raw_diagram, 'RawLayer': _raw_layer, 'EmptyTy': _empty_ty,
    'as_diagram': _as_diagram, 'interchange_far': _interchange_far,
}


# ---------------------------------------------------------------------- spec snippets

def spec_eval(interp, src, variables, qual='spec:<inv>'):
    """evaluate a spec-language expression in an environment of named symbolic values"""
    node = ast.parse(src.strip(), mode='eval').body
    frame = Frame(qual, {})
    interp.world.spec_mode += 1
    try:
        return interp.eval(node, Env(None, dict(variables)), frame)
    finally:
        interp.world.spec_mode -= 1


def closed_form(exprs, extra=None):
    """LoopSpec whose state at iteration k is given by spec-language expressions over the function's
    own variables and `k` (and `seq`, the iterated list)"""
    def state(interp, env, k, seq):
        variables = {}
        e = env
        chain = []
        while e is not None:
            chain.append(e.vars)
            e = e.parent
        for v in reversed(chain):
            variables.update(v)
        variables['k'] = VInt(k)
        if seq is not None:
            variables['seq'] = seq
        if extra:
            variables.update(extra)
        return {name: spec_eval(interp, src, variables) for name, src in exprs.items()}
    return LoopSpec(state=state)
