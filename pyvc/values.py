"""Symbolic values manipulated by the interpreter."""
import z3
from . import terms as T


class Value:
    kind = 'value'


class VNone(Value):
    kind = 'None'

    def __repr__(self):
        return 'None'


NONE = VNone()


class VInt(Value):
    kind = 'int'

    def __init__(self, t):
        self.t = T.I(t) if isinstance(t, int) else t

    def __repr__(self):
        return 'VInt(%s)' % self.t


class VReal(Value):
    kind = 'real'

    def __init__(self, t):
        if isinstance(t, (int, float)):
            import fractions
            fr = fractions.Fraction(t).limit_denominator(10 ** 9) if isinstance(t, float) else fractions.Fraction(t)
            t = z3.RealVal(str(fr))
        self.t = t

    def __repr__(self):
        return 'VReal(%s)' % self.t


class VBool(Value):
    kind = 'bool'

    def __init__(self, t):
        self.t = z3.BoolVal(t) if isinstance(t, bool) else t

    def __repr__(self):
        return 'VBool(%s)' % self.t


class VStr(Value):
    kind = 'str'

    def __init__(self, s=None):
        self.s = s

    def __repr__(self):
        return 'VStr(%r)' % self.s


class VOb(Value):
    kind = 'ob'

    def __init__(self, t):
        self.t = t


class VVal(Value):
    """an opaque python value as a term (the name of an object)"""
    kind = 'val'

    def __init__(self, t):
        self.t = t


class VTy(Value):
    kind = 'ty'
    cls = None      # 'rigid' for the images of a functor into rigid types (decides what << and >> mean)
    elems = None    # the list of objects a type was constructed from (Ty(*objects)): its pointwise definition (L-ext)

    def __init__(self, t, cls=None):
        self.t = t
        if cls is not None:
            self.cls = cls

    def __repr__(self):
        return 'VTy(%s)' % self.t


class VBox(Value):
    """a generator box (monoidal.Box and subclasses), opaque: dom/cod/kind are UF of its term"""
    kind = 'box'

    def __init__(self, t, extra=None):
        self.t = t
        self.extra = dict(extra or {})      # attributes of subclasses (e.g. Curry.diagram / n_wires / left)

    def __repr__(self):
        return 'VBox(%s)' % self.t


class VLayer(Value):
    kind = 'layer'

    def __init__(self, left, box, right):
        self.left, self.box, self.right = left, box, right

    def dom(self):
        return VTy(T.ty_concat(self.left.t, T.bdom(self.box.t), self.right.t))

    def cod(self):
        return VTy(T.ty_concat(self.left.t, T.bcod(self.box.t), self.right.t))


class VTuple(Value):
    kind = 'tuple'

    def __init__(self, items):
        self.items = list(items)

    def __repr__(self):
        return 'VTuple(%r)' % (self.items,)


class BaseList:
    """an atomic symbolic list: a length term and an element function of an index term"""
    _ids = 0

    def __init__(self, name, length, elem, ekind=None):
        BaseList._ids += 1
        self.id = BaseList._ids
        self.name, self.length, self._elem, self.ekind = name, length, elem, ekind
        self.qhyps = []     # callables index_term -> list of (guard, formula)
        self.touched = None  # set by the executor

    def elem(self, i):
        if self.touched is not None:
            self.touched.setdefault(self.id, (self, {}))[1][z3.simplify(i).sexpr()] = i
        return self._elem(i)


class VList(Value):
    """a python list / tuple of values: concatenation of segments
    ('lit', [values]) | ('sub', base, lo, hi)  meaning base[lo:hi] with 0 <= lo <= hi <= len(base)"""
    kind = 'list'

    def __init__(self, segs=None, is_tuple=False):
        self.segs = []
        for s in (segs or []):
            if s[0] == 'lit':
                if not s[1]:
                    continue
                if self.segs and self.segs[-1][0] == 'lit':
                    self.segs[-1] = ('lit', self.segs[-1][1] + list(s[1]))
                else:
                    self.segs.append(('lit', list(s[1])))
            else:
                _, base, lo, hi = s
                d = T.int_val(hi - lo)
                if d is not None and d <= 0:
                    continue
                # merge adjacent slices of the same base
                if self.segs and self.segs[-1][0] == 'sub' and self.segs[-1][1] is base \
                        and T.int_val(self.segs[-1][3] - lo) == 0:
                    self.segs[-1] = ('sub', base, self.segs[-1][2], hi)
                else:
                    self.segs.append(('sub', base, lo, hi))
        self.is_tuple = is_tuple

    @staticmethod
    def lit(items):
        return VList([('lit', list(items))])

    @staticmethod
    def of_base(base):
        return VList([('sub', base, T.I(0), base.length)])

    def is_literal(self):
        return all(s[0] == 'lit' for s in self.segs)

    def items(self):
        assert self.is_literal()
        return [x for s in self.segs for x in s[1]]

    def seg_len(self, s):
        return T.I(len(s[1])) if s[0] == 'lit' else z3.simplify(s[3] - s[2])

    def length(self):
        total = T.I(0)
        for s in self.segs:
            total = total + self.seg_len(s)
        return z3.simplify(total)

    def __repr__(self):
        out = []
        for s in self.segs:
            out.append(repr(s[1]) if s[0] == 'lit' else '%s[%s:%s]' % (s[1].name, s[2], s[3]))
        return 'VList(' + ' + '.join(out) + ')'


class VArrow(Value):
    """a cat.Arrow whose boxes are layers"""
    kind = 'arrow'

    def __init__(self, dom, cod, boxes):
        self.dom, self.cod, self.boxes = dom, cod, boxes


class VDiagram(Value):
    kind = 'diagram'

    def __init__(self, dom, cod, boxes, offsets, layers):
        self.dom, self.cod, self.boxes, self.offsets, self.layers = dom, cod, boxes, offsets, layers


class VRange(Value):
    kind = 'range'

    def __init__(self, lo, hi):
        self.lo, self.hi = lo, hi


class VSlice(Value):
    kind = 'slice'

    def __init__(self, start, stop, step):
        self.start, self.stop, self.step = start, stop, step


class VObject(Value):
    """a mutable instance under construction (self in __init__) or a generic record"""
    kind = 'object'

    def __init__(self, cls=None, attrs=None):
        self.cls, self.attrs = cls, dict(attrs or {})


class VClosure(Value):
    kind = 'closure'

    def __init__(self, node, env, qualname):
        self.node, self.env, self.qualname = node, env, qualname


class VBuiltin(Value):
    kind = 'builtin'

    def __init__(self, name, fn):
        self.name, self.fn = name, fn


class VClass(Value):
    """reference to a class by name (isinstance / construction / static methods)"""
    kind = 'class'

    def __init__(self, name):
        self.name = name

    def __repr__(self):
        return 'VClass(%s)' % self.name


class VMethod(Value):
    kind = 'method'

    def __init__(self, recv, name):
        self.recv, self.name = recv, name


class VModule(Value):
    kind = 'module'

    def __init__(self, name):
        self.name = name


class VOpaque(Value):
    """a value the model does not interpret (messages, drawing attributes)"""
    kind = 'opaque'

    def __init__(self, what=''):
        self.what = what


class VFunctor(Value):
    """a monoidal functor given by arbitrary images: an object map FT : Ty -> Ty' (uninterpreted function on
    sequences with the homomorphism property instantiated where it is used) and a box map to well-formed diagrams
    img(b) : FT(dom b) -> FT(cod b) (the contract's precondition on user-supplied images)"""
    kind = 'functor'

    def __init__(self, name, ar_factory='monoidal.Diagram'):
        import z3
        from . import terms as T
        self.name = name
        self.FT = z3.Function(name + '.ob', T.TyS, T.TyS)
        self.ar_factory = ar_factory
        self.images = {}


class VStar(Value):
    """f(*seq) with a sequence of symbolic length: the whole positional argument list"""
    kind = 'star'

    def __init__(self, seq):
        self.seq = seq


class VPyFun(Value):
    """an arbitrary Python function on wire values (cartesian boxes): out : tuple of inputs -> tuple of `cod` outputs,
    returned by the library's convention (a bare value for one output, a tuple otherwise)"""
    kind = 'pyfun'

    def __init__(self, name, cod, out=None):
        import z3
        from . import terms as T
        self.name, self.cod = name, cod
        # out: input tuple term -> output tuple term; an uninterpreted function for a box, a meta-level composition for
        # the functions built by then / tensor / id at call sites
        self.out = out if out is not None else z3.Function(name + '.out', T.TyS, T.TyS)
