"""Sorts, term helpers, LIA abstraction, Ackermannisation and SMT-LIB emission."""
import itertools
import z3

Ob = z3.DeclareSort('Ob')
TyS = z3.SeqSort(Ob)
BoxS = z3.DeclareSort('Box')
ValS = z3.DeclareSort('Val')        # opaque python values (cartesian wires, names)
IntS = z3.IntSort()
RealS = z3.RealSort()
BoolS = z3.BoolSort()

# box attributes (uninterpreted): dom, cod, kind tag, left/right for Swap/Cup/Cap
bdom = z3.Function('bdom', BoxS, TyS)
bcod = z3.Function('bcod', BoxS, TyS)
bkind = z3.Function('bkind', BoxS, IntS)
bleft = z3.Function('bleft', BoxS, TyS)
bright = z3.Function('bright', BoxS, TyS)
bdag = z3.Function('bdag', BoxS, BoxS)
# object adjoints (rigid): z winding as a function; name of object
ob_l = z3.Function('ob_l', Ob, Ob)
ob_r = z3.Function('ob_r', Ob, Ob)

ob_name = z3.Function('ob_name', Ob, ValS)      # the two fields a rigid.Ob is determined by (rigid.Ob.__eq__)
ob_z = z3.Function('ob_z', Ob, IntS)
mk_ob = z3.Function('mk_ob', ValS, IntS, Ob)

adjpow = z3.Function('ty_adjpow', TyS, IntS, TyS)     # z-fold adjoint of a type: z < 0 left adjoints, z > 0 right adjoints
tyl = z3.Function('ty_l', TyS, TyS)      # left / right adjoint of a rigid type (reverses the order)
tyr = z3.Function('ty_r', TyS, TyS)

# biclosed (categorial grammar) types: a slash type is a one-object type; predicates and projections on sequences
ty_over = z3.Function('ty_is_over', TyS, z3.BoolSort())
ty_under = z3.Function('ty_is_under', TyS, z3.BoolSort())
ty_sl = z3.Function('ty_slash_left', TyS, TyS)
ty_sr = z3.Function('ty_slash_right', TyS, TyS)
mk_over = z3.Function('ty_mk_over', TyS, TyS, TyS)
mk_under = z3.Function('ty_mk_under', TyS, TyS, TyS)

mk_swap = z3.Function('box_swap', TyS, TyS, BoxS)       # Swap(left, right) as a function of its two one-object types
boxout = z3.Function('box_function', BoxS, TyS, TyS)     # the python function of a cartesian box, on tuples of wire values
ob_is_none = z3.Function('ob_is_none', Ob, z3.BoolSort())     # an abstract wire value may be None (any python value)
pro_of = z3.Function('pro_of', IntS, TyS)     # PRO(n) = Ty(1, ..., 1): the type of n wires named 1, a function of n alone
ob_truthy = z3.Function('ob_truthy', Ob, z3.BoolSort())      # truth value of an abstract wire value (any: 0, '', None are falsy)

KINDS = {'Box': 0, 'Swap': 1, 'Cup': 2, 'Cap': 3, 'Sum': 4, 'Bubble': 5, 'Spider': 6, 'Layer': 7,
         'FA': 8, 'BA': 9, 'FC': 10, 'BC': 11, 'FX': 12, 'BX': 13, 'Curry': 14}

EMPTY = z3.Empty(TyS)

_counter = itertools.count()


def fresh_name(prefix):
    return "%s!%d" % (prefix, next(_counter))


def reset_names():
    global _counter
    _counter = itertools.count()


def fresh(prefix, sort):
    return z3.Const(fresh_name(prefix), sort)


def I(n):
    return z3.IntVal(n)


def is_int_const(t):
    return z3.is_int_value(t)


def simp(t):
    return z3.simplify(t, som=True, flat=True)


def int_val(t):
    """python int if the term simplifies to a numeral, else None"""
    if isinstance(t, int):
        return t
    s = z3.simplify(t)
    if z3.is_int_value(s):
        return s.as_long()
    return None


def _seq_parts(t):
    """flatten a Seq term into its concatenation atoms, dropping empties"""
    if z3.is_app(t) and t.decl().kind() == z3.Z3_OP_SEQ_CONCAT:
        out = []
        for c in t.children():
            out.extend(_seq_parts(c))
        return out
    if z3.is_app(t) and t.decl().kind() == z3.Z3_OP_SEQ_EMPTY:
        return []
    return [t]


def ty_concat(*ts):
    parts = []
    for t in ts:
        parts.extend(_seq_parts(t))
    if not parts:
        return EMPTY
    if len(parts) == 1:
        return parts[0]
    return z3.Concat(*parts)


def ty_len(t):
    """length as a linear term over the lengths of the atoms"""
    parts = _seq_parts(t)
    total = None
    const = 0
    for p in parts:
        if z3.is_app(p) and p.decl().kind() == z3.Z3_OP_SEQ_UNIT:
            const += 1
            continue
        term = z3.Length(p)
        total = term if total is None else total + term
    if total is None:
        return I(const)
    return total + const if const else total


def ty_syn_eq(a, b):
    pa, pb = _seq_parts(a), _seq_parts(b)
    return len(pa) == len(pb) and all(x.eq(y) for x, y in zip(pa, pb))


def ty_eq(a, b):
    """boolean term for equality of two Seq terms, syntactically simplified"""
    pa, pb = _seq_parts(a), _seq_parts(b)
    # strip common prefix / suffix atoms
    while pa and pb and pa[0].eq(pb[0]):
        pa, pb = pa[1:], pb[1:]
    while pa and pb and pa[-1].eq(pb[-1]):
        pa, pb = pa[:-1], pb[:-1]
    if not pa and not pb:
        return z3.BoolVal(True)
    return ty_concat(*pa) == ty_concat(*pb)


# ---------------------------------------------------------------- LIA abstraction

def _is_seq(t):
    return z3.is_seq(t)


class LiaAbs:
    """Abstract a formula to linear integer arithmetic for fast, robust side queries.

    * top-level conjunct `s == t` on sequences  ->  len(s) == len(t)
    * seq.len(atom) -> integer constant >= 0 (one per atom)
    * any other atom that mentions sequences -> a fresh free boolean (over-approximation)
    The abstraction is only ever used to *refute* feasibility (unsat of the abstraction
    implies unsat of the original)."""

    def __init__(self):
        self.len_vars = {}
        self.extra = []
        self.cache = {}

    def len_var(self, atom):
        key = atom.sexpr()
        if key not in self.len_vars:
            v = z3.Int("len!%d" % len(self.len_vars))
            self.len_vars[key] = v
            self.extra.append(v >= 0)
        return self.len_vars[key]

    def arith(self, t):
        """abstract an Int/Real/Bool-sorted term"""
        key = t.get_id()
        if key in self.cache:
            return self.cache[key][1]
        r = self._arith(t)
        self.cache[key] = (t, r)    # keep t alive: z3 reuses ids of collected terms
        return r

    def _arith(self, t):
        if z3.is_app(t):
            k = t.decl().kind()
            if k == z3.Z3_OP_SEQ_LENGTH:
                arg = t.arg(0)
                total = I(0)
                for p in _seq_parts(arg):
                    if z3.is_app(p) and p.decl().kind() == z3.Z3_OP_SEQ_UNIT:
                        total = total + 1
                    else:
                        total = total + self.len_var(p)
                return total
            if z3.is_bool(t):
                if k in (z3.Z3_OP_AND, z3.Z3_OP_OR, z3.Z3_OP_NOT, z3.Z3_OP_IMPLIES,
                         z3.Z3_OP_ITE, z3.Z3_OP_IFF, z3.Z3_OP_XOR):
                    return t.decl()(*[self.arith(c) for c in t.children()])
                if k in (z3.Z3_OP_TRUE, z3.Z3_OP_FALSE):
                    return t
                if k in (z3.Z3_OP_EQ, z3.Z3_OP_DISTINCT) and t.num_args() and _is_seq(t.arg(0)):
                    return z3.Bool("abs!%d" % t.get_id())
                if any(_mentions_seq(c) and not z3.is_int(c) and not z3.is_real(c) for c in t.children()):
                    return z3.Bool("abs!%d" % t.get_id())
            if t.num_args() == 0:
                return t
            if _is_seq(t):
                raise ValueError("sequence term in arithmetic position: %s" % t)
            kids = []
            for c in t.children():
                if _is_seq(c):
                    # UF application over a sequence argument: opaque constant
                    return z3.Const("opq!%d" % t.get_id(), t.sort())
                kids.append(self.arith(c))
            return t.decl()(*kids)
        return t

    def conjunct(self, f):
        """abstract one top-level conjunct of the path condition"""
        if z3.is_app(f) and f.decl().kind() == z3.Z3_OP_AND:
            return z3.And(*[self.conjunct(c) for c in f.children()])
        if z3.is_app(f) and f.decl().kind() == z3.Z3_OP_EQ and _is_seq(f.arg(0)):
            return self.arith(z3.Length(f.arg(0))) == self.arith(z3.Length(f.arg(1)))
        return self.arith(f)


def _mentions_seq(t):
    if _is_seq(t):
        return True
    return any(_mentions_seq(c) for c in t.children()) if z3.is_app(t) else False


class LiaSolver:
    """incremental LIA abstraction of a growing path condition"""

    def __init__(self, timeout_ms=2000):
        self.ab = LiaAbs()
        self.s = z3.Solver()
        # no z3 timeout here: z3's timer thread does not survive os.fork() (measured: forked
        # children stall); the abstraction is pure linear arithmetic and answers in milliseconds
        self.n_extra = 0
        self.queries = 0
        self.version = 0

    def _flush(self):
        while self.n_extra < len(self.ab.extra):
            self.s.add(self.ab.extra[self.n_extra])
            self.n_extra += 1

    def add(self, f):
        a = self.ab.conjunct(f)
        self._flush()
        self.s.add(a)
        self.version += 1

    def check_with(self, f):
        """'unsat' if pc and f is LIA-unsatisfiable else 'maybe'"""
        self.queries += 1
        a = self.ab.conjunct(f)
        self._flush()
        self.s.push()
        self.s.add(a)
        r = self.s.check()
        self.s.pop()
        return 'unsat' if r == z3.unsat else 'maybe'

    def entails(self, f):
        return self.check_with(z3.Not(f)) == 'unsat'

    def refutes(self, f):
        return self.check_with(f) == 'unsat'


def lia_check(formulas, timeout_ms=2000):
    """'unsat' if the LIA abstraction of the conjunction is unsatisfiable, else 'maybe'"""
    ab = LiaAbs()
    fs = [ab.conjunct(f) for f in formulas]
    s = z3.SolverFor('QF_UFLIRA') if False else z3.Solver()
    s.set('timeout', timeout_ms)
    s.add(*ab.extra)
    s.add(*fs)
    r = s.check()
    return 'unsat' if r == z3.unsat else 'maybe'


# ---------------------------------------------------------------- Ackermannisation

_UF_KEEP = set()


class IndexRel:
    """relation between integer index terms under a (growing) path condition, cached:
    'eq' / 'ne' are stable when the path condition grows, '?' is re-asked"""

    def __init__(self, lia):
        self.lia = lia
        self.cache = {}

    def copy_state(self):
        return dict(self.cache)

    def restore_state(self, st):
        self.cache = st

    def rel(self, a, b):
        diff = z3.simplify(a - b)
        if z3.is_int_value(diff):
            return 'eq' if diff.as_long() == 0 else 'ne'
        key = diff.sexpr()
        r = self.cache.get(key)
        if r is not None:
            if r in ('eq', 'ne'):
                return r
            if r == self.lia.version:     # undetermined, and the path condition has not grown since
                return '?'
        if self.lia is None:
            return '?'
        if self.lia.entails(a == b):
            r = 'eq'
        elif self.lia.refutes(a == b):
            r = 'ne'
        else:
            self.cache[key] = self.lia.version
            return '?'
        self.cache[key] = r
        return r


def ackermannize(formulas, irel=None):
    """Replace every application of an uninterpreted function (arity >= 1) by a constant,
    adding the congruence axioms between applications of the same function.  Measured:
    z3's sequence solver times out on word equations over Seq-valued UF applications and
    answers in milliseconds on the same equations over constants.

    Integer arguments (list indices) are first grouped into classes that the path condition
    forces equal (LIA side queries through `irel`); provably different indices get no axiom."""
    table = {}      # decl name -> list of (arg keys tuple, arg terms, result const)
    cache = {}
    side = []
    classes = []    # representative int terms
    rel = {}
    irel = irel or IndexRel(None)

    ic_cache = {}

    def int_class(t):
        k = t.get_id()
        if k in ic_cache:
            return ic_cache[k]
        for ci, r in enumerate(classes):
            if irel.rel(t, r) == 'eq':
                ic_cache[k] = ci
                return ci
        classes.append(t)
        ic_cache[k] = len(classes) - 1
        return len(classes) - 1

    def class_rel(a, b):
        if a == b:
            return 'eq'
        key = (min(a, b), max(a, b))
        if key not in rel:
            rel[key] = irel.rel(classes[a], classes[b])
        return rel[key]

    def walk(t):
        key = t.get_id()
        if key in cache:
            return cache[key]
        if not z3.is_app(t) or t.num_args() == 0:
            cache[key] = t
            return t
        kids = [walk(c) for c in t.children()]
        d = t.decl()
        if d.kind() == z3.Z3_OP_UNINTERPRETED:
            name = d.name()
            apps = table.setdefault(name, [])
            keys = tuple(('i', int_class(k)) if z3.is_int(k) else ('t', k.get_id()) for k in kids)
            for okeys, oargs, res in apps:
                if okeys == keys:
                    cache[key] = res
                    return res
            res = z3.Const("%s__%d" % (name, len(apps)), t.sort())
            for okeys, oargs, other in apps:
                conds = []
                distinct = False
                for ka, kb, a, b in zip(okeys, keys, oargs, kids):
                    if ka[0] == 'i':
                        r = class_rel(ka[1], kb[1])
                        if r == 'ne':
                            distinct = True
                            break
                        if r == '?':
                            conds.append(classes[ka[1]] == classes[kb[1]])
                    elif not a.eq(b):
                        conds.append(a == b)
                if not distinct:
                    side.append(z3.Implies(z3.And(*conds) if len(conds) > 1 else conds[0], res == other)
                                if conds else res == other)
            apps.append((keys, kids, res))
            cache[key] = res
            return res
        r = d(*kids)
        cache[key] = r
        return r

    out = [walk(f) for f in formulas]
    return out, side


def to_smt2(hyps, goal, irel=None):
    """SMT-LIB text asserting hyps and the negation of goal (expect unsat)"""
    fs, side = ackermannize(list(hyps) + [z3.Not(goal)], irel)
    s = z3.Solver()
    s.add(*side)
    s.add(*fs)
    return "(set-logic ALL)\n" + s.to_smt2()
