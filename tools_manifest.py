#!/usr/bin/env python3
"""regenerate MANIFEST.json from checks/registry.py (keeps the manifest valid and in sync)"""
import json
import os
import sys
HERE = os.path.dirname(os.path.abspath(__file__))
sys.path.insert(0, HERE)
from checks import registry   # noqa

props = [json.loads(l) for l in open(os.path.join(HERE, 'properties.jsonl'))]
ids = [p['id'] for p in props]
checks = []
for pid in ids:
    if pid not in registry.PROPS or registry.PROPS[pid].get('claimed', True) is False:
        continue
    s = registry.PROPS[pid]
    checks.append({
        'property_id': pid,
        'quick_cmd': './vcheck %s --tier quick' % pid,
        'thorough_cmd': './vcheck %s --tier thorough' % pid,
        'evidence_file': 'evidence/%s.json' % pid,
        'replay_cmd_template': './vcheck %s --replay {path}' % pid,
        'engine': 'vcheck',
        'level_claimed': {'category': s.get('level', 'proof'), 'text': s['level_text'], 'design_ref': s.get('design_ref', 'DESIGN.md section 6, ' + pid)},
        'level_note': s['level_note'],
        'technique': s['technique'],
    })
na = []
for pid in ids:
    if pid in [c['property_id'] for c in checks]:
        continue
    reason = registry.NOT_APPLICABLE.get(pid, 'contracts designed in DESIGN.md section 6 but not discharged in this build; not claimed at a bounded level under the name of a proof')
    na.append({'property_id': pid, 'reason': reason})
manifest = {
    'version': 1,
    'setup_cmd': './vcheck setup',
    'hooks': {'guard': 'DISCOPY_VERIF', 'enable': 'none needed: contracts are sidecar files under /verif/contracts, the real source is re-read from /repo on every run; DISCOPY_VERIF is reserved and unused',
              'baseline_off_cmd': 'cd /repo && /venv/bin/python -m pytest -ra -q -p no:cacheprovider --timeout=900 --continue-on-collection-errors',
              'source_commits': registry.SOURCE_COMMITS, 'add_only': True},
    'engines': [
        {'name': 'vcheck', 'path': 'vcheck', 'serves_properties': [c['property_id'] for c in checks],
         'kind_free_text': 'contract-based deductive verification: VCs generated from the AST of the real functions (pyvc) and discharged by z3/cvc5; symbolic execution of the real gate code on symbolic parameters (symrun) discharged by z3; bounded run-time contracts (rtc) as labelled stand-in and replay'}],
    'checks': checks,
    'not_applicable': na,
    'notes': 'exit 0 held / 1 VIOLATION / 2 undecided / 3 checker error; see DESIGN.md',
}
with open(os.path.join(HERE, 'MANIFEST.json'), 'w') as f:
    json.dump(manifest, f, indent=1)
print('MANIFEST.json: %d checks, %d not_applicable' % (len(checks), len(na)))
