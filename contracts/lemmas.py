"""C02: the strict dagger-monoidal laws as lemmas over the functional contracts (the contracts are
what the real bodies are verified against, so each law is a statement about the real operations).
`==` is record equality on (dom, cod, boxes, offsets) -- the real Diagram.__eq__, C03 -- and the
layers are compared as well."""
import z3
from pyvc import terms as T
from pyvc.values import *  # noqa
from .core import CONTRACTS, lemma


def _then(interp, a, b):
    return interp.world.apply(interp, 'monoidal.Diagram.then', [a, b], {})


def _tensor(interp, a, b):
    return interp.world.apply(interp, 'monoidal.Diagram.tensor', [a, b], {})


def _id(interp, ty):
    return interp.world.apply(interp, 'monoidal.Id.__init__', [ty], {}, construct='monoidal.Id')


def _getitem(interp, d, key):
    return interp.world.apply(interp, 'monoidal.Diagram.__getitem__', [d, key], {})


def _then_assoc(interp):
    ex = interp.ex
    a, b, c = (ex.sym_diagram(n, wf=True) for n in 'abc')
    ex.assume(T.ty_eq(a.cod.t, b.dom.t))
    ex.assume(T.ty_eq(b.cod.t, c.dom.t))
    ex.prove_equal('C02:then.assoc', _then(interp, _then(interp, a, b), c), _then(interp, a, _then(interp, b, c)))


def _then_unit(interp):
    ex = interp.ex
    a = ex.sym_diagram('a', wf=True)
    ex.prove_equal('C02:then.unit_left', _then(interp, _id(interp, a.dom), a), a)
    ex.prove_equal('C02:then.unit_right', _then(interp, a, _id(interp, a.cod)), a)


def _tensor_assoc(interp):
    ex = interp.ex
    a, b, c = (ex.sym_diagram(n, wf=True) for n in 'abc')
    ex.prove_equal('C02:tensor.assoc', _tensor(interp, _tensor(interp, a, b), c),
                   _tensor(interp, a, _tensor(interp, b, c)))


def _tensor_unit(interp):
    ex = interp.ex
    a = ex.sym_diagram('a', wf=True)
    unit = _id(interp, VTy(T.EMPTY))
    ex.prove_equal('C02:tensor.unit_left', _tensor(interp, unit, a), a)
    ex.prove_equal('C02:tensor.unit_right', _tensor(interp, a, unit), a)


def _tensor_whisker(interp):
    ex = interp.ex
    a, b = ex.sym_diagram('a', wf=True), ex.sym_diagram('b', wf=True)
    lhs = _tensor(interp, a, b)
    rhs = _then(interp, _tensor(interp, a, _id(interp, b.dom)), _tensor(interp, _id(interp, a.cod), b))
    ex.prove_equal('C02:tensor.whisker', lhs, rhs)


def _tensor_ids(interp):
    ex = interp.ex
    s, t = ex.sym_ty('s'), ex.sym_ty('t')
    ex.prove_equal('C02:tensor.id', _tensor(interp, _id(interp, s), _id(interp, t)),
                   _id(interp, VTy(T.ty_concat(s.t, t.t))))


def _slice_recompose(interp):
    ex = interp.ex
    d = ex.sym_diagram('d', wf=True)
    k = ex.sym_int('k')
    head = _getitem(interp, d, VSlice(NONE, k, NONE))
    tail = _getitem(interp, d, VSlice(k, NONE, NONE))
    ex.prove_equal('C02:slice.recompose', _then(interp, head, tail), d)


def _dagger_involutive(interp):
    ex = interp.ex
    d = ex.sym_diagram('d', wf=True)
    rev = VSlice(NONE, NONE, VInt(-1))
    ex.prove_equal('C02:dagger.involutive', _getitem(interp, _getitem(interp, d, rev), rev), d)


def _dagger_id(interp):
    ex = interp.ex
    t = ex.sym_ty('t')
    rev = VSlice(NONE, NONE, VInt(-1))
    ex.prove_equal('C02:dagger.id', _getitem(interp, _id(interp, t), rev), _id(interp, t))


def _dagger_contravariant(interp):
    ex = interp.ex
    a, b = ex.sym_diagram('a', wf=True), ex.sym_diagram('b', wf=True)
    ex.assume(T.ty_eq(a.cod.t, b.dom.t))
    rev = VSlice(NONE, NONE, VInt(-1))
    lhs = _getitem(interp, _then(interp, a, b), rev)
    rhs = _then(interp, _getitem(interp, b, rev), _getitem(interp, a, rev))
    ex.prove_equal('C02:dagger.contravariant', lhs, rhs)


def _dagger_tensor(interp):
    ex = interp.ex
    a, b = ex.sym_diagram('a', wf=True), ex.sym_diagram('b', wf=True)
    rev = VSlice(NONE, NONE, VInt(-1))
    # (a @ b)[::-1] and a[::-1] @ b[::-1] differ by interchangers in general: only dom/cod are claimed
    lhs = _getitem(interp, _tensor(interp, a, b), rev)
    ex.prove('C02:dagger.tensor.dom', T.ty_eq(lhs.dom.t, T.ty_concat(a.cod.t, b.cod.t)))
    ex.prove('C02:dagger.tensor.cod', T.ty_eq(lhs.cod.t, T.ty_concat(a.dom.t, b.dom.t)))


lemma('then.assoc', _then_assoc, ('C02',))
lemma('then.unit', _then_unit, ('C02',))
lemma('tensor.assoc', _tensor_assoc, ('C02',))
lemma('tensor.unit', _tensor_unit, ('C02',))
lemma('tensor.whisker', _tensor_whisker, ('C02',))
lemma('tensor.id', _tensor_ids, ('C02',))
lemma('slice.recompose', _slice_recompose, ('C02',))
lemma('dagger.involutive', _dagger_involutive, ('C02',))
lemma('dagger.id', _dagger_id, ('C02',))
lemma('dagger.contravariant', _dagger_contravariant, ('C02',))
lemma('dagger.tensor', _dagger_tensor, ('C02',))


# canaries: statements that are false and must be refuted on every run (vacuity guard, DESIGN 2.7)
def _canary_tensor_commutes(interp):
    ex = interp.ex
    a, b = ex.sym_diagram('a', wf=True), ex.sym_diagram('b', wf=True)
    ex.prove_equal('canary:tensor commutes', _tensor(interp, a, b), _tensor(interp, b, a))


def _canary_then_len(interp):
    ex = interp.ex
    a, b = ex.sym_diagram('a', wf=True), ex.sym_diagram('b', wf=True)
    ex.assume(T.ty_eq(a.cod.t, b.dom.t))
    ex.prove('canary:len(a >> b) == len(a)', _then(interp, a, b).boxes.length() == a.boxes.length())


CANARIES = {
    'canary:tensor.commutes': _canary_tensor_commutes,
    'canary:then.len': _canary_then_len,
}
for _n, _f in CANARIES.items():
    _c = lemma(_n, _f, ())
    _c.canary = True


# canaries for the axiom families of the later contracts (adjoints, slash types, functor object maps, python functions,
# constructor call-site forms): each is a FALSE statement stated over exactly those hypotheses; it must be refuted on
# every run, otherwise the hypotheses are contradictory and every obligation resting on them would be vacuous
def _canary_adjoint(interp):
    ex, w = interp.ex, interp.world
    a, b = ex.sym_ty('A'), ex.sym_ty('B')
    both = w.ty_adjoint(interp, T.ty_concat(a.t, b.t), 'l')
    w.ty_adjoint(interp, T.ty_concat(a.t, b.t), 'r')
    ex.prove('canary:(A @ B).l == A.l @ B.l', T.ty_eq(both, T.ty_concat(w.ty_adjoint(interp, a.t, 'l'), w.ty_adjoint(interp, b.t, 'l'))))


def _canary_slash(interp):
    from .grammar import _bF, _slash_ty
    ex, w = interp.ex, interp.world
    F = _bF()
    o, u = _slash_ty(ex, 'O', 'over'), _slash_ty(ex, 'U', 'under')
    fo = w.functor_ty(interp, F, T.ty_concat(o.t, u.t))
    ex.prove('canary:F(a << b) == F(a) @ F(b)', T.ty_eq(w.functor_ty(interp, F, o.t),
                                                       T.ty_concat(F.FT(T.ty_sl(o.t)), F.FT(T.ty_sr(o.t)))))


def _canary_rigid_functor(interp):
    ex, w = interp.ex, interp.world
    F = VFunctor('F', ar_factory='rigid.Diagram')
    F.adjoints = True
    x = ex.sym_ty('x')
    fx = w.functor_ty(interp, F, x.t)
    ex.prove('canary:F(x.l) == F(x)', T.ty_eq(w.functor_ty(interp, F, w.ty_adjoint(interp, x.t, 'l')), fx))


def _canary_pyfun(interp):
    from .cartesian import _function, unfold
    ex, w = interp.ex, interp.world
    obj, f, n, m = _function(ex, 'f')
    F = VFunctor('F', ar_factory='cartesian.Function')
    F.python = True
    t = ex.sym_ty('t')
    w.functor_ty(interp, F, t.t)
    x = z3.Const('x', T.TyS)
    ex.assume(z3.Length(x) == n)
    ex.prove('canary:a box function returns its input', T.ty_eq(unfold(ex, f, x), x))


def _canary_constructors(interp):
    from .structural import _make_swap
    from .grammar import _make_cupcap
    ex = interp.ex
    l, r = ex.sym_ty('l'), ex.sym_ty('r')
    sw = _make_swap(interp, [l, r], {})
    cu = _make_cupcap('Cup')(interp, [l, r], {})
    ex.prove('canary:Swap(l, r).cod == l @ r', T.ty_eq(T.bcod(sw.t), T.ty_concat(l.t, r.t)))
    ex.prove('canary:Cup(l, r).cod == l', T.ty_eq(T.bcod(cu.t), l.t))


for _n, _f in {'canary:adjoint.homomorphic': _canary_adjoint, 'canary:slash.functor': _canary_slash,
               'canary:rigid.functor': _canary_rigid_functor, 'canary:pyfun.identity': _canary_pyfun,
               'canary:constructors': _canary_constructors}.items():
    _c = lemma(_n, _f, ())
    _c.canary = True


def _canary_type_model(interp):
    """over the hypotheses of the type refinement, the flattening recursion and the iterated adjoints: false statements"""
    from .functors import _D_unit, _D_snoc, _adjpow_def, _base_img
    from .types import _ob_list, _adj_list
    ex, w = interp.ex, interp.world
    ex.nth_by_parts = True
    F = VFunctor('F', ar_factory='rigid.Diagram')
    a, x = z3.Const('a', T.TyS), z3.Const('x', T.Ob)
    _D_unit(ex, F)
    _D_snoc(ex, F, a, x)
    B = _base_img(ex, F, x)
    _adjpow_def(interp, B, T.ob_z(x))
    s = _ob_list(ex, 's')
    back = _adj_list(interp, s, 'l')
    k = T.fresh('k', T.IntS)
    ex.assume(z3.And(0 <= k, k < s.length()))
    lst = VList.of_base(ex.register_base(BaseList('tys', z3.Int('n_tys'), lambda i: VTy(z3.Function('tys.at', T.IntS, T.TyS)(i)), 'ty')))
    ex.assume(lst.length() > 0)
    fl = ex.flat_of(lst)
    ex.flat_step(fl.flat, T.I(0))
    ex.prove('canary:D(a ++ (x,)) == D((x,)) ++ D(a)', T.ty_eq(F.FT(T.ty_concat(a, z3.Unit(x))), T.ty_concat(F.FT(z3.Unit(x)), F.FT(a))))
    ex.prove('canary:the left adjoint of a list keeps the order', ex.list_at(back, k).t == T.ob_l(ex.list_at(s, k).t))
    ex.prove('canary:adjpow(B, z).l == adjpow(B, z)', T.ty_eq(w.ty_adjoint(interp, T.adjpow(B, T.ob_z(x)), 'l'), T.adjpow(B, T.ob_z(x))))
    ex.prove('canary:the flattening of a non-empty list of types is empty', T.ty_eq(fl.t, T.EMPTY))


from pyvc.values import BaseList      # noqa: E402
_c = lemma('canary:type.model', _canary_type_model, ())
_c.canary = True
