"""C02: the strict dagger-monoidal laws as lemmas over the functional contracts (the contracts are
what the real bodies are verified against, so each law is a statement about the real operations).
`==` is record equality on (dom, cod, boxes, offsets) -- the real Diagram.__eq__, C03 -- and the
layers are compared as well."""
import z3
from pyvc import terms as T
from pyvc.values import *  # noqa
from .core import CONTRACTS, lemma


def _then(interp, a, b):
    return interp.world.apply(interp, 'monoidal.Diagram.then', [a, b], {})


def _tensor(interp, a, b):
    return interp.world.apply(interp, 'monoidal.Diagram.tensor', [a, b], {})


def _id(interp, ty):
    return interp.world.apply(interp, 'monoidal.Id.__init__', [ty], {}, construct='monoidal.Id')


def _getitem(interp, d, key):
    return interp.world.apply(interp, 'monoidal.Diagram.__getitem__', [d, key], {})


def _then_assoc(interp):
    ex = interp.ex
    a, b, c = (ex.sym_diagram(n, wf=True) for n in 'abc')
    ex.assume(T.ty_eq(a.cod.t, b.dom.t))
    ex.assume(T.ty_eq(b.cod.t, c.dom.t))
    ex.prove_equal('C02:then.assoc', _then(interp, _then(interp, a, b), c), _then(interp, a, _then(interp, b, c)))


def _then_unit(interp):
    ex = interp.ex
    a = ex.sym_diagram('a', wf=True)
    ex.prove_equal('C02:then.unit_left', _then(interp, _id(interp, a.dom), a), a)
    ex.prove_equal('C02:then.unit_right', _then(interp, a, _id(interp, a.cod)), a)


def _tensor_assoc(interp):
    ex = interp.ex
    a, b, c = (ex.sym_diagram(n, wf=True) for n in 'abc')
    ex.prove_equal('C02:tensor.assoc', _tensor(interp, _tensor(interp, a, b), c),
                   _tensor(interp, a, _tensor(interp, b, c)))


def _tensor_unit(interp):
    ex = interp.ex
    a = ex.sym_diagram('a', wf=True)
    unit = _id(interp, VTy(T.EMPTY))
    ex.prove_equal('C02:tensor.unit_left', _tensor(interp, unit, a), a)
    ex.prove_equal('C02:tensor.unit_right', _tensor(interp, a, unit), a)


def _tensor_whisker(interp):
    ex = interp.ex
    a, b = ex.sym_diagram('a', wf=True), ex.sym_diagram('b', wf=True)
    lhs = _tensor(interp, a, b)
    rhs = _then(interp, _tensor(interp, a, _id(interp, b.dom)), _tensor(interp, _id(interp, a.cod), b))
    ex.prove_equal('C02:tensor.whisker', lhs, rhs)


def _tensor_ids(interp):
    ex = interp.ex
    s, t = ex.sym_ty('s'), ex.sym_ty('t')
    ex.prove_equal('C02:tensor.id', _tensor(interp, _id(interp, s), _id(interp, t)),
                   _id(interp, VTy(T.ty_concat(s.t, t.t))))


def _slice_recompose(interp):
    ex = interp.ex
    d = ex.sym_diagram('d', wf=True)
    k = ex.sym_int('k')
    head = _getitem(interp, d, VSlice(NONE, k, NONE))
    tail = _getitem(interp, d, VSlice(k, NONE, NONE))
    ex.prove_equal('C02:slice.recompose', _then(interp, head, tail), d)


def _dagger_involutive(interp):
    ex = interp.ex
    d = ex.sym_diagram('d', wf=True)
    rev = VSlice(NONE, NONE, VInt(-1))
    ex.prove_equal('C02:dagger.involutive', _getitem(interp, _getitem(interp, d, rev), rev), d)


def _dagger_id(interp):
    ex = interp.ex
    t = ex.sym_ty('t')
    rev = VSlice(NONE, NONE, VInt(-1))
    ex.prove_equal('C02:dagger.id', _getitem(interp, _id(interp, t), rev), _id(interp, t))


def _dagger_contravariant(interp):
    ex = interp.ex
    a, b = ex.sym_diagram('a', wf=True), ex.sym_diagram('b', wf=True)
    ex.assume(T.ty_eq(a.cod.t, b.dom.t))
    rev = VSlice(NONE, NONE, VInt(-1))
    lhs = _getitem(interp, _then(interp, a, b), rev)
    rhs = _then(interp, _getitem(interp, b, rev), _getitem(interp, a, rev))
    ex.prove_equal('C02:dagger.contravariant', lhs, rhs)


def _dagger_tensor(interp):
    ex = interp.ex
    a, b = ex.sym_diagram('a', wf=True), ex.sym_diagram('b', wf=True)
    rev = VSlice(NONE, NONE, VInt(-1))
    # (a @ b)[::-1] and a[::-1] @ b[::-1] differ by interchangers in general: only dom/cod are claimed
    lhs = _getitem(interp, _tensor(interp, a, b), rev)
    ex.prove('C02:dagger.tensor.dom', T.ty_eq(lhs.dom.t, T.ty_concat(a.cod.t, b.cod.t)))
    ex.prove('C02:dagger.tensor.cod', T.ty_eq(lhs.cod.t, T.ty_concat(a.dom.t, b.dom.t)))


lemma('then.assoc', _then_assoc, ('C02',))
lemma('then.unit', _then_unit, ('C02',))
lemma('tensor.assoc', _tensor_assoc, ('C02',))
lemma('tensor.unit', _tensor_unit, ('C02',))
lemma('tensor.whisker', _tensor_whisker, ('C02',))
lemma('tensor.id', _tensor_ids, ('C02',))
lemma('slice.recompose', _slice_recompose, ('C02',))
lemma('dagger.involutive', _dagger_involutive, ('C02',))
lemma('dagger.id', _dagger_id, ('C02',))
lemma('dagger.contravariant', _dagger_contravariant, ('C02',))
lemma('dagger.tensor', _dagger_tensor, ('C02',))


# canaries: statements that are false and must be refuted on every run (vacuity guard, DESIGN 2.7)
def _canary_tensor_commutes(interp):
    ex = interp.ex
    a, b = ex.sym_diagram('a', wf=True), ex.sym_diagram('b', wf=True)
    ex.prove_equal('canary:tensor commutes', _tensor(interp, a, b), _tensor(interp, b, a))


def _canary_then_len(interp):
    ex = interp.ex
    a, b = ex.sym_diagram('a', wf=True), ex.sym_diagram('b', wf=True)
    ex.assume(T.ty_eq(a.cod.t, b.dom.t))
    ex.prove('canary:len(a >> b) == len(a)', _then(interp, a, b).boxes.length() == a.boxes.length())


CANARIES = {
    'canary:tensor.commutes': _canary_tensor_commutes,
    'canary:then.len': _canary_then_len,
}
for _n, _f in CANARIES.items():
    _c = lemma(_n, _f, ())
    _c.canary = True
