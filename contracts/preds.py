"""Ghost predicates used by the contracts: the representation invariant of DESIGN 2.2.

wfA(L): the layers of a cat.Arrow chain from L.dom to L.cod.
wf(d) : |boxes| = |offsets| = |layers|, layers chain from dom to cod, layers[i].box = boxes[i],
        len(layers[i].left) = offsets[i].
Pointwise this is the scan formulation of property C01 (lemma wf_scan in contracts/lemmas.py)."""
import z3
from pyvc import terms as T
from pyvc.values import *  # noqa


def layer_dom(l):
    return l.dom().t


def layer_cod(l):
    return l.cod().t


def prove_wfA(ex, name, arrow):
    boxes = arrow.boxes
    n = boxes.length()

    def empty():
        ex.assume(n == 0)
        ex.prove(name + ':wfA.empty dom==cod', T.ty_eq(arrow.dom.t, arrow.cod.t))
    ex.side(empty)

    def first():
        ex.assume(n > 0)
        l = ex.list_at(boxes, T.I(0))
        ex.prove(name + ':wfA.first layer starts at dom', T.ty_eq(layer_dom(l), arrow.dom.t))
    ex.side(first)

    def last():
        ex.assume(n > 0)
        l = ex.list_at(boxes, z3.simplify(n - 1))
        ex.prove(name + ':wfA.last layer ends at cod', T.ty_eq(layer_cod(l), arrow.cod.t))
    ex.side(last)

    def chain(k):
        a = ex.list_at(boxes, k)
        b = ex.list_at(boxes, z3.simplify(k + 1))
        ex.prove(name + ':wfA.chain cod(layer k)==dom(layer k+1)', T.ty_eq(layer_cod(a), layer_dom(b)))
    ex.forall(z3.simplify(n - 1), chain)


def prove_wf(ex, name, d):
    n = d.boxes.length()
    ex.prove(name + ':wf.len(offsets)==len(boxes)', d.offsets.length() == n)
    ex.prove(name + ':wf.len(layers)==len(boxes)', d.layers.boxes.length() == n)
    ex.prove(name + ':wf.layers.dom==dom', T.ty_eq(d.layers.dom.t, d.dom.t))
    ex.prove(name + ':wf.layers.cod==cod', T.ty_eq(d.layers.cod.t, d.cod.t))

    def pointwise(k):
        l = ex.list_at(d.layers.boxes, k)
        b = ex.list_at(d.boxes, k)
        o = ex.list_at(d.offsets, k)
        ex.prove(name + ':wf.layers[k].box==boxes[k]', l.box.t == b.t)
        ex.prove(name + ':wf.len(layers[k].left)==offsets[k]', T.ty_len(l.left.t) == o.t)
    ex.forall(n, pointwise)
    prove_wfA(ex, name, d.layers)
