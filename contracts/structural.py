"""C10 / C01: the swap of two types as a diagram (typing and well-formedness, all lengths).

monoidal.Diagram.swap(left, right) returns a well-formed diagram left @ right -> right @ left built from Swap boxes
only, for types of any length including empty ones.  The three branches of the real body are verified:
  * left empty: the identity on right;
  * one wire on the left: the scanning constructor is called with boxes [Swap(left, right[i]) ...] at offsets
    0 .. n-1; the contract exhibits the layers in closed form (right[:i], Swap(left, right[i]), right[i+1:]), their
    chain conditions are discharged pointwise, and the acceptance contract of the constructor
    (monoidal.Diagram.__init__[accepts]) says these are the layers it computes;
  * otherwise: two recursive calls (on a shorter left type) under this contract.
That every wire of left ends up, in order, to the right of every wire of right (the wire map of C10) is NOT expressed by
this contract: types are sequences of object names, and the typing clause cannot tell two wires of the same type apart;
it stays with the bounded driver.  The constructors of Swap (monoidal and rigid) establish their class invariant."""
import z3
from pyvc import terms as T
from pyvc.values import *  # noqa
from pyvc.interp import PyRaise, Unsupported
from pyvc.world import Contract, LoopSpec
from .preds import prove_wf
from .core import CONTRACTS, contract


def _swap_box(ex, left, right):
    b = T.mk_swap(left.t, right.t)
    ex.assume(T.bkind(b) == T.KINDS['Swap'])
    ex.assume(T.bdom(b) == T.ty_concat(left.t, right.t))
    ex.assume(T.bcod(b) == T.ty_concat(right.t, left.t))
    ex.assume(T.bleft(b) == left.t)
    ex.assume(T.bright(b) == right.t)
    return VBox(b, extra={'dom': VTy(T.ty_concat(left.t, right.t)), 'cod': VTy(T.ty_concat(right.t, left.t))})


def _make_swap(interp, args, kwargs):
    ex = interp.ex
    left, right = args
    if not ex.branch(z3.And(T.ty_len(left.t) == 1, T.ty_len(right.t) == 1)):
        raise PyRaise('ValueError', 'swap_vs_swaps')
    return _swap_box(ex, left, right)


_SWAP_SPEC = '''
def spec(self, left, right):
    if len(left) != 1 or len(right) != 1:
        raise ValueError
    self.left = left
    self.right = right
    self._name = "Swap({}, {})".format(left, right)
    self._dom = left @ right
    self._cod = right @ left
    self._boxes = [self]
    self._dagger = False
    self._data = None
    self._offsets = [0]
    self._layers = RawArrow(left @ right, right @ left, [RawLayer(left[0:0], self, left[0:0])])
    self.draw_as_wires = True
'''


def _swap_init(cls):
    def params(ex):
        left, right = ex.sym_ty('left'), ex.sym_ty('right')
        ex._sw = (left, right)
        return [VObject(cls), left, right], {}

    def ensures(interp, args, kwargs, obj):
        ex = interp.ex
        left, right = ex._sw
        ex.prove('C10:Swap accepts only one-object types', z3.And(T.ty_len(left.t) == 1, T.ty_len(right.t) == 1))
        ex.prove('C10:Swap.dom == left @ right', T.ty_eq(obj.attrs['_dom'].t, T.ty_concat(left.t, right.t)))
        ex.prove('C10:Swap.cod == right @ left', T.ty_eq(obj.attrs['_cod'].t, T.ty_concat(right.t, left.t)))
        ex.prove('C10:Swap.left', T.ty_eq(obj.attrs['left'].t, left.t))
        ex.prove('C10:Swap.right', T.ty_eq(obj.attrs['right'].t, right.t))

        def side():
            try:
                b = _make_swap(interp, [left, right], {})
            except PyRaise as e:
                ex.prove('call-site contract of Swap accepts what the constructor accepts (raised %s)' % e.exc, False)
                return
            ex.prove('call-site contract of Swap: dom', T.ty_eq(T.bdom(b.t), obj.attrs['_dom'].t))
            ex.prove('call-site contract of Swap: cod', T.ty_eq(T.bcod(b.t), obj.attrs['_cod'].t))
        ex.side(side)

    def on_raise(interp, args, kwargs, exc):
        ex = interp.ex
        left, right = ex._sw
        ex.prove('C10:Swap refuses with ValueError (raised %s)' % exc, z3.BoolVal(exc == 'ValueError'))
        ex.prove('C10:Swap refuses only types that are not single objects',
                 z3.Not(z3.And(T.ty_len(left.t) == 1, T.ty_len(right.t) == 1)))
    contract(cls + '.__init__', is_init=True, params=params, ensures=ensures, on_raise=on_raise, property_ids=('C10', 'C01'),
             spec=_SWAP_SPEC)
    CONTRACTS[cls + '.__init__'].make = _make_swap


_swap_init('monoidal.Swap')
_swap_init('rigid.Swap')


# ---------------------------------------------------------------- Diagram.swap
def _witness(left, right):
    """layers of the one-wire branch in closed form: (right[:i], Swap(left, right[i]), right[i+1:])"""
    def hint(interp, dom, cod, boxes, offsets):
        ex = interp.ex
        n = T.ty_len(right.t)
        tag = T.fresh_name('swapw')
        Lp = z3.Function(tag + '.pre', T.IntS, T.TyS)
        Lm = z3.Function(tag + '.mid', T.IntS, T.TyS)
        Ls = z3.Function(tag + '.suf', T.IntS, T.TyS)

        def elem(i):
            return VLayer(VTy(Lp(i)), VBox(T.mk_swap(left.t, Lm(i))), VTy(Ls(i)))
        base = ex.register_base(BaseList(tag, n, elem, 'layer'))
        # right == pre(i) ++ mid(i) ++ suf(i) with |pre(i)| = i, |mid(i)| = 1: the decomposition of right at i
        ex.add_qhyp(None, lambda i: [(z3.And(0 <= i, i < n),
                                      z3.And(right.t == T.ty_concat(Lp(i), Lm(i), Ls(i)), z3.Length(Lp(i)) == i,
                                             z3.Length(Lm(i)) == 1,
                                             T.bdom(T.mk_swap(left.t, Lm(i))) == T.ty_concat(left.t, Lm(i)),
                                             T.bcod(T.mk_swap(left.t, Lm(i))) == T.ty_concat(Lm(i), left.t)))])
        return VArrow(dom, cod, VList.of_base(base))
    return hint


def _p_swap(ex):
    left, right = ex.sym_ty('left'), ex.sym_ty('right')
    rigid = ex.fork(2) == 1
    ex._swp = (left, right, rigid)
    ex.scan_witness = _witness(left, right)
    kw = {'ar_factory': VClass('rigid.Diagram'), 'swap_factory': VClass('rigid.Swap')} if rigid else {}
    return [left, right], kw


def _e_swap(interp, args, kwargs, result):
    ex = interp.ex
    left, right, rigid = ex._swp
    result = interp.world.as_diagram(result)
    ex.prove('C10:swap.dom == left @ right', T.ty_eq(result.dom.t, T.ty_concat(left.t, right.t)))
    ex.prove('C10:swap.cod == right @ left', T.ty_eq(result.cod.t, T.ty_concat(right.t, left.t)))
    prove_wf(ex, 'C01:swap', result)

    def only_swaps(k):
        b = ex.list_at(result.boxes, k)
        ex.prove('C10:swap consists of Swap boxes only', T.bkind(b.t) == T.KINDS['Swap'])
    ex.forall(result.boxes.length(), only_swaps)


def _abstract_swap2(interp, args, kwargs):
    """call-site contract (also used for the recursive calls): a well-formed diagram of Swap boxes left @ right -> right @ left"""
    ex = interp.ex
    left, right = args[0], args[1]
    d = ex.sym_diagram(T.fresh_name('swap'), wf=True, dom=T.ty_concat(left.t, right.t), cod=T.ty_concat(right.t, left.t),
                       global_inst=True)
    Ll, Lb, Lr = d._fns
    n = d.boxes.length()
    ex.add_qhyp(None, lambda i: [(z3.And(0 <= i, i < n), T.bkind(Lb(i)) == T.KINDS['Swap'])])
    return d


contract('monoidal.Diagram.swap', params=_p_swap, ensures=_e_swap, property_ids=('C10', 'C01'))
CONTRACTS['monoidal.Diagram.swap'].abstract = _abstract_swap2
# rigid.Diagram.swap is one line over monoidal.Diagram.swap with the rigid factories: same call-site contract
CONTRACTS['rigid.Diagram.swap'].abstract = _abstract_swap2


def _p_rswap(ex):
    left, right = ex.sym_ty('left'), ex.sym_ty('right')
    ex._swp = (left, right, True)
    return [left, right], {}


_prev = CONTRACTS['rigid.Diagram.swap'].abstract
contract('rigid.Diagram.swap', params=_p_rswap, ensures=_e_swap, property_ids=('C10', 'C01', 'C18'))
CONTRACTS['rigid.Diagram.swap'].abstract = _prev


from .grammar import _consistency as _tie      # noqa: E402
for _q in ('monoidal.Diagram.swap', 'rigid.Diagram.swap'):
    _tie(_q)


# ---------------------------------------------------------------- monoidal.Functor.__call__ on a swap (C04)
def _functor_swap_branch():
    def params(ex):
        F = VFunctor('F')
        x, y = ex.sym_ty('x'), ex.sym_ty('y')
        ex.assume(z3.And(z3.Length(x.t) == 1, z3.Length(y.t) == 1))          # class invariant of Swap (proved above)
        b = _swap_box(ex, x, y)
        b.extra.update({'left': x, 'right': y})
        ex._fs = (F, x, y)
        return [F, b], {}

    def ensures(interp, args, kwargs, result):
        ex, w = interp.ex, interp.world
        F, x, y = ex._fs
        result = w.as_diagram(result)
        fx, fy = w.functor_ty(interp, F, x.t), w.functor_ty(interp, F, y.t)
        ex.prove('C04:F(Swap(x, y)).dom == F(x @ y)', T.ty_eq(result.dom.t, w.functor_ty(interp, F, T.ty_concat(x.t, y.t))))
        ex.prove('C04:F(Swap(x, y)).cod == F(y @ x)', T.ty_eq(result.cod.t, w.functor_ty(interp, F, T.ty_concat(y.t, x.t))))
        ex.prove('C04:F(Swap(x, y)) is the swap of the images', z3.And(T.ty_eq(result.dom.t, T.ty_concat(fx, fy)),
                                                                      T.ty_eq(result.cod.t, T.ty_concat(fy, fx))))
        prove_wf(ex, 'C01:F(Swap)', result)
    c = Contract('monoidal.Functor.__call__', params=params, ensures=ensures, property_ids=('C04', 'C10', 'C01'))
    c.label = 'monoidal.Functor.__call__[Swap]'
    CONTRACTS['monoidal.Functor.__call__[Swap]'] = c


_functor_swap_branch()


# ---------------------------------------------------------------- monoidal.Diagram.permutation (typing; C10 / C01)
# For every list `perm` and every type `dom`: either ValueError (perm is not a permutation of range(n), or the lengths
# differ) or a well-formed diagram from dom to a type of the same length.  Loop invariant at step i: the first i entries of
# perm are 0 .. i-1 and every value v >= i still occurs at some position >= i (a witness function, carried by hand);
# diagram is well-formed dom -> a type of length n.  Hence perm.index(i) exists, is >= i, and the four slices are in
# range.  WHICH wire goes where (cod == dom permuted by perm) is not stated here: bounded driver.
def _int_list(ex, name, n=None):
    return ex.sym_int_list(name, n)


def _p_perm(ex):
    perm = _int_list(ex, 'perm')
    dom = ex.sym_ty('dom')
    ex._pm = (perm, dom)
    return [perm, dom], {}


def _pm_state(interp, env, k):
    """fresh loop state at step k satisfying the invariant"""
    ex = interp.ex
    perm0, dom = ex._pm
    n = T.ty_len(dom.t)
    P = _int_list(ex, T.fresh_name('perm_k'), n)
    base = P.segs[0][1] if P.segs else None
    where = z3.Function(T.fresh_name('where_k'), T.IntS, T.IntS)
    if base is not None:
        ex.add_qhyp([base], lambda m: [(z3.And(0 <= m, m < k), base._elem(m).t == m)])
    cod = T.fresh('cod_k', T.TyS)
    ex.assume(z3.Length(cod) == n)
    X = ex.sym_diagram(T.fresh_name('perm_d'), wf=True, dom=dom.t, cod=cod, global_inst=True)
    return P, where, X


def _pm_where(ex, P, where, k, n, v):
    """instance of the invariant's second half at value v (k <= v < n assumed by the caller)"""
    p_ = where(v)
    ex.assume(z3.And(k <= p_, p_ < n))
    ex.assume(ex.list_at(P, p_).t == v)
    return p_


def _pm_assume(interp, env, k, seq, at_exit):
    ex = interp.ex
    perm0, dom = ex._pm
    n = T.ty_len(dom.t)
    P, where, X = _pm_state(interp, env, k)
    env.set('perm', P)
    env.set('diagram', X)
    ex._pm_cur = (P, where, k)
    if not at_exit:
        _pm_where(ex, P, where, k, n, k)        # the value searched at this step is still there, at a position >= k


def _pm_check(interp, env, k, label, seq):
    ex = interp.ex
    perm0, dom = ex._pm
    n = T.ty_len(dom.t)
    perm = env.lookup('perm')
    X = interp.world.as_diagram(env.lookup('diagram'))
    ex.prove(label + ':len(perm) == len(dom)', perm.length() == n)
    ex.prove(label + ':diagram.dom == dom', T.ty_eq(X.dom.t, dom.t))
    ex.prove(label + ':len(diagram.cod) == len(dom)', T.ty_len(X.cod.t) == n)
    prove_wf(ex, label + ':diagram', X)

    def prefix():
        m = T.fresh('m', T.IntS)
        ex.assume(z3.And(0 <= m, m < k))
        ex.prove(label + ':perm[m] == m below the step', ex.list_at(perm, m).t == m)
    ex.side(prefix)

    def rest():
        v = T.fresh('v', T.IntS)
        ex.assume(z3.And(k <= v, v < n))
        if T.int_val(k) == 0:
            # entry: from set(range(n)) == set(perm)
            if getattr(ex, 'set_eq_at', None) is None:
                ex.prove(label + ':the loop is entered only after the test set(range(n)) == set(perm)', False)
                return
            p_ = ex.set_eq_at(v)
            w = p_
        else:
            P, where, k0 = ex._pm_cur
            p_ = _pm_where(ex, P, where, k0, n, v)
            j = env.lookup('j').t
            w = z3.If(p_ < j, p_ + 1, p_)
        ex.prove(label + ':every later value still occurs at a later position (range)', z3.And(k <= w, w < n))
        ex.prove(label + ':every later value still occurs at a later position (value)', ex.list_at(perm, w).t == v)
    ex.side(rest)


def _e_perm(interp, args, kwargs, result):
    ex = interp.ex
    perm, dom = ex._pm
    result = interp.world.as_diagram(result)
    ex.prove('C10:permutation.dom == dom', T.ty_eq(result.dom.t, dom.t))
    ex.prove('C10:len(permutation.cod) == len(dom)', T.ty_len(result.cod.t) == T.ty_len(dom.t))
    prove_wf(ex, 'C01:permutation', result)
    ex.prove('C10:permutation accepts only lists of the length of dom', perm.length() == T.ty_len(dom.t))
    ex.prove('C10:permutation accepts only permutations of range(n)', getattr(ex, 'set_eq_flag', z3.BoolVal(False)))


def _r_perm(interp, args, kwargs, exc):
    ex = interp.ex
    perm, dom = ex._pm
    ex.prove('C10:permutation refuses with ValueError only (raised %s)' % exc, z3.BoolVal(exc == 'ValueError'))
    ex.prove('C10:permutation refuses only non-permutations or a wrong length',
             z3.Or(z3.Not(getattr(ex, 'set_eq_flag', z3.BoolVal(True))), perm.length() != T.ty_len(dom.t)))


contract('monoidal.Diagram.permutation', params=_p_perm, ensures=_e_perm, on_raise=_r_perm, property_ids=('C10', 'C01'),
         loops={0: LoopSpec(assume=_pm_assume, check=_pm_check)})
