"""C04: monoidal.Functor.__call__ on diagrams (the layer-by-layer whiskering loop with its type scan).

Model: a functor is an object map FT (uninterpreted on sequences, homomorphism instances where used) and a box map
to well-formed diagrams img(b) : FT(dom b) -> FT(cod b) -- the precondition "user images are well typed".  Proved for
all functors and all well-formed diagrams of any length: the loop never raises (every whiskered composition is well
typed), the image is well-formed, image.dom = F(dom), image.cod = F(cod).  Functoriality as `==` between images is
bounded (rtc/drivers/C04.py)."""
import z3
from pyvc import terms as T
from pyvc.values import *  # noqa
from pyvc.world import Contract, LoopSpec, closed_form, spec_eval
from .preds import prove_wf
from .core import CONTRACTS, contract


def _p_functor_call(ex):
    F = VFunctor('F')
    d = ex.sym_diagram('d', wf=True, global_inst=True)
    return [F, d], {}


def _scan_at(interp, d, k):
    """the type scanned after k boxes: dom of layer k, or cod at the end"""
    ex = interp.ex
    n = d.boxes.length()
    if ex.branch(k < n):
        return ex.list_at(d.layers.boxes, k).dom()
    return d.cod


def _loop_assume(interp, env, k, seq=None, at_exit=False):
    ex = interp.ex
    F, d = env.lookup('self'), env.lookup('diagram')
    scan = _scan_at(interp, d, k)
    w = interp.world
    X = ex.sym_diagram(T.fresh_name('img'), wf=True, dom=w.functor_ty(interp, F, d.dom.t),
                       cod=w.functor_ty(interp, F, scan.t), global_inst=True)
    env.set('result', X)
    env.set('scan', scan)


def _loop_check(interp, env, k, label, seq=None):
    ex = interp.ex
    F, d = env.lookup('self'), env.lookup('diagram')
    w = interp.world
    X = w.as_diagram(env.lookup('result'))
    scan = env.lookup('scan')
    want = _scan_at(interp, d, k)
    ex.prove(label + ':scan is the type after k boxes', T.ty_eq(scan.t, want.t))
    ex.prove(label + ':result.dom == F(dom)', T.ty_eq(X.dom.t, w.functor_ty(interp, F, d.dom.t)))
    ex.prove(label + ':result.cod == F(scan)', T.ty_eq(X.cod.t, w.functor_ty(interp, F, scan.t)))
    prove_wf(ex, label, X)


def _e_functor_call(interp, args, kwargs, result):
    ex = interp.ex
    F, d = args
    w = interp.world
    result = w.as_diagram(result)
    ex.prove('C04:image.dom == F(dom)', T.ty_eq(result.dom.t, w.functor_ty(interp, F, d.dom.t)))
    ex.prove('C04:image.cod == F(cod)', T.ty_eq(result.cod.t, w.functor_ty(interp, F, d.cod.t)))
    prove_wf(ex, 'C01:functor image', result)


contract('monoidal.Functor.__call__', params=_p_functor_call, ensures=_e_functor_call,
         loops={0: LoopSpec(assume=_loop_assume, check=_loop_check)}, property_ids=('C04', 'C01'))
