"""C04: monoidal.Functor.__call__ on diagrams (the layer-by-layer whiskering loop with its type scan).

Model: a functor is an object map FT (uninterpreted on sequences, homomorphism instances where used) and a box map
to well-formed diagrams img(b) : FT(dom b) -> FT(cod b) -- the precondition "user images are well typed".  Proved for
all functors and all well-formed diagrams of any length: the loop never raises (every whiskered composition is well
typed), the image is well-formed, image.dom = F(dom), image.cod = F(cod).  Functoriality as `==` between images is
bounded (rtc/drivers/C04.py)."""
import z3
from pyvc import terms as T
from pyvc.values import *  # noqa
from pyvc.world import Contract, LoopSpec, closed_form, spec_eval
from .preds import prove_wf
from .core import CONTRACTS, contract


def _p_functor_call(ex):
    F = VFunctor('F')
    d = ex.sym_diagram('d', wf=True, global_inst=True)
    return [F, d], {}


def _scan_at(interp, d, k):
    """the type scanned after k boxes: dom of layer k, or cod at the end"""
    ex = interp.ex
    n = d.boxes.length()
    if ex.branch(k < n):
        return ex.list_at(d.layers.boxes, k).dom()
    return d.cod


def _loop_assume(interp, env, k, seq=None, at_exit=False):
    ex = interp.ex
    F, d = env.lookup('self'), env.lookup('diagram')
    scan = _scan_at(interp, d, k)
    w = interp.world
    X = ex.sym_diagram(T.fresh_name('img'), wf=True, dom=w.functor_ty(interp, F, d.dom.t),
                       cod=w.functor_ty(interp, F, scan.t), global_inst=True)
    env.set('result', X)
    env.set('scan', scan)


def _loop_check(interp, env, k, label, seq=None):
    ex = interp.ex
    F, d = env.lookup('self'), env.lookup('diagram')
    w = interp.world
    X = w.as_diagram(env.lookup('result'))
    scan = env.lookup('scan')
    want = _scan_at(interp, d, k)
    ex.prove(label + ':scan is the type after k boxes', T.ty_eq(scan.t, want.t))
    ex.prove(label + ':result.dom == F(dom)', T.ty_eq(X.dom.t, w.functor_ty(interp, F, d.dom.t)))
    ex.prove(label + ':result.cod == F(scan)', T.ty_eq(X.cod.t, w.functor_ty(interp, F, scan.t)))
    prove_wf(ex, label, X)


def _e_functor_call(interp, args, kwargs, result):
    ex = interp.ex
    F, d = args
    w = interp.world
    result = w.as_diagram(result)
    ex.prove('C04:image.dom == F(dom)', T.ty_eq(result.dom.t, w.functor_ty(interp, F, d.dom.t)))
    ex.prove('C04:image.cod == F(cod)', T.ty_eq(result.cod.t, w.functor_ty(interp, F, d.cod.t)))
    prove_wf(ex, 'C01:functor image', result)


contract('monoidal.Functor.__call__', params=_p_functor_call, ensures=_e_functor_call,
         loops={0: LoopSpec(assume=_loop_assume, check=_loop_check)}, property_ids=('C04', 'C01'))


# ---------------------------------------------------------------- the object map: type branch of monoidal.Functor.__call__
# F on a type is DEFINED from its values on one-object types by snoc-recursion:  D(()) = (),  D(s ++ (x,)) = D(s) ++ F.ob[(x,)].
# (1) the real branch `ob_factory().tensor(*[self.ob[type(t)(x)] for x in t])` computes D(t): the list of images is
#     [F.ob[(t[i],)]] in order, the result is its flattening, and flat(k) == D(t[:k]) by induction on k (base and step below; L-ind);
# (2) D is a monoid homomorphism, D(a ++ b) == D(a) ++ D(b), by snoc-induction on b (lemma functor.homomorphism).
# world.functor_ty instantiates exactly these facts at call sites.
from pyvc.interp import PyRaise, Unsupported      # noqa: E402


def _D_unit(ex, F):
    ex.assume(F.FT(T.EMPTY) == T.EMPTY)


def _D_snoc(ex, F, s, x):
    """the defining equation at (s, x)"""
    ex.assume(F.FT(T.ty_concat(s, z3.Unit(x))) == T.ty_concat(F.FT(s), F.FT(z3.Unit(x))))


def _p_functor_ty(ex):
    ex.nth_by_parts = True
    F = VFunctor('F')
    t = ex.sym_ty('t')
    ex._ft = (F, t)
    return [F, t], {}


def _e_functor_ty(interp, args, kwargs, result):
    ex = interp.ex
    F, t = ex._ft
    n = T.ty_len(t.t)
    flats = list(getattr(ex, '_flats', {}).values())
    if not isinstance(result, VTy) or len(flats) != 1:
        ex.prove('C04:F(type) is the flattening of one list of images', False)
        return
    fn, imgs, get = flats[0]
    ex.prove('C04:F(t) is the flattening of the list of images', T.ty_eq(result.t, fn(imgs.length())))
    ex.prove('C04:one image per object', imgs.length() == n)

    def each():
        k = T.fresh('k', T.IntS)
        ex.assume(z3.And(0 <= k, k < n))
        img = get(k)
        x = ex.ty_at(t, k)
        ex.prove('C04:the k-th image is F.ob of the k-th object', isinstance(img, VTy) and T.ty_eq(img.t, F.FT(z3.Unit(x.t))))
    ex.side(each)

    # flat(k) == D(t[:k]) by induction on k
    def base():
        _D_unit(ex, F)
        ex.prove('C04:F(t) == D(t), base: flat(0) == D(())', T.ty_eq(fn(T.I(0)), F.FT(T.EMPTY)))
    ex.side(base)

    def step():
        k = T.fresh('k', T.IntS)
        ex.assume(z3.And(0 <= k, k < n))
        x = ex.ty_at(t, k)
        pre = T.fresh('pre_k', T.TyS)               # t[:k]
        suf = T.fresh('suf_k', T.TyS)
        ex.assume(t.t == T.ty_concat(pre, z3.Unit(x.t), suf))
        ex.assume(z3.Length(pre) == k)
        ex.assume(fn(k) == F.FT(pre))               # induction hypothesis
        ex.flat_step(flats[0], k)
        _D_snoc(ex, F, pre, x.t)
        ex.prove('C04:F(t) == D(t), step: flat(k + 1) == D(t[:k + 1])',
                 T.ty_eq(fn(k + 1), F.FT(T.ty_concat(pre, z3.Unit(x.t)))))
    ex.side(step)


_c = Contract('monoidal.Functor.__call__', params=_p_functor_ty, ensures=_e_functor_ty, property_ids=('C04', 'C01'))
_c.label = 'monoidal.Functor.__call__[Ty]'
CONTRACTS['monoidal.Functor.__call__[Ty]'] = _c


def _lemma_homomorphism(interp):
    ex = interp.ex
    F = VFunctor('F')
    a, b = z3.Const('a', T.TyS), z3.Const('b', T.TyS)
    x = z3.Const('x', T.Ob)
    _D_unit(ex, F)
    ex.prove('C04:D(a ++ ()) == D(a) ++ D(())   (base)', T.ty_eq(F.FT(T.ty_concat(a, T.EMPTY)), T.ty_concat(F.FT(a), F.FT(T.EMPTY))))
    ex.assume(F.FT(T.ty_concat(a, b)) == T.ty_concat(F.FT(a), F.FT(b)))          # induction hypothesis at b
    _D_snoc(ex, F, T.ty_concat(a, b), x)
    _D_snoc(ex, F, b, x)
    ex.prove('C04:D(a ++ b ++ (x,)) == D(a) ++ D(b ++ (x,))   (step)',
             T.ty_eq(F.FT(T.ty_concat(a, b, z3.Unit(x))), T.ty_concat(F.FT(a), F.FT(T.ty_concat(b, z3.Unit(x))))))


from .core import lemma      # noqa: E402
lemma('functor.homomorphism', _lemma_homomorphism, ('C04', 'C18', 'C19'))


# ---------------------------------------------------------------- the same for biclosed.Functor (types of several objects)
def _p_bfunctor_ty(ex):
    ex.nth_by_parts = True
    F = VFunctor('F', ar_factory='rigid.Diagram')
    F.slash = True
    t = ex.sym_ty('t')
    ex.assume(z3.Length(t.t) > 1)
    # a slash type is ONE object (class invariant of Over / Under, established where they are built): a longer type is none
    ex.assume(z3.And(z3.Not(T.ty_over(t.t)), z3.Not(T.ty_under(t.t))))
    ex._ft = (F, t)
    return [F, t], {}


def _e_bfunctor_ty(interp, args, kwargs, result):
    ex = interp.ex
    F, t = ex._ft
    n = T.ty_len(t.t)
    flats = list(getattr(ex, '_flats', {}).values())
    if not isinstance(result, VTy) or len(flats) != 1:
        ex.prove('C18:F(type of several objects) is the flattening of one list of images', False)
        return
    fn, imgs, get = flats[0]
    ex.prove('C18:F(t) is the flattening of the list of images', T.ty_eq(result.t, fn(imgs.length())))
    ex.prove('C18:one image per object', imgs.length() == n)

    def step():
        k = T.fresh('k', T.IntS)
        ex.assume(z3.And(0 <= k, k < n))
        x = ex.ty_at(t, k)
        img = get(k)
        ex.prove('C18:the k-th image is F of the k-th one-object type',
                 isinstance(img, VTy) and T.ty_eq(img.t, F.FT(z3.Unit(x.t))))
        pre, suf = T.fresh('pre_k', T.TyS), T.fresh('suf_k', T.TyS)
        ex.assume(t.t == T.ty_concat(pre, z3.Unit(x.t), suf))
        ex.assume(z3.Length(pre) == k)
        ex.assume(fn(k) == F.FT(pre))               # induction hypothesis
        ex.flat_step(flats[0], k)
        ex.assume(T.ty_eq(img.t, F.FT(z3.Unit(x.t))) if isinstance(img, VTy) else z3.BoolVal(True))   # proved just above
        _D_snoc(ex, F, pre, x.t)
        ex.prove('C18:F(t) == D(t), step: flat(k + 1) == D(t[:k + 1])',
                 T.ty_eq(fn(k + 1), F.FT(T.ty_concat(pre, z3.Unit(x.t)))))
    ex.side(step)

    def base():
        _D_unit(ex, F)
        ex.prove('C18:F(t) == D(t), base: flat(0) == D(())', T.ty_eq(fn(T.I(0)), F.FT(T.EMPTY)))
    ex.side(base)


_c = Contract('biclosed.Functor.__call__', params=_p_bfunctor_ty, ensures=_e_bfunctor_ty, property_ids=('C18', 'C04'))
_c.label = 'biclosed.Functor.__call__[Ty]'
CONTRACTS['biclosed.Functor.__call__[Ty]'] = _c


# ---------------------------------------------------------------- rigid.Functor: objects with a winding number
# The image of an object x = (name, z) is the z-fold adjoint of the image of the basic object (name, 0):
#   IMG(x) = adjpow(F.ob[((name, 0),)], z),  adjpow(T, 0) = T,  adjpow(T, z - 1) = adjpow(T, z).l (z <= 0),  adjpow(T, z + 1) = adjpow(T, z).r (z >= 0)
# (1) the local function `adjoint` of rigid.Functor.__call__ computes IMG(x) (two loops, invariant result == adjpow(B, -+k));
# (2) the type branch computes D_r(t), the snoc-recursion over IMG, as for monoidal functors;
# (3) lemmas: IMG(x.l) == IMG(x).l, IMG(x.r) == IMG(x).r (object level), and D_r(t.l) == D_r(t).l, D_r(t.r) == D_r(t).r by
#     snoc-induction from (3, objects), the homomorphism lemma and the anti-homomorphism of adjoints.
from pyvc.world import World      # noqa: E402
from pyvc.interp import Interp      # noqa: E402


def _rF():
    F = VFunctor('F', ar_factory='rigid.Diagram')
    return F


def _base_img(ex, F, x):
    """F.ob[((name x, 0),)]"""
    b = T.mk_ob(T.ob_name(x), T.I(0))
    ex.assume(T.ob_name(b) == T.ob_name(x))
    ex.assume(T.ob_z(b) == 0)
    return F.FT(z3.Unit(b))


def _IMG(ex, F, x):
    return T.adjpow(_base_img(ex, F, x), T.ob_z(x))


def _adjpow_def(interp, B, z):
    """the defining equations of adjpow at (B, z)"""
    ex, w = interp.ex, interp.world
    ex.assume(T.adjpow(B, T.I(0)) == B)
    ex.assume(z3.Implies(z <= 0, T.adjpow(B, z - 1) == w.ty_adjoint(interp, T.adjpow(B, z), 'l')))
    ex.assume(z3.Implies(z >= 0, T.adjpow(B, z + 1) == w.ty_adjoint(interp, T.adjpow(B, z), 'r')))


def _p_adjoint_closure(ex):
    F = _rF()
    x = z3.Const('x', T.Ob)
    ex._adj = (F, x)
    return [VOb(x)], {}


def _adj_loop(sign):
    def assume(interp, env, k, seq, at_exit):
        ex = interp.ex
        F, x = ex._adj
        B = _base_img(ex, F, x)
        env.set('result', VTy(T.adjpow(B, sign * k), cls='rigid'))

    def check(interp, env, k, label, seq):
        ex = interp.ex
        F, x = ex._adj
        B = _base_img(ex, F, x)
        _adjpow_def(interp, B, z3.simplify(sign * (k - 1)) if T.int_val(k) != 0 else T.I(0))
        cur = env.lookup('result')
        ex.prove(label + ':result is the %s-fold %s adjoint of the basic image' % ('k', 'left' if sign < 0 else 'right'),
                 isinstance(cur, VTy) and T.ty_eq(cur.t, T.adjpow(B, sign * k)))
    return LoopSpec(assume=assume, check=check)


def _e_adjoint_closure(interp, args, kwargs, result):
    ex = interp.ex
    F, x = ex._adj
    # L-ob: an object is determined by (name, z)
    b = T.mk_ob(T.ob_name(x), T.I(0))
    ex.assume(z3.Implies(T.ob_z(x) == 0, x == b))
    B = _base_img(ex, F, x)
    _adjpow_def(interp, B, T.I(0))
    ex.prove('C04:the image of an object is the z-fold adjoint of the image of its basic object',
             isinstance(result, VTy) and T.ty_eq(result.t, T.adjpow(B, T.ob_z(x))))


_c = Contract('rigid.Functor.__call__.<locals>.adjoint', params=_p_adjoint_closure, ensures=_e_adjoint_closure,
              loops={0: _adj_loop(-1), 1: _adj_loop(1)}, property_ids=('C04', 'C18', 'C01'))
_c.closure_env = None      # set per path below (needs the functor of the path)
CONTRACTS['rigid.Functor.__call__.<locals>.adjoint'] = _c


def _closure_env_adjoint(ex):
    F, x = ex._adj
    t = VTy(z3.Const('diagram', T.TyS), cls='rigid')
    return {'self': F, 'diagram': t}


_c.closure_env_fn = _closure_env_adjoint


def _abstract_adjoint(interp, args, kwargs):
    """call-site contract of the local function: IMG(x)"""
    ex = interp.ex
    F = getattr(ex, '_cur_functor', None)
    x = args[0]
    if F is None or not isinstance(x, VOb):
        raise Unsupported('adjoint(obj) outside the type branch of a rigid functor')
    return VTy(_IMG(ex, F, x.t), cls='rigid')


_c.abstract = _abstract_adjoint


def _p_rfunctor_ty(ex):
    ex.nth_by_parts = True
    F = _rF()
    t = VTy(z3.Const('t', T.TyS), cls='rigid')
    ex._ft = (F, t)
    ex._cur_functor = F
    return [F, t], {}


def _e_rfunctor_ty(interp, args, kwargs, result):
    ex = interp.ex
    F, t = ex._ft
    n = T.ty_len(t.t)
    flats = list(getattr(ex, '_flats', {}).values())
    if not isinstance(result, VTy) or len(flats) != 1:
        ex.prove('C04:F(type) is the flattening of one list of images', False)
        return
    fn, imgs, get = flats[0]
    ex.prove('C04:F(t) is the flattening of the list of images', T.ty_eq(result.t, fn(imgs.length())))
    ex.prove('C04:one image per object', imgs.length() == n)

    def step():
        k = T.fresh('k', T.IntS)
        ex.assume(z3.And(0 <= k, k < n))
        x = ex.ty_at(t, k)
        img = get(k)
        want = _IMG(ex, F, x.t)
        ex.prove('C04:the k-th image is the z-fold adjoint of the basic image of the k-th object',
                 isinstance(img, VTy) and T.ty_eq(img.t, want))
        pre, suf = T.fresh('pre_k', T.TyS), T.fresh('suf_k', T.TyS)
        ex.assume(t.t == T.ty_concat(pre, z3.Unit(x.t), suf))
        ex.assume(z3.Length(pre) == k)
        ex.assume(fn(k) == F.FT(pre))               # induction hypothesis
        ex.flat_step(flats[0], k)
        if isinstance(img, VTy):
            ex.assume(T.ty_eq(img.t, want))         # proved just above
        # D_r's defining equation at (pre, x), with IMG(x) for the image of the one-object type
        ex.assume(F.FT(T.ty_concat(pre, z3.Unit(x.t))) == T.ty_concat(F.FT(pre), want))
        ex.prove('C04:F(t) == D(t), step: flat(k + 1) == D(t[:k + 1])',
                 T.ty_eq(fn(k + 1), F.FT(T.ty_concat(pre, z3.Unit(x.t)))))
    ex.side(step)

    def base():
        _D_unit(ex, F)
        ex.prove('C04:F(t) == D(t), base: flat(0) == D(())', T.ty_eq(fn(T.I(0)), F.FT(T.EMPTY)))
    ex.side(base)


_c = Contract('rigid.Functor.__call__', params=_p_rfunctor_ty, ensures=_e_rfunctor_ty, property_ids=('C04', 'C18', 'C01'))
_c.label = 'rigid.Functor.__call__[Ty]'
CONTRACTS['rigid.Functor.__call__[Ty]'] = _c


def _ob_facts(ex, x, y, delta):
    """y = x.l (delta -1) / x.r (delta +1): call-site contract of rigid.Ob.l / .r"""
    ex.assume(T.ob_name(y) == T.ob_name(x))
    ex.assume(T.ob_z(y) == T.ob_z(x) + delta)


def _lemma_adjoint_object(side):
    delta = -1 if side == 'l' else 1

    def run(interp):
        ex, w = interp.ex, interp.world
        F = _rF()
        x = z3.Const('x', T.Ob)
        y = (T.ob_l if side == 'l' else T.ob_r)(x)
        _ob_facts(ex, x, y, delta)
        B = _base_img(ex, F, x)
        By = _base_img(ex, F, y)            # same term: the basic object only depends on the name
        z = T.ob_z(x)
        _adjpow_def(interp, B, z)
        _adjpow_def(interp, B, z + delta)
        ex.prove('C04:IMG(x.%s) == IMG(x).%s' % (side, side),
                 T.ty_eq(T.adjpow(By, T.ob_z(y)), w.ty_adjoint(interp, T.adjpow(B, z), side)))
    return run


def _lemma_adjoint_type(side):
    def run(interp):
        ex, w = interp.ex, interp.world
        F = _rF()
        s_, x = z3.Const('s', T.TyS), z3.Const('x', T.Ob)
        y = (T.ob_l if side == 'l' else T.ob_r)(x)
        adj = lambda t: w.ty_adjoint(interp, t, side)      # noqa: E731
        _D_unit(ex, F)
        ex.prove('C04:D(().%s) == D(()).%s   (base)' % (side, side), T.ty_eq(F.FT(adj(T.EMPTY)), adj(F.FT(T.EMPTY))))
        # step: t = s ++ (x,)
        ux, uy = z3.Unit(x), z3.Unit(y)
        ex.assume(adj(ux) == uy)                                       # rigid.Ty.l / .r on a one-object type (pointwise contract)
        t = T.ty_concat(s_, ux)
        ex.assume(F.FT(adj(s_)) == adj(F.FT(s_)))                       # induction hypothesis at s
        ex.assume(F.FT(uy) == adj(F.FT(ux)))                            # lemma functor.adjoint.object
        ex.assume(F.FT(T.ty_concat(uy, adj(s_))) == T.ty_concat(F.FT(uy), F.FT(adj(s_))))   # lemma functor.homomorphism
        ex.assume(F.FT(t) == T.ty_concat(F.FT(s_), F.FT(ux)))           # defining equation of D at (s, x)
        lhs = F.FT(adj(t))              # adj(t) is instantiated as adj(ux) ++ adj(s) by ty_adjoint (anti-homomorphism lemma)
        rhs = adj(F.FT(t))
        ex.assume(rhs == adj(T.ty_concat(F.FT(s_), F.FT(ux))))
        ex.prove('C04:D((s ++ (x,)).%s) == D(s ++ (x,)).%s   (step)' % (side, side), T.ty_eq(lhs, rhs))
    return run


for _s in ('l', 'r'):
    lemma('functor.adjoint.object.' + _s, _lemma_adjoint_object(_s), ('C04', 'C18'))
    lemma('functor.adjoint.type.' + _s, _lemma_adjoint_type(_s), ('C04', 'C18'))
