"""Contracts of the free-category core: cat.Arrow, monoidal.Layer / Diagram / Id (sidecar; /repo untouched).

Each `spec` is the functional contract of the real function (what callers may rely on) written in
the verified Python subset plus the Raw* record constructors; the real body is re-verified against
it on every run.  `ensures` adds the property-level postconditions (taken from properties.jsonl)."""
import z3
from pyvc import terms as T
from pyvc.values import *  # noqa
from pyvc.world import Contract, LoopSpec, closed_form, spec_eval
from .preds import prove_wf, prove_wfA, layer_dom, layer_cod

CONTRACTS = {}


def contract(*a, **k):
    c = Contract(*a, **k)
    CONTRACTS[c.qualname] = c
    return c


# ---------------------------------------------------------------- cat.Arrow

contract('cat.Arrow.__init__', is_init=True, property_ids=('C01',), spec='''
def spec(self, dom, cod, boxes, _scan=True):
    if _scan:
        check_arrow_scan(dom, cod, boxes)
    self._dom = dom
    self._cod = cod
    self._boxes = boxes
''', params=lambda ex: ([VObject('cat.Arrow'), ex.sym_ty('dom'), ex.sym_ty('cod'),
                         ex.sym_arrow('a', wf=False).boxes], {'_scan': VBool(False)}))

contract('cat.Id.__init__', is_init=True, property_ids=('C01', 'C02'), spec='''
def spec(self, dom):
    self._dom = dom
    self._cod = dom
    self._boxes = []
''', params=lambda ex: ([VObject('cat.Id'), ex.sym_ty('dom')], {}))

def _p_cat_box_init(ex):
    kw = [{}, {'data': VVal(z3.Const('data', T.ValS)), '_dagger': ex.sym_bool('flag')}][ex.fork(2)]
    return [VObject('cat.Box'), VVal(z3.Const('name', T.ValS)), ex.sym_ty('dom'), ex.sym_ty('cod')], kw


contract('cat.Box.__init__', is_init=True, property_ids=('C01', 'C02'), spec='''
def spec(self, name, dom, cod, **params):
    self._name = name
    self._dom = dom
    self._cod = cod
    self._boxes = [self]
    self._dagger = params.get("_dagger", False)
    self._data = params.get("data", None)
''', params=_p_cat_box_init)


def _p_then(ex):
    return [ex.sym_arrow('self', wf=False), ex.sym_arrow('other', wf=False)], {}


def _e_then(interp, args, kwargs, result):
    """C01: composition of well-formed layer arrows is well-formed (wf inputs assumed on a side branch)"""
    pass


contract('cat.Arrow.then', property_ids=('C01', 'C02'), spec='''
def spec(self, other):
    if self.cod != other.dom:
        raise AxiomError
    return RawArrow(self.dom, other.cod, self.boxes + other.boxes)
''', params=_p_then)


def _p_arrow_getitem(ex):
    self = ex.sym_arrow('self', wf=False)
    v = ex.fork(5)
    if v == 0:
        key = VSlice(_opt_int(ex, 'start'), _opt_int(ex, 'stop'), NONE)
    elif v == 1:
        key = VSlice(NONE, NONE, VInt(-1))
    elif v == 2:
        key = VSlice(_opt_int(ex, 'start'), _opt_int(ex, 'stop'), VInt(-1))      # reversed slice with bounds
    elif v == 3:
        step = ex.sym_int('step')                                                 # any other step is refused
        ex.assume(z3.And(step.t != 1, step.t != -1, step.t != 0))
        key = VSlice(_opt_int(ex, 'start'), _opt_int(ex, 'stop'), step)
    else:
        key = ex.sym_int('key')
    ex._gi = (self, key)
    return [self, key], {}


def _opt_int(ex, name):
    if ex.fork(2) == 0:
        return NONE
    return ex.sym_int(name)


def _e_arrow_getitem(interp, args, kwargs, result):
    """C01 (slicing): every slice of a well-typed arrow is well-typed -- including reversed slices with bounds"""
    ex = interp.ex
    self, key = ex._gi
    if not isinstance(key, VSlice) or not isinstance(result, VArrow):
        return

    def side():
        ex.assume_wfA(self)
        prove_wfA(ex, 'C01:slice of a well-typed arrow', result)
    ex.side(side)


contract('cat.Arrow.__getitem__', property_ids=('C01', 'C02'), spec='''
def spec(self, key):
    if isinstance(key, slice):
        if key.step == -1:
            reverse = RawArrow(self.cod, self.dom, [box[::-1] for box in self.boxes[::-1]])
            if key.start is None and key.stop is None:
                return reverse
            start, stop, _ = key.indices(len(self))
            return reverse[len(self) - 1 - start:len(self) - 1 - stop]
        if (key.step or 1) != 1:
            raise IndexError
        boxes = self.boxes[key]
        if not boxes:
            if (key.start or 0) >= len(self):
                return RawArrow(self.cod, self.cod, [])
            if (key.start or 0) <= -len(self):
                return RawArrow(self.dom, self.dom, [])
            return RawArrow(self.boxes[key.start or 0].dom, self.boxes[key.start or 0].dom, [])
        return RawArrow(boxes[0].dom, boxes[-1].cod, boxes)
    return self.boxes[key]
''', params=_p_arrow_getitem, ensures=_e_arrow_getitem, on_raise=lambda *a: None)


# ---------------------------------------------------------------- monoidal.Layer

contract('monoidal.Layer.__init__', is_init=True, property_ids=('C01',), spec='''
def spec(self, left, box, right):
    self._left = left
    self._box = box
    self._right = right
    self._dom = left @ box.dom @ right
    self._cod = left @ box.cod @ right
''', params=lambda ex: ([VObject('monoidal.Layer'), ex.sym_ty('left'), ex.sym_box('box'), ex.sym_ty('right')], {}))


# ---------------------------------------------------------------- monoidal.Diagram

def _p_diagram_init_fast(ex):
    d = ex.sym_diagram('d', wf=False)
    return [VObject('monoidal.Diagram'), d.dom, d.cod, d.boxes, d.offsets], {'layers': d.layers}


contract('monoidal.Diagram.__init__', is_init=True, property_ids=('C01',), spec='''
def spec(self, dom, cod, boxes, offsets, layers=None):
    if len(boxes) != len(offsets):
        raise ValueError
    if layers is None:
        layers = scan_layers(dom, cod, boxes, offsets)
    self._layers = layers
    self._offsets = tuple(offsets)
    self._dom = dom
    self._cod = cod
    self._boxes = boxes
''', params=_p_diagram_init_fast)

contract('monoidal.Id.__init__', is_init=True, property_ids=('C01', 'C02'), spec='''
def spec(self, dom=EmptyTy()):
    self._dom = dom
    self._cod = dom
    self._boxes = []
    self._offsets = ()
    self._layers = RawArrow(dom, dom, [])
''', params=lambda ex: ([VObject('monoidal.Id')] + ([ex.sym_ty('dom')] if ex.fork(2) == 0 else []), {}))


# ---------------------------------------------------------------- monoidal.Diagram.then / tensor

def _p_two_diagrams(ex):
    self = ex.sym_diagram('self', wf=True)
    if ex.fork(2) == 0:
        other = ex.sym_diagram('other', wf=True)
    else:
        other = ex.sym_box('other')
        # formal sums take the cat.Sum / monoidal.Sum route (contracts of C02, not this one)
        ex.assume(T.bkind(other.t) != T.KINDS['Sum'])
    return [self, other], {}


def _e_then(interp, args, kwargs, result):
    ex = interp.ex
    self, other = args
    other = interp.world.as_diagram(other)
    ex.prove('C02:then.dom', T.ty_eq(result.dom.t, self.dom.t))
    ex.prove('C02:then.cod', T.ty_eq(result.cod.t, other.cod.t))
    ex.prove('C02:then.len', result.boxes.length() == self.boxes.length() + other.boxes.length())
    prove_wf(ex, 'C01:then', result)


def _r_then(interp, args, kwargs, exc):
    """ill-typed composition is refused: AxiomError only if self.cod != other.dom"""
    ex = interp.ex
    self, other = args
    other = interp.world.as_diagram(other)
    ex.prove('C01:then.refuses only ill-typed (raised %s)' % exc,
             z3.And(z3.BoolVal(exc == 'AxiomError'), z3.Not(T.ty_eq(self.cod.t, other.dom.t))))


contract('monoidal.Diagram.then', property_ids=('C01', 'C02'), spec='''
def spec(self, other):
    other = as_diagram(other)
    layers = self.layers >> other.layers
    return RawDiagram(self.dom, other.cod, self.boxes + other.boxes, self.offsets + other.offsets, layers)
''', params=_p_two_diagrams, ensures=_e_then, on_raise=_r_then)


def _e_then_refuses(interp, args, kwargs, result):
    pass


_TENSOR_L0 = closed_form({'layers': """RawArrow(
    self.dom @ other.dom,
    (self.layers.boxes[k - 1].cod @ other.dom) if k > 0 else (self.dom @ other.dom),
    [RawLayer(l._left, l._box, l._right @ other.dom) for l in self.layers.boxes[:k]])"""})

_TENSOR_L1 = closed_form({'layers': """RawArrow(
    self.dom @ other.dom,
    (self.cod @ other.layers.boxes[k - 1].cod) if k > 0 else (
        (self.layers.boxes[len(self) - 1].cod @ other.dom) if len(self) > 0 else (self.dom @ other.dom)),
    [RawLayer(l._left, l._box, l._right @ other.dom) for l in self.layers.boxes]
    + [RawLayer(self.cod @ l._left, l._box, l._right) for l in other.layers.boxes[:k]])"""})


def _e_tensor(interp, args, kwargs, result):
    ex = interp.ex
    self, other = args
    other = interp.world.as_diagram(other)
    ex.prove('C02:tensor.dom', T.ty_eq(result.dom.t, T.ty_concat(self.dom.t, other.dom.t)))
    ex.prove('C02:tensor.cod', T.ty_eq(result.cod.t, T.ty_concat(self.cod.t, other.cod.t)))
    prove_wf(ex, 'C01:tensor', result)


contract('monoidal.Diagram.tensor', property_ids=('C01', 'C02'), spec='''
def spec(self, other):
    other = as_diagram(other)
    dom, cod = self.dom @ other.dom, self.cod @ other.cod
    mid = (self.layers.boxes[len(self) - 1].cod @ other.dom) if len(self) > 0 else dom
    end = (self.cod @ other.layers.boxes[len(other) - 1].cod) if len(other) > 0 else mid
    layers = [RawLayer(l._left, l._box, l._right @ other.dom) for l in self.layers.boxes] \\
        + [RawLayer(self.cod @ l._left, l._box, l._right) for l in other.layers.boxes]
    return RawDiagram(dom, cod, self.boxes + other.boxes,
                      self.offsets + [n + len(self.cod) for n in other.offsets],
                      RawArrow(dom, end, layers))
''', params=_p_two_diagrams, ensures=_e_tensor, loops={0: _TENSOR_L0, 1: _TENSOR_L1})


def lemma(name, fn, property_ids=()):
    c = Contract('lemma:' + name, property_ids=property_ids)
    c.canary = False
    c.lemma = fn
    CONTRACTS[c.qualname] = c
    return c


# ---------------------------------------------------------------- monoidal.Diagram.__getitem__

def _p_diagram_getitem(ex):
    self = ex.sym_diagram('self', wf=True)
    v = ex.fork(4)
    if v == 0:
        key = VSlice(_opt_int(ex, 'start'), _opt_int(ex, 'stop'), NONE)
    elif v == 1:
        key = VSlice(NONE, NONE, VInt(-1))
    elif v == 2:
        key = VSlice(_opt_int(ex, 'start'), _opt_int(ex, 'stop'), VInt(-1))      # reversed slice with bounds
    else:
        key = ex.sym_int('key')
    return [self, key], {}


def _e_diagram_getitem(interp, args, kwargs, result):
    prove_wf(interp.ex, 'C01:getitem', result)


contract('monoidal.Diagram.__getitem__', property_ids=('C01', 'C02'), spec='''
def spec(self, key):
    if isinstance(key, slice):
        layers = self.layers[key]
        return RawDiagram(layers.dom, layers.cod, [l._box for l in layers.boxes],
                          [len(l._left) for l in layers.boxes], layers)
    l = self.layers[key]
    return RawDiagram(l.dom, l.cod, [l._box], [len(l._left)], RawArrow(l.dom, l.cod, [l]))
''', params=_p_diagram_getitem, ensures=_e_diagram_getitem, on_raise=lambda *a: None)


# ---------------------------------------------------------------- monoidal.Diagram.__init__, scan path (C01)
#
# `Diagram(dom, cod, boxes, offsets)` without layers: the constructor scans.  Postcondition, from
# the property statement: if it returns, the stored value satisfies wf -- reading boxes/offsets from
# dom reaches cod, each box finds its domain at its offset, the layer view agrees.  In particular
# len(layers[i].left) == offsets[i], which needs 0 <= offset <= width - len(box.dom): python's slice
# clamping would otherwise accept an out-of-range offset silently.

def _scan_inv_assume(interp, env, k, seq, at_exit):
    ex = interp.ex
    dom, boxes, offsets = env.lookup('dom'), env.lookup('boxes'), env.lookup('offsets')
    tag = T.fresh_name('scan')
    Al = z3.Function(tag + '.left', T.IntS, T.TyS)
    Ar = z3.Function(tag + '.right', T.IntS, T.TyS)
    codk = z3.Const(tag + '.cod', T.TyS)
    def raw(lst, i):
        # total element function of an atomic symbolic list (no fork, no IndexError): hypotheses are guarded
        assert len(lst.segs) == 1 and lst.segs[0][0] == 'sub' and T.int_val(lst.segs[0][2]) == 0
        return lst.segs[0][1]._elem(i)

    base = ex.register_base(BaseList(
        tag + '.layers', k, lambda i: VLayer(VTy(Al(i)), raw(boxes, i), VTy(Ar(i))), 'layer'))

    def ldom(i):
        return T.ty_concat(Al(i), T.bdom(raw(boxes, i).t), Ar(i))

    def lcod(i):
        return T.ty_concat(Al(i), T.bcod(raw(boxes, i).t), Ar(i))
    ex.assume_guarded(k == 0, codk == dom.t)
    ex.assume_guarded(k > 0, ldom(T.I(0)) == dom.t) if T.int_val(k) != 0 and ex.feasible(k > 0) else None
    if ex.feasible(k > 0):
        ex.assume_guarded(k > 0, lcod(z3.simplify(k - 1)) == codk)
    ex.add_qhyp([base], lambda i: [(z3.And(0 <= i, i + 1 < k), lcod(i) == ldom(i + 1))]
                if T.int_val(k) is None or T.int_val(k) > 1 else [])
    ex.add_qhyp([base], lambda i: [(z3.And(0 <= i, i < k), z3.Length(Al(i)) == raw(offsets, i).t)])
    env.set('layers', VArrow(dom, VTy(codk), VList.of_base(base)))


def _scan_inv_check(interp, env, k, label, seq):
    ex = interp.ex
    dom, boxes, offsets = env.lookup('dom'), env.lookup('boxes'), env.lookup('offsets')
    layers = env.lookup('layers')
    ex.prove(label + ':layers.dom == dom', T.ty_eq(layers.dom.t, dom.t))
    ex.prove(label + ':len(layers) == k', layers.boxes.length() == k)
    prove_wfA(ex, label, layers)

    def pointwise(i):
        l = ex.list_at(layers.boxes, i)
        ex.prove(label + ':layers[i].box == boxes[i]', l.box.t == ex.list_at(boxes, i).t)
        ex.prove(label + ':len(layers[i].left) == offsets[i]', T.ty_len(l.left.t) == ex.list_at(offsets, i).t)
    ex.forall(k, pointwise)


def _p_diagram_init_scan(ex):
    n = z3.Int('n')
    ex.assume(n >= 0)
    boxes = ex.sym_box_list('boxes', n)
    offsets = ex.sym_int_list('offsets', n)
    return [VObject('monoidal.Diagram'), ex.sym_ty('dom'), ex.sym_ty('cod'), boxes, offsets], {}


def _e_diagram_init_scan(interp, args, kwargs, obj):
    ex = interp.ex
    d = interp.world.record_of('monoidal.Diagram', obj)
    ex.prove_equal('C01:init.dom stored', d.dom, args[1])
    ex.prove_equal('C01:init.cod stored', d.cod, args[2])
    ex.prove_equal('C01:init.boxes stored', d.boxes, args[3])
    ex.prove_equal('C01:init.offsets stored', d.offsets, args[4])
    prove_wf(ex, 'C01:init.establishes_wf', d)


_c = Contract('monoidal.Diagram.__init__', is_init=True, params=_p_diagram_init_scan, ensures=_e_diagram_init_scan,
              on_raise=lambda *a: None, property_ids=('C01',),
              loops={0: LoopSpec(assume=_scan_inv_assume, check=_scan_inv_check)})
_c.label = 'monoidal.Diagram.__init__[scan]'
CONTRACTS[_c.label] = _c


# ---------------------------------------------------------------- cat.Arrow.__init__, scan path (C01)
#
# `Arrow(dom, cod, boxes)`: the constructor scans the boxes.  Postcondition from the property statement: if it
# returns, the boxes chain from dom to exactly cod (an empty list needs dom == cod).  Objects are modelled as
# sequences (only their equality is used).

def _ascan_raw(boxes, i):
    assert len(boxes.segs) == 1 and boxes.segs[0][0] == 'sub' and T.int_val(boxes.segs[0][2]) == 0
    return boxes.segs[0][1]._elem(i)


def _ascan_assume(interp, env, k, seq, at_exit=False):
    ex = interp.ex
    dom, boxes = env.lookup('dom'), env.lookup('boxes')
    base = boxes.segs[0][1]
    scan = z3.Const(T.fresh_name('ascan') + '.scan', T.TyS)
    ex.assume_guarded(k == 0, scan == dom.t)
    if T.int_val(k) != 0 and ex.feasible(k > 0):
        ex.assume_guarded(k > 0, _ascan_raw(boxes, T.I(0)).dom().t == dom.t)
        ex.assume_guarded(k > 0, _ascan_raw(boxes, z3.simplify(k - 1)).cod().t == scan)
    ex.add_qhyp([base], lambda i: [(z3.And(0 <= i, i + 1 < k),
                                    _ascan_raw(boxes, i).cod().t == _ascan_raw(boxes, i + 1).dom().t)])
    env.set('scan', VTy(scan))


def _ascan_check(interp, env, k, label, seq):
    ex = interp.ex
    dom, boxes, scan = env.lookup('dom'), env.lookup('boxes'), env.lookup('scan')

    def empty():
        ex.assume(k == 0)
        ex.prove(label + ':scan == dom before the first box', T.ty_eq(scan.t, dom.t))
    ex.side(empty)

    def nonempty():
        ex.assume(k > 0)
        ex.prove(label + ':boxes[0].dom == dom', T.ty_eq(ex.list_at(boxes, T.I(0)).dom().t, dom.t))
        ex.prove(label + ':scan == boxes[k-1].cod', T.ty_eq(ex.list_at(boxes, z3.simplify(k - 1)).cod().t, scan.t))
    ex.side(nonempty)

    def chain(i):
        ex.prove(label + ':boxes[i].cod == boxes[i+1].dom',
                 T.ty_eq(ex.list_at(boxes, i).cod().t, ex.list_at(boxes, z3.simplify(i + 1)).dom().t))
    ex.forall(z3.simplify(k - 1), chain)


def _p_arrow_init_scan(ex):
    return [VObject('cat.Arrow'), ex.sym_ty('dom'), ex.sym_ty('cod'), ex.sym_arrow('a', wf=False).boxes], {}


def _e_arrow_init_scan(interp, args, kwargs, obj):
    ex = interp.ex
    a = interp.world.record_of('cat.Arrow', obj)
    ex.prove_equal('C01:Arrow.dom stored', a.dom, args[1])
    ex.prove_equal('C01:Arrow.cod stored', a.cod, args[2])
    ex.prove_equal('C01:Arrow.boxes stored', a.boxes, args[3])
    prove_wfA(ex, 'C01:Arrow.init.establishes_wf', a)


_c = Contract('cat.Arrow.__init__', is_init=True, params=_p_arrow_init_scan, ensures=_e_arrow_init_scan,
              on_raise=lambda *a: None, property_ids=('C01',),
              loops={0: LoopSpec(assume=_ascan_assume, check=_ascan_check)})
_c.label = 'cat.Arrow.__init__[scan]'
CONTRACTS[_c.label] = _c


# ---------------------------------------------------------------- monoidal.Diagram.__init__, scan path: acceptance (C01)
#
# The other direction of the constructor's contract: every well-typed request is accepted, and the layers it computes
# are the (unique) layers of the request.  Ghost input: a well-formed diagram d; the constructor is run on
# (d.dom, d.cod, d.boxes, d.offsets).  Used at call sites (scan_layers with a closed-form witness, see
# contracts/structural.py): a caller that exhibits well-formed layers for its boxes / offsets gets exactly them back.

def _acc_cod(ex, d, k):
    """the type reached after k layers of d"""
    if T.int_val(k) == 0:
        return d.dom.t
    if ex.branch(k == 0):
        return d.dom.t
    return ex.list_at(d.layers.boxes, z3.simplify(k - 1)).cod().t


def _acc_assume(interp, env, k, seq=None, at_exit=False):
    ex = interp.ex
    d = ex._acc
    base = d.layers.boxes.segs[0][1]
    env.set('layers', VArrow(d.dom, VTy(_acc_cod(ex, d, k)), VList([('sub', base, T.I(0), k)])))


def _acc_check(interp, env, k, label, seq=None):
    ex = interp.ex
    d = ex._acc
    base = d.layers.boxes.segs[0][1]
    layers = env.lookup('layers')
    ex.prove(label + ':layers.dom == dom', T.ty_eq(layers.dom.t, d.dom.t))
    ex.prove(label + ':layers.cod is the type reached after k boxes', T.ty_eq(layers.cod.t, _acc_cod(ex, d, k)))
    ex.prove_equal(label + ':layers are the first k layers of the request', layers.boxes, VList([('sub', base, T.I(0), k)]))


def _p_diagram_init_accepts(ex):
    d = ex.sym_diagram('d', wf=True, global_inst=True)
    ex._acc = d
    return [VObject('monoidal.Diagram'), d.dom, d.cod, d.boxes, d.offsets], {}


def _e_diagram_init_accepts(interp, args, kwargs, obj):
    ex = interp.ex
    d = ex._acc
    r = interp.world.record_of('monoidal.Diagram', obj)
    ex.prove_equal('C01:init.accepts: dom', r.dom, d.dom)
    ex.prove_equal('C01:init.accepts: cod', r.cod, d.cod)
    ex.prove_equal('C01:init.accepts: boxes', r.boxes, d.boxes)
    ex.prove_equal('C01:init.accepts: offsets', r.offsets, d.offsets)
    ex.prove_equal('C01:init.accepts: the layers computed are the layers of the request', r.layers.boxes, d.layers.boxes)
    ex.prove('C01:init.accepts: layers.dom', T.ty_eq(r.layers.dom.t, d.dom.t))
    ex.prove('C01:init.accepts: layers.cod', T.ty_eq(r.layers.cod.t, d.cod.t))


_c = Contract('monoidal.Diagram.__init__', is_init=True, params=_p_diagram_init_accepts, ensures=_e_diagram_init_accepts,
              property_ids=('C01',), loops={0: LoopSpec(assume=_acc_assume, check=_acc_check)})
_c.label = 'monoidal.Diagram.__init__[accepts]'
CONTRACTS[_c.label] = _c
