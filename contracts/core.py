"""Contracts of the free-category core: cat.Arrow, monoidal.Layer / Diagram / Id (sidecar; /repo untouched).

Each `spec` is the functional contract of the real function (what callers may rely on) written in
the verified Python subset plus the Raw* record constructors; the real body is re-verified against
it on every run.  `ensures` adds the property-level postconditions (taken from properties.jsonl)."""
import z3
from pyvc import terms as T
from pyvc.values import *  # noqa
from pyvc.world import Contract, LoopSpec
from .preds import prove_wf, prove_wfA, layer_dom, layer_cod

CONTRACTS = {}


def contract(*a, **k):
    c = Contract(*a, **k)
    CONTRACTS[c.qualname] = c
    return c


# ---------------------------------------------------------------- cat.Arrow

contract('cat.Arrow.__init__', is_init=True, property_ids=('C01',), spec='''
def spec(self, dom, cod, boxes, _scan=True):
    if _scan:
        check_arrow_scan(dom, cod, boxes)
    self._dom = dom
    self._cod = cod
    self._boxes = boxes
''', params=lambda ex: ([VObject('cat.Arrow'), ex.sym_ty('dom'), ex.sym_ty('cod'),
                         ex.sym_arrow('a', wf=False).boxes], {'_scan': VBool(False)}))

contract('cat.Id.__init__', is_init=True, property_ids=('C01', 'C02'), spec='''
def spec(self, dom):
    self._dom = dom
    self._cod = dom
    self._boxes = []
''', params=lambda ex: ([VObject('cat.Id'), ex.sym_ty('dom')], {}))

contract('cat.Box.__init__', is_init=True, spec='''
def spec(self, name, dom, cod, **params):
    self._name = name
    self._dom = dom
    self._cod = cod
''', params=None)


def _p_then(ex):
    return [ex.sym_arrow('self', wf=False), ex.sym_arrow('other', wf=False)], {}


def _e_then(interp, args, kwargs, result):
    """C01: composition of well-formed layer arrows is well-formed (wf inputs assumed on a side branch)"""
    pass


contract('cat.Arrow.then', property_ids=('C01', 'C02'), spec='''
def spec(self, other):
    if self.cod != other.dom:
        raise AxiomError
    return RawArrow(self.dom, other.cod, self.boxes + other.boxes)
''', params=_p_then)


def _p_arrow_getitem(ex):
    self = ex.sym_arrow('self', wf=False)
    v = ex.fork(3)
    if v == 0:
        key = VSlice(_opt_int(ex, 'start'), _opt_int(ex, 'stop'), NONE)
    elif v == 1:
        key = VSlice(NONE, NONE, VInt(-1))
    else:
        key = ex.sym_int('key')
    return [self, key], {}


def _opt_int(ex, name):
    if ex.fork(2) == 0:
        return NONE
    return ex.sym_int(name)


contract('cat.Arrow.__getitem__', property_ids=('C01', 'C02'), spec='''
def spec(self, key):
    if isinstance(key, slice):
        if key.step == -1:
            boxes = [box[::-1] for box in self.boxes[key]]
            return RawArrow(self.cod, self.dom, boxes)
        if (key.step or 1) != 1:
            raise IndexError
        boxes = self.boxes[key]
        if not boxes:
            if (key.start or 0) >= len(self):
                return RawArrow(self.cod, self.cod, [])
            if (key.start or 0) <= -len(self):
                return RawArrow(self.dom, self.dom, [])
            return RawArrow(self.boxes[key.start or 0].dom, self.boxes[key.start or 0].dom, [])
        return RawArrow(boxes[0].dom, boxes[-1].cod, boxes)
    return self.boxes[key]
''', params=_p_arrow_getitem)


# ---------------------------------------------------------------- monoidal.Layer

contract('monoidal.Layer.__init__', is_init=True, property_ids=('C01',), spec='''
def spec(self, left, box, right):
    self._left = left
    self._box = box
    self._right = right
    self._dom = left @ box.dom @ right
    self._cod = left @ box.cod @ right
''', params=lambda ex: ([VObject('monoidal.Layer'), ex.sym_ty('left'), ex.sym_box('box'), ex.sym_ty('right')], {}))


# ---------------------------------------------------------------- monoidal.Diagram

def _p_diagram_init_fast(ex):
    d = ex.sym_diagram('d', wf=False)
    return [VObject('monoidal.Diagram'), d.dom, d.cod, d.boxes, d.offsets], {'layers': d.layers}


contract('monoidal.Diagram.__init__', is_init=True, property_ids=('C01',), spec='''
def spec(self, dom, cod, boxes, offsets, layers=None):
    if len(boxes) != len(offsets):
        raise ValueError
    if layers is None:
        layers = scan_layers(dom, cod, boxes, offsets)
    self._layers = layers
    self._offsets = tuple(offsets)
    self._dom = dom
    self._cod = cod
    self._boxes = boxes
''', params=_p_diagram_init_fast)

contract('monoidal.Id.__init__', is_init=True, property_ids=('C01', 'C02'), spec='''
def spec(self, dom):
    self._dom = dom
    self._cod = dom
    self._boxes = []
    self._offsets = ()
    self._layers = RawArrow(dom, dom, [])
''', params=lambda ex: ([VObject('monoidal.Id'), ex.sym_ty('dom')], {}))
