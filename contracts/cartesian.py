"""C19: the Python functions that cartesian diagrams compute with.

Wire values are abstract non-tuple values; a tuple of wire values is a sequence term.  A box function f with `cod`
outputs is an arbitrary map out_f from input tuples to tuples of length cod, returned by the library's convention: the
bare value when cod == 1, the tuple otherwise (the contract precondition of DESIGN 6/C19).  Proved on the real bodies of
Function.__call__, then, tensor, id, tuplify and untuplify, for every arity (0, 1, many) on every side:

  then   : (f >> g)(*x) follows the convention and carries out_g(out_f(x));  dom = f.dom, cod = g.cod; refused iff arities differ
  tensor : (f @ g)(*x) carries out_f(x[:n]) ++ out_g(x[n:]);  dom, cod are the sums
  id(n)  : carries x unchanged
  call   : refused with TypeError iff the number of values is not the arity

The evaluation of a whole diagram (the functor loop composing exactly these three operations layer by layer) is the
type-level contract of C04 plus the bounded driver; its semantic invariant is not proved."""
import z3
from pyvc import terms as T
from pyvc.values import *  # noqa
from pyvc.interp import PyRaise, Unsupported
from pyvc.world import Contract, LoopSpec
from .core import CONTRACTS, contract


PRO_ASSUMED = ('assumed: PRO(n) and PRO(PRO(n)) are the type of n wires named 1, a function of n alone, so PRO(a) @ PRO(b) == PRO(a + b) '
               '(monoidal.PRO.__init__ multiplies a list by a symbolic integer, outside the engine)')


def _function(ex, name):
    """a Function object with symbolic arities and an arbitrary box function"""
    n, m = z3.Int(name + '.n_in'), z3.Int(name + '.n_out')
    ex.assume(z3.And(n >= 0, m >= 0))
    dom, cod = T.pro_of(n), T.pro_of(m)     # PRO(n), PRO(m)
    ex.assume(z3.And(z3.Length(dom) == n, z3.Length(cod) == m))
    f = VPyFun(name, m)
    obj = VObject('cartesian.Function', {'dom': VTy(dom), 'cod': VTy(cod), '_dom': VTy(dom), '_cod': VTy(cod),
                                         'function': f, '_function': f})
    return obj, f, n, m


def _make_function(interp, args, kwargs):
    """call-site contract of Function(dom, cod, function): a record of the three fields, dom and cod made PRO types
    (verified against the body of __init__ by the contract below)"""
    dom, cod, fn = args
    w = interp.world
    dom, cod = w.construct(interp, 'rigid.PRO', [dom], {}), w.construct(interp, 'rigid.PRO', [cod], {})
    return VObject('cartesian.Function', {'dom': dom, 'cod': cod, '_dom': dom, '_cod': cod, 'function': fn, '_function': fn})


def _p_init(ex):
    n, m = z3.Int('n_in'), z3.Int('n_out')
    ex.assume(z3.And(n >= 0, m >= 0))
    dom, cod = z3.Const('dom', T.TyS), z3.Const('cod', T.TyS)
    ex.assume(z3.And(z3.Length(dom) == n, z3.Length(cod) == m))
    f = VPyFun('f', m)
    ex._c19i = (dom, cod, f)
    return [VObject('cartesian.Function'), VTy(dom), VTy(cod), f], {}


def _e_init(interp, args, kwargs, obj):
    ex = interp.ex
    dom, cod, f = ex._c19i
    a = obj.attrs
    ex.prove('C19:Function stores the function it is given', z3.BoolVal(a.get('_function') is f))
    ex.prove('C19:Function.dom is PRO of the domain given', T.ty_eq(a['_dom'].t, T.pro_of(z3.Length(dom))))
    ex.prove('C19:Function.cod is PRO of the codomain given', T.ty_eq(a['_cod'].t, T.pro_of(z3.Length(cod))))
    ex.prove('C19:Function.dom has as many wires as given', T.ty_len(a['_dom'].t) == z3.Length(dom))
    ex.prove('C19:Function.cod has as many wires as given', T.ty_len(a['_cod'].t) == z3.Length(cod))


_c = contract('cartesian.Function.__init__', is_init=True, params=_p_init, ensures=_e_init, property_ids=('C19',))
_c.make = _make_function


def _call(interp, fn_obj, x):
    """fn_obj(*x) through the real Function.__call__; an exception is a failed obligation"""
    try:
        return interp.world.call(interp, fn_obj, [VStar(VTy(x, cls='tuple'))], {}, None)
    except PyRaise as e:
        interp.ex.prove('C19:calling the result on `dom` values raises nothing (raised %s)' % e.exc, False)
        return None


def _carried(interp, label, got, want, n_out):
    """the value returned for `n_out` outputs follows the convention and carries the tuple `want`"""
    ex = interp.ex
    if got is None:
        return
    if ex.branch(n_out == 1):
        if not isinstance(got, VOb):
            ex.prove(label + ': one output is returned as the bare value', False)
            return
        ex.prove(label + ': the value', T.ty_eq(z3.Unit(got.t), want))
    else:
        if isinstance(got, (VTuple, VList)):
            try:
                got = interp.world.as_wire_tuple(interp, got)      # a literal python tuple of bare values
            except Unsupported:
                pass
        if not (isinstance(got, VTy) and got.cls == 'tuple'):
            ex.prove(label + ': %s outputs are returned as a tuple' % 'several (or no)', False)
            return
        ex.prove(label + ': the tuple', T.ty_eq(got.t, want))


def _out(ex, f, x):
    o = f.out(x)
    ex.assume(z3.Length(o) == f.cod)
    return o


# ---------------------------------------------------------------- Function.__call__
def _p_call(ex):
    obj, f, n, m = _function(ex, 'f')
    x = z3.Const('x', T.TyS)
    ex._c19 = (obj, f, n, m, x)
    return [obj, VStar(VTy(x, cls='tuple'))], {}


def _e_call(interp, args, kwargs, result):
    ex = interp.ex
    obj, f, n, m, x = ex._c19
    ex.prove('C19:a Function accepts exactly `dom` values', z3.Length(x) == n)
    _carried(interp, 'C19:Function.__call__', result, _out(ex, f, x), m)


def _r_call(interp, args, kwargs, exc):
    ex = interp.ex
    obj, f, n, m, x = ex._c19
    ex.prove('C19:the only refusal is TypeError (raised %s)' % exc, z3.BoolVal(exc == 'TypeError'))
    ex.prove('C19:refused only when the number of values is not the arity', z3.Length(x) != n)


contract('cartesian.Function.__call__', params=_p_call, ensures=_e_call, on_raise=_r_call, property_ids=('C19',))


# ---------------------------------------------------------------- then
def _p_then(ex):
    f, ff, n0, m0 = _function(ex, 'f')
    g, gf, n1, m1 = _function(ex, 'g')
    ex._c19 = (f, ff, n0, m0, g, gf, n1, m1)
    # PRO(a) @ PRO(b) == PRO(a + b): part of the assumed model of PRO (types of wires all named 1)
    ex.used.add(PRO_ASSUMED)
    for a, b in ((n0, n1), (m0, m1)):
        ex.assume(T.ty_concat(T.pro_of(a), T.pro_of(b)) == T.pro_of(a + b))
    return [f, g], {}


def _e_then(interp, args, kwargs, result):
    ex = interp.ex
    f, ff, n0, m0, g, gf, n1, m1 = ex._c19
    ex.prove('C19:then composes only matching arities', m0 == n1)
    ex.prove('C19:then.dom', T.ty_eq(result.attrs['dom'].t, f.attrs['dom'].t))
    ex.prove('C19:then.cod', T.ty_eq(result.attrs['cod'].t, g.attrs['cod'].t))
    x = T.fresh('x', T.TyS)
    ex.assume(z3.Length(x) == n0)
    got = _call(interp, result, x)
    _carried(interp, 'C19:(f >> g)(*x) == g(*f(*x))', got, _out(ex, gf, _out(ex, ff, x)), m1)


def _r_then(interp, args, kwargs, exc):
    ex = interp.ex
    f, ff, n0, m0, g, gf, n1, m1 = ex._c19
    ex.prove('C19:then refuses with AxiomError (raised %s)' % exc, z3.BoolVal(exc == 'AxiomError'))
    ex.prove('C19:then refuses only mismatched arities', m0 != n1)


contract('cartesian.Function.then', params=_p_then, ensures=_e_then, on_raise=_r_then, property_ids=('C19',))


# ---------------------------------------------------------------- tensor
def _e_tensor(interp, args, kwargs, result):
    ex = interp.ex
    f, ff, n0, m0, g, gf, n1, m1 = ex._c19
    ex.prove('C19:tensor.dom', T.ty_eq(result.attrs['dom'].t, T.ty_concat(f.attrs['dom'].t, g.attrs['dom'].t)))
    ex.prove('C19:tensor.cod', T.ty_eq(result.attrs['cod'].t, T.ty_concat(f.attrs['cod'].t, g.attrs['cod'].t)))
    x0, x1 = T.fresh('x0', T.TyS), T.fresh('x1', T.TyS)
    ex.assume(z3.And(z3.Length(x0) == n0, z3.Length(x1) == n1))
    got = _call(interp, result, T.ty_concat(x0, x1))
    _carried(interp, 'C19:(f @ g)(*x0, *x1) == f(*x0) + g(*x1)', got,
             T.ty_concat(_out(ex, ff, x0), _out(ex, gf, x1)), z3.simplify(m0 + m1))


contract('cartesian.Function.tensor', params=_p_then, ensures=_e_tensor, property_ids=('C19',))


# ---------------------------------------------------------------- id
def _p_id(ex):
    n = z3.Int('n')
    ex.assume(n >= 0)
    dom = T.pro_of(n)
    ex.assume(z3.Length(dom) == n)
    ex._c19 = (n, dom)
    return [VTy(dom)], {}


def _e_id(interp, args, kwargs, result):
    ex = interp.ex
    n, dom = ex._c19
    ex.prove('C19:id.dom', T.ty_eq(result.attrs['dom'].t, dom))
    ex.prove('C19:id.cod', T.ty_eq(result.attrs['cod'].t, dom))
    x = T.fresh('x', T.TyS)
    ex.assume(z3.Length(x) == n)
    got = _call(interp, result, x)
    _carried(interp, 'C19:id(n)(*x) == x', got, x, n)


contract('cartesian.Function.id', params=_p_id, ensures=_e_id, property_ids=('C19',))


# ====================================================================================================================
# Call-site contracts of then / tensor / id (the proved statements in the form a caller needs: the resulting function
# is the meta-level composition of the operands' functions) and, with them, the evaluation of a whole diagram:
# monoidal.Functor.__call__ run as a PythonFunctor.

def unfold(ex, f, x):
    """the output tuple of f on the input tuple x (with its length)"""
    t = f.out(x)
    ex.assume(z3.Length(t) == f.cod)
    return t


def _record(dom, cod, f):
    return VObject('cartesian.Function', {'dom': dom, 'cod': cod, '_dom': dom, '_cod': cod, 'function': f, '_function': f})


def _abs_then(interp, args, kwargs):
    ex = interp.ex
    f, g = args
    if not (isinstance(g, VObject) and g.cls == 'cartesian.Function'):
        raise Unsupported('Function.then with something that is not a Function')
    if not ex.branch(T.ty_len(f.attrs['cod'].t) == T.ty_len(g.attrs['dom'].t)):
        raise PyRaise('AxiomError', 'does_not_compose')
    f0, f1 = f.attrs['function'], g.attrs['function']
    return _record(f.attrs['dom'], g.attrs['cod'],
                   VPyFun('then', f1.cod, out=lambda x: unfold(ex, f1, unfold(ex, f0, x))))


def _abs_tensor(interp, args, kwargs):
    ex = interp.ex
    f, g = args
    if not (isinstance(g, VObject) and g.cls == 'cartesian.Function'):
        raise Unsupported('Function.tensor with something that is not a Function')
    f0, f1 = f.attrs['function'], g.attrs['function']
    n0 = T.ty_len(f.attrs['dom'].t)

    def out(x):
        x0, x1 = ex.ty_split(x, n0)
        return T.ty_concat(unfold(ex, f0, x0), unfold(ex, f1, x1))
    return _record(VTy(T.ty_concat(f.attrs['dom'].t, g.attrs['dom'].t)), VTy(T.ty_concat(f.attrs['cod'].t, g.attrs['cod'].t)),
                   VPyFun('tensor', z3.simplify(f0.cod + f1.cod), out=out))


def _abs_id(interp, args, kwargs):
    dom = args[0] if args else kwargs.get('dom')
    return _record(dom, dom, VPyFun('id', T.ty_len(dom.t), out=lambda x: x))


CONTRACTS['cartesian.Function.then'].abstract = _abs_then
CONTRACTS['cartesian.Function.tensor'].abstract = _abs_tensor
CONTRACTS['cartesian.Function.id'].abstract = _abs_id


def _consistent(qual, n_in):
    """the call-site form promises exactly what was proved about the real closure (checked on every run)"""
    c = CONTRACTS[qual]
    proved = c.ensures

    def ensures(interp, args, kwargs, result):
        proved(interp, args, kwargs, result)
        ex = interp.ex

        def side():
            promised = c.abstract(interp, list(args), dict(kwargs))
            x = T.fresh('x', T.TyS)
            ex.assume(z3.Length(x) == n_in(ex))
            got = _call(interp, result, x)
            _carried(interp, 'call-site contract of %s promises the function that was proved' % qual, got,
                     unfold(ex, promised.attrs['function'], x), promised.attrs['function'].cod)
            ex.prove('call-site contract of %s: dom' % qual, T.ty_eq(promised.attrs['dom'].t, result.attrs['dom'].t))
            ex.prove('call-site contract of %s: cod' % qual, T.ty_eq(promised.attrs['cod'].t, result.attrs['cod'].t))
        ex.side(side)
    c.ensures = ensures


_consistent('cartesian.Function.then', lambda ex: ex._c19[2])
_consistent('cartesian.Function.tensor', lambda ex: z3.simplify(ex._c19[2] + ex._c19[6]))
_consistent('cartesian.Function.id', lambda ex: ex._c19[0])


# ---------------------------------------------------------------- evaluation of a whole diagram (C19, main clause)
# Reference semantics, from the property statement: S(0, x) = x and S(k+1, x) is S(k, x) with the wires at offset_k
# replaced by the outputs of box_k on them.  PythonFunctor: ob = lambda t: PRO(len(t)) (lengths preserved),
# ar = lambda f: Function(len(f.dom), len(f.cod), f.function) (the box's own function) -- read off Diagram.__call__,
# assumed here and exercised by the bounded driver.

SEM = z3.Function('feed_through', T.IntS, T.TyS, T.TyS)


def _p_eval(ex):
    F = VFunctor('F', ar_factory='cartesian.Function')
    F.python = True
    d = ex.sym_diagram('d', wf=True, global_inst=True)
    ex._ev = (F, d)
    return [F, d], {}


def _scan_at(interp, d, k):
    ex = interp.ex
    if ex.branch(k < d.boxes.length()):
        return ex.list_at(d.layers.boxes, k).dom()
    return d.cod


def _sem_step(interp, d, k, x):
    """the definition of S(k+1, x) from S(k, x), for 0 <= k < len(d)"""
    ex = interp.ex
    layer = ex.list_at(d.layers.boxes, k)
    cur = SEM(k, x)
    pre, rest = ex.ty_split(cur, T.ty_len(layer.left.t))
    mid, post = ex.ty_split(rest, T.ty_len(T.bdom(layer.box.t)))
    out = T.boxout(layer.box.t, mid)
    ex.assume(z3.Length(out) == T.ty_len(T.bcod(layer.box.t)))
    ex.assume(SEM(z3.simplify(k + 1), x) == T.ty_concat(pre, out, post))


def _ev_assume(interp, env, k, seq=None, at_exit=False):
    ex = interp.ex
    F, d = ex._ev
    w = interp.world
    scan = _scan_at(interp, d, k)
    width = T.ty_len(scan.t)

    def out(x):
        ex.assume(z3.Length(SEM(k, x)) == width)
        return SEM(k, x)
    env.set('result', _record(VTy(w.functor_ty(interp, F, d.dom.t)), VTy(w.functor_ty(interp, F, scan.t)),
                              VPyFun('so_far', width, out=out)))
    env.set('scan', scan)


def _ev_check(interp, env, k, label, seq=None):
    ex = interp.ex
    F, d = ex._ev
    w = interp.world
    result, scan = env.lookup('result'), env.lookup('scan')
    want = _scan_at(interp, d, k)
    ex.prove(label + ':scan is the type after k boxes', T.ty_eq(scan.t, want.t))
    if not (isinstance(result, VObject) and result.cls == 'cartesian.Function'):
        ex.prove(label + ':result is a Function', False)
        return
    ex.prove(label + ':result.dom == F(dom)', T.ty_eq(result.attrs['dom'].t, w.functor_ty(interp, F, d.dom.t)))
    ex.prove(label + ':result.cod == F(scan)', T.ty_eq(result.attrs['cod'].t, w.functor_ty(interp, F, scan.t)))
    x = T.fresh('x', T.TyS)
    ex.assume(z3.Length(x) == T.ty_len(d.dom.t))
    if label.endswith('entry'):
        ex.assume(SEM(0, x) == x)
    else:
        prev = z3.simplify(k - 1)
        ex.assume(z3.Length(SEM(prev, x)) == T.ty_len(_scan_at(interp, d, prev).t))
        _sem_step(interp, d, prev, x)
    got = unfold(ex, result.attrs['function'], x)
    ex.prove(label + ':the function built so far feeds the inputs through the first k boxes', T.ty_eq(got, SEM(k, x)))
    ex.prove(label + ':width after k boxes', z3.Length(got) == T.ty_len(want.t))


def _e_eval(interp, args, kwargs, result):
    ex = interp.ex
    F, d = ex._ev
    w = interp.world
    n = d.boxes.length()
    ex.prove('C19:the evaluated diagram takes len(dom) values', T.ty_eq(result.attrs['dom'].t, w.functor_ty(interp, F, d.dom.t)))
    ex.prove('C19:the evaluated diagram returns len(cod) values', T.ty_eq(result.attrs['cod'].t, w.functor_ty(interp, F, d.cod.t)))
    x = T.fresh('x', T.TyS)
    ex.assume(z3.Length(x) == T.ty_len(d.dom.t))
    got = _call(interp, result, x)
    ex.assume(z3.Length(SEM(n, x)) == T.ty_len(d.cod.t))
    _carried(interp, 'C19:calling the diagram feeds the inputs through all the boxes in order', got, SEM(n, x),
             T.ty_len(d.cod.t))


_c = Contract('monoidal.Functor.__call__', params=_p_eval, ensures=_e_eval, property_ids=('C19',),
              loops={0: LoopSpec(assume=_ev_assume, check=_ev_check)})
_c.label = 'monoidal.Functor.__call__[python]'
CONTRACTS[_c.label] = _c


# ====================================================================================================================
# The two mappings cartesian.Diagram.__call__ hands to PythonFunctor, read from the real AST on every run: the lambdas
# `ob` and `ar` of its one statement are executed on a symbolic type / box.  This is what the call-site reading of a
# PythonFunctor (world.functor_ty / functor_call with F.python) relies on.
def _lemma_quivers(interp):
    import ast
    from pyvc import frontend
    from pyvc.interp import Env
    ex = interp.ex
    node, _ = frontend.find('cartesian.Diagram.__call__')
    calls = [c for c in ast.walk(node) if isinstance(c, ast.Call) and isinstance(c.func, ast.Name)
             and c.func.id == 'PythonFunctor']
    kws = {k.arg: k.value for c in calls for k in c.keywords}
    if len(calls) == 1 and len(calls[0].args) == 2 and not kws:
        kws = dict(zip(('ob', 'ar'), calls[0].args))
    shape = len(calls) == 1 and set(kws) == {'ob', 'ar'} and all(isinstance(v, ast.Lambda) for v in kws.values())
    ex.prove('C19:Diagram.__call__ builds one PythonFunctor from two lambdas ob, ar', z3.BoolVal(bool(shape)))
    if not shape:
        return

    def closure(e):
        fn = ast.FunctionDef(name='<lambda>', args=e.args, body=[ast.Return(value=e.body)], decorator_list=[])
        ast.copy_location(fn, e)
        ast.fix_missing_locations(fn)
        return VClosure(fn, Env(None, {}), 'cartesian.Diagram.__call__.<lambda>')
    w = interp.world
    # ob: a type goes to the PRO of its length
    t = z3.Const('t', T.TyS)
    img = w.call(interp, closure(kws['ob']), [VTy(t)], {}, None)
    ok = isinstance(img, VTy)
    ex.prove('C19:ob sends a type to a type', z3.BoolVal(ok))
    if ok:
        ex.prove('C19:ob(t) is PRO(len(t))', T.ty_eq(img.t, T.pro_of(z3.Length(t))))
        ex.prove('C19:ob(t) has as many wires as t', z3.Length(img.t) == z3.Length(t))
    # ar: a box goes to the Function of its own python function between the PROs of its lengths
    b = z3.Const('b', T.BoxS)
    m = z3.Length(T.bcod(b))
    f = VPyFun('box', m, out=lambda x, b=b: T.boxout(b, x))
    img = w.call(interp, closure(kws['ar']), [VBox(b, extra={'function': f})], {}, None)
    ok = isinstance(img, VObject) and img.cls == 'cartesian.Function'
    ex.prove('C19:ar sends a box to a Function', z3.BoolVal(ok))
    if ok:
        a = img.attrs
        ex.prove("C19:ar(box) wraps the box's own function", z3.BoolVal(a.get('function') is f and a.get('_function') is f))
        ex.prove('C19:ar(box).dom is PRO(len(box.dom))', T.ty_eq(a['dom'].t, T.pro_of(z3.Length(T.bdom(b)))))
        ex.prove('C19:ar(box).cod is PRO(len(box.cod))', T.ty_eq(a['cod'].t, T.pro_of(z3.Length(T.bcod(b)))))
        ex.prove('C19:ar(box) takes len(box.dom) values', z3.Length(a['dom'].t) == z3.Length(T.bdom(b)))
        ex.prove('C19:ar(box) returns len(box.cod) values', z3.Length(a['cod'].t) == z3.Length(T.bcod(b)))


from .core import lemma  # noqa
lemma('cartesian.Diagram.__call__.quivers', _lemma_quivers, ('C19',))


# ====================================================================================================================
# The plumbing between PythonFunctor(ob, ar) and the two lambdas: the four constructors (each real body checked to
# store the two mappings as given and the factories PRO / Function, `super().__init__` against the contract of the base
# proved here too), the properties cat.Functor.ob / .ar (a plain function is wrapped in a Quiver) and
# Quiver.__init__ / __getitem__ (the wrapped function is called with the key, its result is returned).
_FUNCTORS = (('cat.Functor', 'cat.Ob', 'cat.Arrow'), ('monoidal.Functor', 'monoidal.Ty', 'monoidal.Diagram'),
             ('rigid.Functor', 'rigid.Ty', 'rigid.Diagram'), ('cartesian.PythonFunctor', 'rigid.PRO', 'cartesian.Function'))


def _cls_name(v):
    return v.name if isinstance(v, VClass) else None


def _functor_fields(args, kwargs, ob_default, ar_default, python=False):
    """the four fields a functor constructor stores (its postcondition)"""
    self, ob, ar = args[:3]
    if python:
        return self, {'_ob': ob, '_ar': ar, 'ob_factory': VClass(ob_default), 'ar_factory': VClass(ar_default)}
    of = args[3] if len(args) > 3 else kwargs.get('ob_factory')
    af = args[4] if len(args) > 4 else kwargs.get('ar_factory')
    of = VClass(ob_default) if of is None or isinstance(of, VNone) else of
    af = VClass(ar_default) if af is None or isinstance(af, VNone) else af
    return self, {'_ob': ob, '_ar': ar, 'ob_factory': of, 'ar_factory': af}


def _functor_init(cls, ob_default, ar_default):
    python = cls == 'cartesian.PythonFunctor'

    def params(ex):
        ob, ar = VPyFun('ob', z3.IntVal(1)), VPyFun('ar', z3.IntVal(1))
        given = ex.fork(2) if not python else 0
        kw = {'ob_factory': VClass('rigid.PRO'), 'ar_factory': VClass('cartesian.Function')} if given else {}
        ex._fi = (ob, ar, kw)
        return [VObject(cls), ob, ar], kw

    def ensures(interp, args, kwargs, obj):
        ex = interp.ex
        ob, ar, kw = ex._fi
        _, want = _functor_fields([obj, ob, ar], kw, ob_default, ar_default, python)
        a = obj.attrs
        ex.prove('C19:%s stores the object mapping it is given' % cls, z3.BoolVal(a.get('_ob') is ob))
        ex.prove('C19:%s stores the arrow mapping it is given' % cls, z3.BoolVal(a.get('_ar') is ar))
        for k in ('ob_factory', 'ar_factory'):
            ex.prove('C19:%s.%s is %s' % (cls, k, want[k].name), z3.BoolVal(_cls_name(a.get(k)) == want[k].name))

    def abstract(interp, args, kwargs):
        self, fields = _functor_fields(args, kwargs, ob_default, ar_default, python)
        self.attrs.update(fields)
        return NONE
    c = contract(cls + '.__init__', is_init=True, params=params, ensures=ensures, property_ids=('C19',))
    c.abstract = abstract
    return c


for _cls, _o, _a in _FUNCTORS:
    _functor_init(_cls, _o, _a)


def _p_quiver_init(ex):
    g = VPyFun('func', z3.IntVal(1))
    ex._qi = g
    return [VObject('cat.Quiver'), g], {}


def _e_quiver_init(interp, args, kwargs, obj):
    interp.ex.prove('C19:Quiver keeps the function it wraps', z3.BoolVal(obj.attrs.get('_func') is interp.ex._qi))


_c = contract('cat.Quiver.__init__', is_init=True, params=_p_quiver_init, ensures=_e_quiver_init, property_ids=('C19',))
_c.make = lambda interp, args, kwargs: VObject('cat.Quiver', {'_func': args[0]})


def _lemma_quiver(interp):
    from pyvc import frontend
    from pyvc.interp import Env
    ex = interp.ex
    seen = []
    result = VVal(T.fresh('image', T.ValS))

    def func(interp_, key):
        seen.append(key)
        return result
    g = VBuiltin('func', func)

    def run(q, args):
        node, _ = frontend.find(q)
        return interp.call_function(node, Env(None, {}), args, {}, q)
    # Quiver(func) keeps func; quiver[key] is func(key)
    quiver = VObject('cat.Quiver')
    run('cat.Quiver.__init__', [quiver, g])
    ex.prove('C19:Quiver keeps the function it wraps', z3.BoolVal(quiver.attrs.get('_func') is g))
    key = VVal(T.fresh('key', T.ValS))
    got = run('cat.Quiver.__getitem__', [quiver, key])
    ex.prove('C19:quiver[key] calls the function once, with the key', z3.BoolVal(len(seen) == 1 and seen[0] is key))
    ex.prove('C19:quiver[key] is what the function returns', z3.BoolVal(got is result))
    # Functor.ob / .ar wrap a plain function in a Quiver of that function
    g_ar = VBuiltin('func_ar', func)
    F = VObject('cat.Functor', {'_ob': g, '_ar': g_ar})
    for prop, fn in (('ob', g), ('ar', g_ar)):
        m = run('cat.Functor.' + prop, [F])
        ok = isinstance(m, VObject) and m.cls == 'cat.Quiver' and m.attrs.get('_func') is fn
        ex.prove('C19:Functor.%s of a plain function is the Quiver of that function' % prop, z3.BoolVal(bool(ok)))


lemma('cat.Quiver.wraps', _lemma_quiver, ('C19',))


def _canary_pro(interp):
    """over the assumed model of PRO (pro_of with its lengths, additivity, PRO of a PRO): a false statement must be refuted"""
    ex, w = interp.ex, interp.world
    f, ff, n0, m0 = _function(ex, 'f')
    g, gf, n1, m1 = _function(ex, 'g')
    for a, b in ((n0, n1), (m0, m1)):
        ex.assume(T.ty_concat(T.pro_of(a), T.pro_of(b)) == T.pro_of(a + b))
    both = w.construct(interp, 'rigid.PRO', [VTy(T.ty_concat(f.attrs['dom'].t, g.attrs['dom'].t))], {})
    _make_function(interp, [both, g.attrs['cod'], ff], {})
    ex.prove('canary:two PRO types of any lengths are equal', T.ty_eq(both.t, f.attrs['cod'].t))


_c = lemma('canary:pro.model', _canary_pro, ())
_c.canary = True
