"""Contracts of discopy/rewriting.py: interchange (C05, C01), normalize / normal_form (C06)."""
import z3
from pyvc import terms as T
from pyvc.values import *  # noqa
from pyvc.world import Contract, LoopSpec
from .preds import prove_wf, prove_wfA, layer_dom, layer_cod
from .core import CONTRACTS, contract


# ------------------------------------------------------------------ interchange, adjacent boxes
#
# The functional spec is written from the interchanger axiom of a strict monoidal category
# (not from the docstring):  with two consecutive layers
#       (l, b0, m ++ dom b1 ++ r) ; (l ++ cod b0 ++ m, b1, r)          [b0 left of b1]
# the interchanged pair is
#       (l ++ dom b0 ++ m, b1, r) ; (l, b0, m ++ cod b1 ++ r)
# and symmetrically when b0 is to the right of b1.  The move is refused iff neither
# geometric condition holds; when both hold (empty cod b0 / dom b1) `left` selects.

SPEC_INTERCHANGE = '''
def spec(self, i, j, left=False):
    if not 0 <= i < len(self) or not 0 <= j < len(self):
        raise IndexError
    if i == j:
        return self
    if j < i - 1 or j > i + 1:
        return interchange_far(self, i, j, left)
    if j < i:
        i, j = j, i
    l0, b0, r0 = self.layers[i]
    l1, b1, r1 = self.layers[j]
    b0_right_of_b1 = len(l0) >= len(l1) + len(b1.dom)
    b0_left_of_b1 = len(l1) >= len(l0) + len(b0.cod)
    if not b0_right_of_b1 and not b0_left_of_b1:
        raise InterchangerError(b0, b1)
    if b0_left_of_b1 and (left or not b0_right_of_b1):
        m = l1[len(l0) + len(b0.cod):]
        new1 = RawLayer(l0 @ b0.dom @ m, b1, r1)
        new0 = RawLayer(l0, b0, m @ b1.cod @ r1)
    else:
        m = l0[len(l1) + len(b1.dom):]
        new1 = RawLayer(l1, b1, m @ b0.dom @ r0)
        new0 = RawLayer(l1 @ b1.cod @ m, b0, r0)
    layers = RawArrow(self.dom, self.cod, self.layers.boxes[:i] + [new1, new0] + self.layers.boxes[i + 2:])
    return RawDiagram(
        self.dom, self.cod,
        self.boxes[:i] + [b1, b0] + self.boxes[i + 2:],
        self.offsets[:i] + [len(new1._left), len(new0._left)] + self.offsets[i + 2:],
        layers)
'''


def _p_interchange(ex):
    d = ex.sym_diagram('self', wf=True)
    i, j = ex.sym_int('i'), ex.sym_int('j')
    left = ex.sym_bool('left')
    ex.variant = 'adjacent'
    ex.assume(z3.And(j.t >= i.t - 1, j.t <= i.t + 1))
    return [d, i, j, left], {}


def _e_interchange(interp, args, kwargs, result):
    ex = interp.ex
    self, i, j, left = args
    # C01 / C05: the result is a well-typed diagram with the same domain and codomain
    ex.prove('C05:same dom', T.ty_eq(result.dom.t, self.dom.t))
    ex.prove('C05:same cod', T.ty_eq(result.cod.t, self.cod.t))
    ex.prove('C05:same number of boxes', result.boxes.length() == self.boxes.length())
    prove_wf(ex, 'C01:interchange', result)


def _spans(interp, self, i, j):
    """the output span of the upper box and the input span of the lower box of an adjacent pair, as wire positions"""
    ex = interp.ex
    lo = z3.simplify(z3.If(i.t < j.t, i.t, j.t))
    l0 = ex.list_at(self.layers.boxes, lo)
    l1 = ex.list_at(self.layers.boxes, z3.simplify(lo + 1))
    a0 = T.ty_len(l0.left.t)
    a1 = z3.simplify(a0 + T.ty_len(T.bcod(l0.box.t)))
    b0 = T.ty_len(l1.left.t)
    b1 = z3.simplify(b0 + T.ty_len(T.bdom(l1.box.t)))
    wired = z3.And(z3.If(a0 > b0, a0, b0) < z3.If(a1 < b1, a1, b1))       # the two spans share a wire
    enclosed = z3.Or(z3.And(a0 == a1, b0 < a0, a0 < b1),     # upper box without outputs strictly inside the inputs of the lower
                     z3.And(b0 == b1, a0 < b0, b0 < a1))     # lower box without inputs strictly inside the outputs of the upper
    return wired, enclosed


def _r_interchange(interp, args, kwargs, exc):
    """from the property statement: IndexError iff an index is out of range; InterchangerError exactly when the two
    boxes are wired to each other"""
    ex = interp.ex
    self, i, j, left = args
    n = self.boxes.length()
    in_range = z3.And(0 <= i.t, i.t < n, 0 <= j.t, j.t < n)
    if exc == 'IndexError':
        ex.prove('C05:IndexError only for an index out of range', z3.Not(in_range))
        return
    ex.prove('C05:the only other refusal is InterchangerError (raised %s)' % exc, z3.BoolVal(exc == 'InterchangerError'))
    ex.prove('C05:InterchangerError only for indices in range', z3.And(in_range, i.t != j.t))

    def side():
        ex.assume(z3.And(in_range, i.t != j.t))
        wired, enclosed = _spans(interp, self, i, j)
        ex.prove('C05:refused only if the boxes share a wire or one is enclosed by the wires of the other',
                 z3.Or(wired, enclosed))
        ex.prove('C05:refused only if the boxes share a wire', wired)
    ex.side(side)


def _e_interchange_plus(interp, args, kwargs, result):
    _e_interchange(interp, args, kwargs, result)
    ex = interp.ex
    self, i, j, left = args

    def side():
        ex.assume(i.t != j.t)
        wired, enclosed = _spans(interp, self, i, j)
        ex.prove('C05:a move past a box wired to the moving box is refused', z3.Not(wired))
    ex.side(side)


contract('rewriting.interchange', spec=SPEC_INTERCHANGE, params=_p_interchange, ensures=_e_interchange_plus,
         on_raise=_r_interchange, property_ids=('C05', 'C01'))


# ------------------------------------------------------------------ call-site (abstract) contract of interchange
#
# Callers (normalize, foliate, unsnake, the recursive loops of interchange itself) do not get the body: they get a
# fresh well-formed diagram R with the same dom / cod / number of boxes, related to the argument by the functional
# spec of the adjacent move (R's two layers are the interchanged pair, every other layer is unchanged).  wf(R) is the
# discharged `ensures` of the contract above; the equalities are the discharged `result == spec` obligations.

_fresh = [0]


def _abstract_interchange(interp, args, kwargs):
    ex = interp.ex
    w = interp.world
    self, i, j = args[0], args[1], args[2]
    left = kwargs.get('left', args[3] if len(args) > 3 else VBool(False))
    self = w.as_diagram(self)
    if getattr(ex, 'far_left', None) is not None:
        # inside a distant move: every adjacent step is made with the preference the caller asked for
        ex.prove('C05:far.the left / right preference is forwarded to every adjacent step',
                 ex.truth(left) == ex.far_left)
    # the spec decides the exceptions and gives the two new layers
    w.spec_mode += 1
    try:
        c = CONTRACTS['rewriting.interchange']
        S = interp.call_function(c.spec_node(), Env(None, {}), [self, i, j, left], {}, 'spec:rewriting.interchange')
    finally:
        w.spec_mode -= 1
    if S is self:
        return self
    _fresh[0] += 1
    name = 'ichg%d' % _fresh[0]
    n = self.boxes.length()
    R = ex.sym_diagram(T.fresh_name(name), wf=True, n=n, dom=self.dom.t, cod=self.cod.t, global_inst=True)
    Rl, Rb, Rr = R._fns
    if getattr(S, '_far', False):
        # distant move: only the frame is promised (boxes moved, layers outside [lo, hi] unchanged)
        lo, hi = S._lo, S._hi
        src = S._src

        def frame(k):
            out = []
            inside = z3.And(0 <= k, k < n)
            sl = ex_total_layer(self, k)
            if sl is not None:
                out.append((z3.And(inside, z3.Or(k < lo, k > hi)),
                            z3.And(Rl(k) == sl.left.t, Rb(k) == sl.box.t, Rr(k) == sl.right.t)))
            return out
        ex.add_qhyp(None, frame)
        return R
    lo = z3.If(i.t < j.t, i.t, j.t)
    lo = z3.simplify(lo)
    new1 = ex.list_at(S.layers.boxes, lo)
    new0 = ex.list_at(S.layers.boxes, z3.simplify(lo + 1))
    ex.assume(z3.And(Rl(lo) == new1.left.t, Rb(lo) == new1.box.t, Rr(lo) == new1.right.t))
    ex.assume(z3.And(Rl(lo + 1) == new0.left.t, Rb(lo + 1) == new0.box.t, Rr(lo + 1) == new0.right.t))

    def frame(k):
        sl = ex_total_layer(self, k)
        if sl is None:
            return []
        return [(z3.And(0 <= k, k < n, z3.Or(k < lo, k > lo + 1)),
                 z3.And(Rl(k) == sl.left.t, Rb(k) == sl.box.t, Rr(k) == sl.right.t))]
    ex.add_qhyp(None, frame)
    return R


def ex_total_layer(d, k):
    """layer k of a diagram whose layer list is one atomic symbolic list (total element function)"""
    segs = d.layers.boxes.segs
    if len(segs) == 1 and segs[0][0] == 'sub' and T.int_val(segs[0][2]) == 0:
        return segs[0][1]._elem(k)
    return None


from pyvc.interp import Env, PyRaise, Unsupported   # noqa: E402
CONTRACTS['rewriting.interchange'].abstract = _abstract_interchange


# ------------------------------------------------------------------ normalize (C06)
#
# Obligations taken from the property: every yielded diagram is exactly one legal interchange of its predecessor in the
# requested direction (the call cannot raise: the guard just evaluated implies the callee's geometric condition, and the
# flag passed selects that branch); it is well-typed with the input's dom and cod; when the generator is exhausted no
# adjacent pair satisfies the rewrite condition (fixed point).  Termination and canonicity are whole-history properties
# (bounded stand-in).

def _guard(d, t, left):
    Ll, Lb, Lr = d._fns
    off0, off1 = z3.Length(Ll(t)), z3.Length(Ll(t + 1))
    return z3.Or(z3.And(left, off1 >= off0 + z3.Length(T.bcod(Lb(t)))),
                 z3.And(z3.Not(left), off0 >= off1 + z3.Length(T.bdom(Lb(t + 1)))))


def _p_normalize(ex):
    d = ex.sym_diagram('self', wf=True, global_inst=True)
    left = ex.sym_bool('left')
    return [d], {'left': left}


def _fresh_like(interp, env, tag):
    ex = interp.ex
    self = env.lookup('self')
    return ex.sym_diagram(T.fresh_name(tag), wf=True, n=self.boxes.length(), dom=self.dom.t, cod=self.cod.t,
                          global_inst=True)


def _check_is_wf_like(interp, env, label):
    ex = interp.ex
    self, d = env.lookup('self'), interp.world.as_diagram(env.lookup('diagram'))
    ex.prove(label + ':diagram keeps dom', T.ty_eq(d.dom.t, self.dom.t))
    ex.prove(label + ':diagram keeps cod', T.ty_eq(d.cod.t, self.cod.t))
    ex.prove(label + ':diagram keeps len', d.boxes.length() == self.boxes.length())
    prove_wf(ex, label, d)


def _outer_assume(interp, env, k, seq=None, at_exit=False):
    env.set('diagram', _fresh_like(interp, env, 'sweep'))


def _outer_check(interp, env, k, label, seq=None):
    _check_is_wf_like(interp, env, label)


def _inner_assume(interp, env, k, seq, at_exit):
    ex = interp.ex
    d = _fresh_like(interp, env, 'cur')
    nmm = T.fresh('no_more_moves', T.BoolS)
    left = env.lookup('left').t
    n = d.boxes.length()
    ex.add_qhyp(None, lambda t: [(z3.And(nmm, 0 <= t, t < k, t + 1 < n), z3.Not(_guard(d, t, left)))])
    env.set('diagram', d)
    env.set('__cur', d)
    env.set('no_more_moves', VBool(nmm))


def _inner_check(interp, env, k, label, seq):
    ex = interp.ex
    _check_is_wf_like(interp, env, label)
    d = interp.world.as_diagram(env.lookup('diagram'))
    if not hasattr(d, '_fns'):
        ex.prove(label + ':diagram is a tracked well-formed diagram', False)
        return
    nmm = env.lookup('no_more_moves').t
    left = env.lookup('left').t
    n = d.boxes.length()

    def no_move_before(t):
        ex.assume(nmm)
        ex.assume(t + 1 < n)
        ex.touched.setdefault(-1, (None, {}))[1][z3.simplify(t).sexpr()] = t
        ex.prove(label + ':no_more_moves implies no earlier pair satisfies the rewrite condition', z3.Not(_guard(d, t, left)))
    ex.forall(k, no_move_before)


def _outer_break(interp, env):
    """`if no_more_moves: break`: the generator is exhausted, no adjacent pair satisfies the rewrite condition"""
    ex = interp.ex
    d = interp.world.as_diagram(env.lookup('diagram'))
    left = env.lookup('left').t
    n = d.boxes.length()
    if not hasattr(d, '_fns'):
        ex.prove('C06:exit.diagram is tracked', False)
        return

    def fixed(t):
        ex.assume(t + 1 < n)
        ex.touched.setdefault(-1, (None, {}))[1][z3.simplify(t).sexpr()] = t
        ex.prove('C06:exit is a fixed point (no adjacent pair satisfies the rewrite condition)', z3.Not(_guard(d, t, left)))
    ex.forall(n, fixed)


_NORM_OUTER = LoopSpec(assume=_outer_assume, check=_outer_check)
_NORM_OUTER.break_ok = True
_NORM_OUTER.on_break = _outer_break
_NORM_INNER = LoopSpec(assume=_inner_assume, check=_inner_check)


def _y_normalize(interp, env, value, args):
    """at every `yield diagram`"""
    ex = interp.ex
    self = args[0]
    value = interp.world.as_diagram(value)
    ex.prove('C06:yield keeps dom', T.ty_eq(value.dom.t, self.dom.t))
    ex.prove('C06:yield keeps cod', T.ty_eq(value.cod.t, self.cod.t))
    prove_wf(ex, 'C01:normalize.yield', value)
    # exactly the interchange of the predecessor at (i, i + 1) in the requested direction, and that move is legal
    try:
        prev, i, left = env.lookup('__cur'), env.lookup('i'), env.lookup('left')
    except KeyError:
        from pyvc.interp import Unsupported
        raise Unsupported('a yield of normalize is no longer inside the inner loop right after an interchange: '
                          'the contract (one yield per interchange) cannot be bound to this code')
    w = interp.world
    w.spec_mode += 1
    try:
        c = CONTRACTS['rewriting.interchange']
        try:
            want = interp.call_function(c.spec_node(), Env(None, {}), [prev, i, VInt(z3.simplify(i.t + 1)), left], {},
                                        'spec:rewriting.interchange')
        except PyRaise as e:
            ex.prove('C06:the requested interchange is legal (contract raises %s)' % e.exc, False)
            return
    finally:
        w.spec_mode -= 1
    ex.prove_equal('C06:yield is the interchange of its predecessor at (i, i+1) in the requested direction', value, want)


def _e_normalize(interp, args, kwargs, result):
    """the generator is exhausted: fixed point"""
    ex = interp.ex
    # `diagram` at exit is not visible here; the fixed-point obligation is emitted by the exit hook below
    pass


contract('rewriting.normalize', params=_p_normalize, ensures=_e_normalize, loops={0: _NORM_OUTER, 1: _NORM_INNER},
         property_ids=('C06', 'C01'))
CONTRACTS['rewriting.normalize'].on_yield = _y_normalize


# ------------------------------------------------------------------ interchange, distant boxes (|i - j| > 1)
#
# The body iterates adjacent moves.  Loop invariant after k steps (moving towards smaller indices; the other
# direction is symmetric): the current diagram X is well-formed with the same dom / cod / length, every layer
# outside [i - k, i] is the input's, the moving box sits at i - k, and the boxes it passed moved one place back:
# X.box(t) = self.box(t - 1) for i - k < t <= i.  At exit this is the frame + box-order clause of the property
# ("box i has been moved to position j ..., all other boxes keeping their relative order"); every step is an
# axiom instance by the adjacent contract.

def _rel_up_hyps(ex, X, S, i, k):
    Xl, Xb, Xr = X._fns
    Sl, Sb, Sr = S._fns
    n = S.boxes.length()
    pos = i - k
    ex.assume(z3.Implies(z3.And(0 <= pos, pos < n), Xb(pos) == Sb(i)))
    ex.add_qhyp(None, lambda t: [
        (z3.And(0 <= t, t < n, z3.Or(t < pos, t > i)),
         z3.And(Xl(t) == Sl(t), Xb(t) == Sb(t), Xr(t) == Sr(t))),
        (z3.And(0 <= t, t < n, pos < t, t <= i), Xb(t) == Sb(t - 1))])


def _rel_down_hyps(ex, X, S, i, k):
    Xl, Xb, Xr = X._fns
    Sl, Sb, Sr = S._fns
    n = S.boxes.length()
    pos = i + k
    ex.assume(z3.Implies(z3.And(0 <= pos, pos < n), Xb(pos) == Sb(i)))
    ex.add_qhyp(None, lambda t: [
        (z3.And(0 <= t, t < n, z3.Or(t < i, t > pos)),
         z3.And(Xl(t) == Sl(t), Xb(t) == Sb(t), Xr(t) == Sr(t))),
        (z3.And(0 <= t, t < n, i <= t, t < pos), Xb(t) == Sb(t + 1))])


def _prove_rel(ex, label, X, S, i, k, up):
    """X (any diagram value) satisfies the relation with the input S after k steps"""
    n = S.boxes.length()
    Sl, Sb, Sr = S._fns
    ex.prove(label + ':same dom', T.ty_eq(X.dom.t, S.dom.t))
    ex.prove(label + ':same cod', T.ty_eq(X.cod.t, S.cod.t))
    ex.prove(label + ':same length', X.boxes.length() == n)
    pos = z3.simplify(i - k if up else i + k)

    def moving():
        b = ex.list_at(X.boxes, pos)
        ex.prove(label + ':the moving box sits at i -/+ k', b.t == Sb(i))
    ex.side(moving)

    def pointwise(t):
        ex.touched.setdefault(-1, (None, {}))[1][z3.simplify(t).sexpr()] = t
        which = ex.choose([z3.Or(t < (pos if up else i), t > (i if up else pos)),
                           z3.And(pos < t, t <= i) if up else z3.And(i <= t, t < pos),
                           t == pos])
        if which == 0:
            l = ex.list_at(X.layers.boxes, t)
            ex.prove(label + ':frame.left', T.ty_eq(l.left.t, Sl(t)))
            ex.prove(label + ':frame.box', l.box.t == Sb(t))
            ex.prove(label + ':frame.right', T.ty_eq(l.right.t, Sr(t)))
        elif which == 1:
            b = ex.list_at(X.boxes, t)
            ex.prove(label + ':passed boxes keep their order', b.t == (Sb(t - 1) if up else Sb(t + 1)))
    ex.forall(n, pointwise)


def _far_loop(up):
    def assume(interp, env, k, seq=None, at_exit=False):
        ex = interp.ex
        S = env.lookup('self')
        i = env.lookup('i').t
        X = ex.sym_diagram(T.fresh_name('step'), wf=True, n=S.boxes.length(), dom=S.dom.t, cod=S.cod.t, global_inst=True)
        (_rel_up_hyps if up else _rel_down_hyps)(ex, X, S, i, k)
        env.set('result', X)

    def check(interp, env, k, label, seq=None):
        ex = interp.ex
        S = env.lookup('self')
        X = interp.world.as_diagram(env.lookup('result'))
        _prove_rel(ex, label, X, S, env.lookup('i').t, k, up)
        prove_wf(ex, label, X)
    return LoopSpec(assume=assume, check=check)


def _p_interchange_far(ex):
    d = ex.sym_diagram('self', wf=True, global_inst=True)
    i, j = ex.sym_int('i'), ex.sym_int('j')
    left = ex.sym_bool('left')
    ex.assume(z3.Or(j.t < i.t - 1, j.t > i.t + 1))
    ex.compare_spec = False
    ex.far_left = left.t
    return [d, i, j, left], {}


def _e_interchange_far(interp, args, kwargs, result):
    ex = interp.ex
    self, i, j, left = args
    result = interp.world.as_diagram(result)
    up = ex.branch(j.t < i.t)
    k = z3.simplify(i.t - j.t if up else j.t - i.t)
    _prove_rel(ex, 'C05:far', result, self, i.t, k, up)
    prove_wf(ex, 'C01:interchange.far', result)


def _r_interchange_far(interp, args, kwargs, exc):
    ex = interp.ex
    self, i, j, left = args
    n = self.boxes.length()
    in_range = z3.And(0 <= i.t, i.t < n, 0 <= j.t, j.t < n)
    if exc == 'IndexError':
        ex.prove('C05:far.IndexError only for out-of-range indices', z3.Not(in_range))
    elif exc == 'InterchangerError':
        ex.prove('C05:far.InterchangerError only for in-range indices (raised by an adjacent step)', in_range)
    else:
        ex.prove('C05:far.no other exception (raised %s)' % exc, False)


_c = Contract('rewriting.interchange', params=_p_interchange_far, ensures=_e_interchange_far, on_raise=_r_interchange_far,
              loops={0: _far_loop(True), 1: _far_loop(False)}, property_ids=('C05', 'C01'))
_c.label = 'rewriting.interchange[far]'
CONTRACTS[_c.label] = _c


# ---------------------------------------------------------------- rewriting.normal_form (C06: cycle detection)
#
# normal_form drives a normaliser (a generator of diagrams) and remembers every diagram it has seen.  Diagrams are
# abstracted to their identity under `==` (an equivalence compatible with hash: C03), the generator to an arbitrary
# finite sequence s[0..n) of such identities (every prefix of an infinite trace is one), the `cache` set to the prefix of
# s added so far.  Contract, from the property statement:
#   returns  =>  no diagram was yielded twice and the result is the last yielded diagram (the input if none);
#   raises   =>  NotImplementedError, and some diagram really was yielded twice (s[w] == s[k], w < k): a repeated
#                diagram is the only reason to give up, and it is noticed at the first repetition.
# Hence on an eventually periodic trace (the only way normalize can fail to terminate on a finite interchanger class)
# the call raises NotImplementedError instead of looping.  That normalize terminates on connected diagrams is not
# proved (bounded driver).

def _nf_params(ex):
    n = z3.Int('trace.n')
    ex.assume(n >= 0)
    did = z3.Function('trace.id', T.IntS, T.IntS)
    base = ex.register_base(BaseList('trace', n, lambda i: VInt(did(i)), 'int'))
    ex.set_source = base
    ex.nf = {'base': base, 'did': did, 'n': n, 'self': z3.Int('self.id')}
    return [VInt(ex.nf['self'])], {}


def _abstract_normalize(interp, args, kwargs):
    ex = interp.ex
    if getattr(ex, 'nf', None) is None:
        raise Unsupported('normalize called outside the normal_form contract')
    return VList.of_base(ex.nf['base'])


def _nf_current(ex, k):
    nf = ex.nf
    if T.int_val(k) == 0:
        return nf['self']
    return z3.If(k == 0, nf['self'], nf['did'](z3.simplify(k - 1)))


def _nf_assume(interp, env, k, seq=None, at_exit=False):
    ex = interp.ex
    nf = ex.nf
    inv = z3.Function(T.fresh_name('first_index'), T.IntS, T.IntS)
    nf['inv'] = inv
    did = nf['did']
    # the diagrams seen so far are pairwise different: they have a left inverse
    ex.add_qhyp([nf['base']], lambda i: [(z3.And(0 <= i, i < k), inv(did(i)) == i)])
    env.set('cache', VObject('set', {'base': nf['base'], 'k': k}))
    env.set('diagram', VInt(_nf_current(ex, k)))


def _nf_check(interp, env, k, label, seq=None):
    ex = interp.ex
    nf = ex.nf
    did = nf['did']
    if not (env.has('cache') and env.has('diagram')):
        # the invariant is stated over the locals `cache` and `diagram`; without them nothing is decided here
        raise Unsupported('the loop invariant of normal_form is stated over its locals `cache` and `diagram`')
    cache, diagram = env.lookup('cache'), env.lookup('diagram')
    if not (isinstance(cache, VObject) and cache.cls == 'set'):
        ex.prove(label + ':cache is the set of the diagrams seen', False)
        return
    ex.prove(label + ':cache holds exactly the diagrams yielded so far', cache.attrs['k'] == k)
    ex.prove(label + ':diagram is the last diagram yielded (the input before the first)', diagram.t == _nf_current(ex, k))
    if label.endswith('entry'):
        return
    old = nf['inv']
    last = z3.simplify(k - 1)

    def inj(i):
        ex.list_at(VList.of_base(nf['base']), i)            # touch index i: instantiates the hypotheses about s[i]
        new = z3.If(did(i) == did(last), last, old(did(i)))
        ex.prove(label + ':the diagrams seen so far stay pairwise different', new == i)
    ex.forall(k, inj)


def _nf_ensures(interp, args, kwargs, result):
    ex = interp.ex
    nf = ex.nf
    did, n = nf['did'], nf['n']
    ex.prove('C06:normal_form returns the last diagram yielded (the input if none)',
             result.t == z3.If(n == 0, nf['self'], did(n - 1)))

    def outer(j):
        def inner(i):
            lst = VList.of_base(nf['base'])
            ex.list_at(lst, i)
            ex.list_at(lst, j)
            ex.prove('C06:normal_form returns only if no diagram was yielded twice', did(i) != did(j))
        ex.forall(j, inner)
    ex.forall(n, outer)


def _nf_on_raise(interp, args, kwargs, exc):
    ex = interp.ex
    nf = ex.nf
    ex.prove('C06:the only exception of normal_form is NotImplementedError (raised %s)' % exc,
             z3.BoolVal(exc == 'NotImplementedError'))
    wit = getattr(ex, 'member_witness', None)
    if wit is None:
        ex.prove('C06:normal_form gives up only on a diagram it has seen before', False)
        return
    m, w, x = wit
    did, n = nf['did'], nf['n']
    k = T.fresh('k', T.IntS)
    # x is the diagram being examined: s[k] for the current iteration k; the witness w < k has the same identity
    ex.prove('C06:normal_form gives up only on a diagram it has seen before',
             z3.And(m, 0 <= w, w < n, did(w) == x.t))


CONTRACTS['rewriting.normalize'].abstract = _abstract_normalize
contract('rewriting.normal_form', params=_nf_params, ensures=_nf_ensures, on_raise=_nf_on_raise,
         loops={0: LoopSpec(assume=_nf_assume, check=_nf_check)}, property_ids=('C06',))
