"""Contracts of discopy/rewriting.py: interchange (C05, C01), normalize / normal_form (C06)."""
import z3
from pyvc import terms as T
from pyvc.values import *  # noqa
from pyvc.world import Contract, LoopSpec
from .preds import prove_wf, prove_wfA, layer_dom, layer_cod
from .core import CONTRACTS, contract


# ------------------------------------------------------------------ interchange, adjacent boxes
#
# The functional spec is written from the interchanger axiom of a strict monoidal category
# (not from the docstring):  with two consecutive layers
#       (l, b0, m ++ dom b1 ++ r) ; (l ++ cod b0 ++ m, b1, r)          [b0 left of b1]
# the interchanged pair is
#       (l ++ dom b0 ++ m, b1, r) ; (l, b0, m ++ cod b1 ++ r)
# and symmetrically when b0 is to the right of b1.  The move is refused iff neither
# geometric condition holds; when both hold (empty cod b0 / dom b1) `left` selects.

SPEC_INTERCHANGE = '''
def spec(self, i, j, left=False):
    if not 0 <= i < len(self) or not 0 <= j < len(self):
        raise IndexError
    if i == j:
        return self
    if j < i - 1 or j > i + 1:
        return interchange_far(self, i, j, left)
    if j < i:
        i, j = j, i
    l0, b0, r0 = self.layers[i]
    l1, b1, r1 = self.layers[j]
    b0_right_of_b1 = len(l0) >= len(l1) + len(b1.dom)
    b0_left_of_b1 = len(l1) >= len(l0) + len(b0.cod)
    if not b0_right_of_b1 and not b0_left_of_b1:
        raise InterchangerError(b0, b1)
    if b0_left_of_b1 and (left or not b0_right_of_b1):
        m = l1[len(l0) + len(b0.cod):]
        new1 = RawLayer(l0 @ b0.dom @ m, b1, r1)
        new0 = RawLayer(l0, b0, m @ b1.cod @ r1)
    else:
        m = l0[len(l1) + len(b1.dom):]
        new1 = RawLayer(l1, b1, m @ b0.dom @ r0)
        new0 = RawLayer(l1 @ b1.cod @ m, b0, r0)
    layers = RawArrow(self.dom, self.cod, self.layers.boxes[:i] + [new1, new0] + self.layers.boxes[i + 2:])
    return RawDiagram(
        self.dom, self.cod,
        self.boxes[:i] + [b1, b0] + self.boxes[i + 2:],
        self.offsets[:i] + [len(new1._left), len(new0._left)] + self.offsets[i + 2:],
        layers)
'''


def _p_interchange(ex):
    d = ex.sym_diagram('self', wf=True)
    i, j = ex.sym_int('i'), ex.sym_int('j')
    left = ex.sym_bool('left')
    ex.variant = 'adjacent'
    ex.assume(z3.And(j.t >= i.t - 1, j.t <= i.t + 1))
    return [d, i, j, left], {}


def _e_interchange(interp, args, kwargs, result):
    ex = interp.ex
    self, i, j, left = args
    # C01 / C05: the result is a well-typed diagram with the same domain and codomain
    ex.prove('C05:same dom', T.ty_eq(result.dom.t, self.dom.t))
    ex.prove('C05:same cod', T.ty_eq(result.cod.t, self.cod.t))
    ex.prove('C05:same number of boxes', result.boxes.length() == self.boxes.length())
    prove_wf(ex, 'C01:interchange', result)


contract('rewriting.interchange', spec=SPEC_INTERCHANGE, params=_p_interchange, ensures=_e_interchange,
         on_raise=lambda *a: None, property_ids=('C05', 'C01'))
