"""C07: the steps of snake removal that are brought under contract (the property itself stays bounded: rtc/drivers/C07.py).

  follow_wire   (local function): stays inside the bounds, returns the first box below `i` whose domain covers the wire, or
                len(diagram); if that box is the very next one the wire offset is unchanged and nothing obstructs.
  unsnake       (local generator), adjacent case (the cup directly below the cap, no obstructions): for a cap / cup pair that
                passes find_snake's own test -- the cup sits on the leg of the cap that was followed and the straight-through
                wire has the same type above and below -- the single diagram yielded is well-formed with the input's dom and
                cod (the deleted pair is an instance of a snake equation); without the type test the deletion can raise.
The general case (obstructions moved out of the way by interchanges with index bookkeeping) is not under contract."""
import z3
from pyvc import terms as T
from pyvc.values import *  # noqa
from pyvc.interp import PyRaise, Unsupported
from pyvc.world import Contract, LoopSpec
from .preds import prove_wf
from .core import CONTRACTS, contract

PIDS = ('C07', 'C01')
ENV = {'Diagram': VClass('rigid.Diagram'), 'Cup': VClass('rigid.Cup'), 'Cap': VClass('rigid.Cap'),
       'monoidal': VModule('monoidal')}


def _snake_state(ex, left_snake):
    """a well-formed diagram with a Cap at index cap and a Cup right below it, placed as find_snake accepts them"""
    d = ex.sym_diagram('d', wf=True, global_inst=True)
    d.dom.cls = d.cod.cls = 'rigid'
    n = d.boxes.length()
    cap = z3.Int('cap')
    cup = cap + 1
    ex.assume(z3.And(0 <= cap, cup < n))
    Ll, Lb, Lr = d._fns
    bcap, bcup = Lb(cap), Lb(cup)
    ex.list_at(d.layers.boxes, cap)          # the chain conditions of wf are instantiated at the indices that are read
    ex.list_at(d.layers.boxes, cup)
    ex.assume(T.bkind(bcap) == T.KINDS['Cap'])
    ex.assume(T.bkind(bcup) == T.KINDS['Cup'])
    # class invariants of Cap / Cup (proved for their constructors): two one-object legs, the other side empty
    ex.assume(z3.And(z3.Length(T.bcod(bcap)) == 2, z3.Length(T.bdom(bcap)) == 0))
    ex.assume(z3.And(z3.Length(T.bdom(bcup)) == 2, z3.Length(T.bcod(bcup)) == 0))
    off_cap, off_cup = z3.Length(Ll(cap)), z3.Length(Ll(cup))
    # find_snake's test, not negated (the pair is returned): the followed leg of the cap enters the opposite leg of the cup
    if left_snake:
        ex.assume(off_cup + 1 == off_cap)
    else:
        ex.assume(off_cup == off_cap + 1)
    return d, cap, cup, bcap, bcup


def _legs(ex, b, dom):
    t = (T.bdom if dom else T.bcod)(b)
    a, c = T.fresh('leg', T.Ob), T.fresh('leg', T.Ob)
    ex.assume(t == T.ty_concat(z3.Unit(a), z3.Unit(c)))
    return a, c


def _p_unsnake(with_type_test):
    def params(ex):
        left_snake = ex.fork(2) == 1
        d, cap, cup, bcap, bcup = _snake_state(ex, left_snake)
        p, q = _legs(ex, bcap, False)       # cap.cod == (p, q)
        r, s = _legs(ex, bcup, True)        # cup.dom == (r, s)
        if with_type_test:
            # left snake: cup.dom[:1] == cap.cod[1:]; right snake: cup.dom[1:] == cap.cod[:1]
            ex.assume(r == q if left_snake else s == p)
        ex._sn = (d, cap, cup, left_snake)
        return [d, VInt(cup), VInt(cap), VTuple([VList([]), VList([])]), VBool(z3.BoolVal(left_snake))], {}
    return params


def _y_unsnake(interp, env, value, args):
    ex = interp.ex
    d, cap, cup, left_snake = ex._sn
    value = interp.world.as_diagram(value)
    ex._sn_yields = getattr(ex, '_sn_yields', 0) + 1
    ex.prove('C07:the diagram without the snake keeps dom', T.ty_eq(value.dom.t, d.dom.t))
    ex.prove('C07:the diagram without the snake keeps cod', T.ty_eq(value.cod.t, d.cod.t))
    ex.prove('C07:exactly the cap and the cup are removed', value.boxes.length() == d.boxes.length() - 2)
    prove_wf(ex, 'C07:the diagram without the snake', value)


def _e_unsnake(interp, args, kwargs, result):
    ex = interp.ex
    ex.prove('C07:removing an adjacent snake yields exactly one diagram', z3.BoolVal(getattr(ex, '_sn_yields', 0) == 1))


_c = contract('rewriting.snake_removal.<locals>.unsnake', params=_p_unsnake(True), ensures=_e_unsnake, property_ids=PIDS)
_c.closure_env = ENV
_c.on_yield = _y_unsnake
_c.label = 'rewriting.snake_removal.<locals>.unsnake[adjacent]'
CONTRACTS[_c.label] = CONTRACTS.pop('rewriting.snake_removal.<locals>.unsnake')


def _r_canary(interp, args, kwargs, exc):
    interp.ex.prove('canary:without the type test of find_snake the deletion never raises (raised %s)' % exc, False)


# the same without the type test of the straight-through wire: the layer composition can raise (must be refuted)
_k = Contract('rewriting.snake_removal.<locals>.unsnake', params=_p_unsnake(False), ensures=_e_unsnake, on_raise=_r_canary,
              property_ids=())
_k.closure_env = ENV
_k.on_yield = _y_unsnake
_k.canary = True
_k.label = 'canary:unsnake.without_type_test'
CONTRACTS[_k.label] = _k


# ---------------------------------------------------------------- follow_wire
def _p_follow(ex):
    d = ex.sym_diagram('d', wf=True, global_inst=True)
    n = d.boxes.length()
    i0, j0 = z3.Int('i0'), z3.Int('j0')
    ex.assume(z3.And(0 <= i0, i0 < n))
    below = ex.list_at(d.layers.boxes, i0).cod()
    ex.assume(z3.And(0 <= j0, j0 < T.ty_len(below.t)))          # a wire of the type right below box i0
    ex.assume(POS(i0) == j0)
    ex._fw = (d, i0, j0)
    return [d, VInt(i0), VInt(j0)], {}


POS = z3.Function('wire_position_below_box', T.IntS, T.IntS)


def _pos_step(ex, d, i):
    """the definition of wire following, one box down (0 <= i, i + 1 <= n - 1): a box wholly left of the wire (its inputs end
    at or before it; a box without inputs at the wire's own offset counts as left: its outputs appear left of the wire) shifts
    it by |cod| - |dom|, a box that takes the wire or lies right of it leaves the offset unchanged"""
    box, off = ex.list_at(d.boxes, i + 1), ex.list_at(d.offsets, i + 1)
    nd, nc = T.ty_len(T.bdom(box.t)), T.ty_len(T.bcod(box.t))
    p_ = POS(i)
    ex.assume(POS(i + 1) == z3.If(off.t + nd <= p_, p_ + nc - nd, p_))


def _fw_inv(interp, i, j, lo, ro):
    ex = interp.ex
    d, i0, j0 = ex._fw
    n = d.boxes.length()
    out = [('i stays between the starting box and the last one', z3.And(i0 <= i, i <= n - 1)),
           ('j is where the followed wire is below box i', j == POS(i))]
    if ex.branch(z3.And(0 <= i, i <= n - 1)):
        below = ex.list_at(d.layers.boxes, i).cod()
        out.append(('j is a position in the type below box i', z3.And(0 <= j, j < T.ty_len(below.t))))
    out.append(('nothing has happened before the first step',
                z3.Implies(i == i0, z3.And(j == j0, lo.length() == 0, ro.length() == 0))))
    return out


def _fw_assume(interp, env, k, seq=None, at_exit=False):
    ex = interp.ex
    i, j = T.fresh('i', T.IntS), T.fresh('j', T.IntS)
    lo, ro = ex.sym_int_list(T.fresh_name('left_obstruction')), ex.sym_int_list(T.fresh_name('right_obstruction'))
    d, i0, j0 = ex._fw
    ex.assume(z3.And(i0 <= i, i <= d.boxes.length() - 1))
    for _, f in _fw_inv(interp, i, j, lo, ro):
        ex.assume(f)
    if not at_exit and ex.branch(i + 1 <= d.boxes.length() - 1):
        _pos_step(ex, d, i)
    for name, v in (('i', VInt(i)), ('j', VInt(j)), ('left_obstruction', lo), ('right_obstruction', ro)):
        env.set(name, v)


def _fw_check(interp, env, k, label, seq=None):
    ex = interp.ex
    i, j = env.lookup('i'), env.lookup('j')
    lo, ro = env.lookup('left_obstruction'), env.lookup('right_obstruction')
    for name, f in _fw_inv(interp, i.t, j.t, lo, ro):
        ex.prove(label + ':' + name, f)


def _e_follow(interp, args, kwargs, result):
    ex = interp.ex
    d, i0, j0 = ex._fw
    n = d.boxes.length()
    if not (isinstance(result, VTuple) and len(result.items) == 3 and isinstance(result.items[2], VTuple)):
        ex.prove('C07:follow_wire returns (i, j, (left, right))', False)
        return
    i, j, (lo, ro) = result.items[0], result.items[1], result.items[2].items
    ex.prove('C07:follow_wire moves down: i0 < i <= len(diagram)', z3.And(i0 < i.t, i.t <= n))
    if ex.branch(i.t < n):
        box, off = ex.list_at(d.boxes, i.t), ex.list_at(d.offsets, i.t)
        ex.prove('C07:the box returned takes the wire as an input',
                 z3.And(off.t <= j.t, j.t < off.t + T.ty_len(T.bdom(box.t))))
        above = ex.list_at(d.layers.boxes, i.t).dom()
        ex.prove('C07:the wire is a position of the type above that box', z3.And(0 <= j.t, j.t < T.ty_len(above.t)))
        ex.prove('C07:the offset returned is where the followed wire is', j.t == POS(i.t))
    else:
        ex.prove('C07:a wire that reaches the bottom is a position of cod', z3.And(0 <= j.t, j.t < T.ty_len(d.cod.t)))
        ex.prove('C07:the offset returned is where the followed wire reaches the bottom', j.t == POS(n - 1))
    ex.prove('C07:if the next box takes the wire, the offset is unchanged and nothing obstructs',
             z3.Implies(i.t == i0 + 1, z3.And(j.t == j0, lo.length() == 0, ro.length() == 0)))


_c = contract('rewriting.snake_removal.<locals>.follow_wire', params=_p_follow, ensures=_e_follow, property_ids=PIDS,
              loops={0: LoopSpec(assume=_fw_assume, check=_fw_check)})
_c.closure_env = ENV


def _abstract_follow(interp, args, kwargs):
    """call-site contract of follow_wire (its ensures, with the precondition as obligations)"""
    ex = interp.ex
    d, i0, j0 = args
    d = interp.world.as_diagram(d)
    n = d.boxes.length()
    ex.prove('pre:follow_wire starts at a box of the diagram', z3.And(0 <= i0.t, i0.t < n))
    below = ex.list_at(d.layers.boxes, i0.t).cod()
    ex.prove('pre:follow_wire starts at a wire of the type below that box', z3.And(0 <= j0.t, j0.t < T.ty_len(below.t)))
    i, j = T.fresh('fw_i', T.IntS), T.fresh('fw_j', T.IntS)
    lo, ro = ex.sym_int_list(T.fresh_name('fw_left')), ex.sym_int_list(T.fresh_name('fw_right'))
    ex.assume(z3.And(i0.t < i, i <= n))
    if ex.branch(i < n):
        box, off = ex.list_at(d.boxes, i), ex.list_at(d.offsets, i)
        ex.assume(z3.And(off.t <= j, j < off.t + T.ty_len(T.bdom(box.t))))
    else:
        ex.assume(z3.And(0 <= j, j < T.ty_len(d.cod.t)))
    ex.assume(z3.Implies(i == i0.t + 1, z3.And(j == j0.t, lo.length() == 0, ro.length() == 0)))
    return VTuple([VInt(i), VInt(j), VTuple([lo, ro])])


CONTRACTS['rewriting.snake_removal.<locals>.follow_wire'].abstract = _abstract_follow


# ---------------------------------------------------------------- find_snake: what is returned is a yankable pair
def _p_find(ex):
    d = ex.sym_diagram('d', wf=True, global_inst=True)
    d.dom.cls = d.cod.cls = 'rigid'
    Ll, Lb, Lr = d._fns
    n = d.boxes.length()
    # class invariants of Cap / Cup (proved for their constructors)
    ex.add_qhyp(None, lambda i: [(z3.And(0 <= i, i < n, T.bkind(Lb(i)) == T.KINDS['Cap']),
                                  z3.And(z3.Length(T.bcod(Lb(i))) == 2, z3.Length(T.bdom(Lb(i))) == 0)),
                                 (z3.And(0 <= i, i < n, T.bkind(Lb(i)) == T.KINDS['Cup']),
                                  z3.And(z3.Length(T.bdom(Lb(i))) == 2, z3.Length(T.bcod(Lb(i))) == 0))])
    ex._fs = d
    return [d], {}


def _e_find(interp, args, kwargs, result):
    ex = interp.ex
    d = ex._fs
    n = d.boxes.length()
    if isinstance(result, VNone):
        return
    if not (isinstance(result, VTuple) and len(result.items) == 4):
        ex.prove('C07:find_snake returns None or (cup, cap, obstructions, left_snake)', False)
        return
    cup, cap, obs, left = result.items
    ex.prove('C07:the cap is a box of the diagram and the cup lies below it', z3.And(0 <= cap.t, cap.t < cup.t, cup.t < n))
    bcap, bcup = ex.list_at(d.boxes, cap.t), ex.list_at(d.boxes, cup.t)
    ocap, ocup = ex.list_at(d.offsets, cap.t), ex.list_at(d.offsets, cup.t)
    ex.prove('C07:the pair returned is a Cap above a Cup',
             z3.And(T.bkind(bcap.t) == T.KINDS['Cap'], T.bkind(bcup.t) == T.KINDS['Cup']))
    lf = ex.truth(left)
    p, q = _legs(ex, bcap.t, False)
    r, s = _legs(ex, bcup.t, True)
    ex.prove('C07:only pairs that satisfy a snake equation are returned: the straight-through wire keeps its type',
             z3.If(lf, r == q, s == p))
    ex.prove('C07:if the cup is the very next box, it sits on the opposite leg of the cap',
             z3.Implies(cup.t == cap.t + 1, z3.If(lf, ocup.t + 1 == ocap.t, ocup.t == ocap.t + 1)))


_c = contract('rewriting.snake_removal.<locals>.find_snake', params=_p_find, ensures=_e_find, property_ids=PIDS,
              loops={0: LoopSpec(assume=lambda interp, env, k, seq, at_exit: None,
                                 check=lambda interp, env, k, label, seq: None)})
_c.closure_env = dict(ENV)


def _env_with_follow(ex):
    from pyvc import frontend
    from pyvc.interp import Env
    q = 'rewriting.snake_removal.<locals>.follow_wire'
    node, _ = frontend.find(q)
    env = dict(ENV)
    env['follow_wire'] = VClosure(node, Env(None, dict(ENV)), q)
    # `self` of the enclosing snake_removal is the diagram normalisation STARTED from: after the first removal it is an
    # unrelated diagram as far as find_snake is concerned
    env['self'] = ex.sym_diagram('original', wf=True)
    return env


CONTRACTS['rewriting.snake_removal.<locals>.find_snake'].closure_env_fn = _env_with_follow
