"""The dagger of a generator box, on the real bodies of the four implementations (formerly one assumed axiom).

  cat.Box.dagger      (monoidal.Box, rigid.Box and every subclass without its own): the box rebuilt by its own class with
                      dom and cod exchanged, the same name and data, the dagger flag negated
  monoidal.Swap.dagger  Swap(right, left);   rigid.Cup.dagger  Cap(left, right);   rigid.Cap.dagger  Cup(left, right)

For each: dom and cod are exchanged, and applying the real body twice gives back every field `__eq__` compares (name, dom,
cod, data, dagger flag; left / right and the class for the structural boxes).  That fieldwise involution is an equality of
boxes because a box is determined by the fields its `__eq__` compares (C03's obligations): this last step is the only
thing `world.box_dagger` still takes on trust (L-box)."""
import z3
from pyvc import terms as T
from pyvc.values import *  # noqa
from pyvc.interp import PyRaise, Unsupported, Interp, Env
from pyvc import frontend
from .core import CONTRACTS, contract

PIDS = ('C01', 'C02')


def _it(ex):
    from pyvc.world import World
    return Interp(ex, World(CONTRACTS))


def _p_box_dagger(ex):
    cls = ['monoidal.Box', 'rigid.Box'][ex.fork(2)]
    name, data = VVal(z3.Const('name', T.ValS)), VVal(z3.Const('data', T.ValS))
    dom, cod, flag = ex.sym_ty('dom'), ex.sym_ty('cod'), ex.sym_bool('flag')
    it = _it(ex)
    self = it.world.construct(it, cls, [name, dom, cod], {'data': data, '_dagger': flag})
    ex._dg = (self, name, data, dom, cod, flag)
    return [self], {}


def _fields(ex, label, obj, cls, name, data, dom, cod, flag):
    a = obj.attrs if isinstance(obj, VObject) else None
    if a is None:
        ex.prove(label + ': a box of the same class is returned', False)
        return
    ex.prove(label + ': the class is kept', z3.BoolVal(obj.cls == cls))
    ex.prove(label + ': dom', T.ty_eq(a['_dom'].t, dom.t))
    ex.prove(label + ': cod', T.ty_eq(a['_cod'].t, cod.t))
    ex.prove(label + ': name', isinstance(a.get('_name'), VVal) and a['_name'].t == name.t)
    ex.prove(label + ': data', isinstance(a.get('_data'), VVal) and a['_data'].t == data.t)
    ex.prove(label + ': dagger flag', isinstance(a.get('_dagger'), VBool) and a['_dagger'].t == flag)


def _e_box_dagger(interp, args, kwargs, result):
    ex = interp.ex
    self, name, data, dom, cod, flag = ex._dg
    _fields(ex, 'C02:Box.dagger exchanges dom and cod, keeps name and data, flips the flag', result, self.cls,
            name, data, cod, dom, z3.Not(flag.t))
    node, _ = frontend.find('cat.Box.dagger')
    try:
        twice = interp.call_function(node, Env(None, {}), [result], {}, 'cat.Box.dagger')
    except PyRaise as e:
        ex.prove('C02:the dagger of a dagger exists (raised %s)' % e.exc, False)
        return
    _fields(ex, 'C02:Box.dagger twice gives back every compared field', twice, self.cls, name, data, dom, cod, flag.t)


contract('cat.Box.dagger', params=_p_box_dagger, ensures=_e_box_dagger, property_ids=PIDS)


# ---------------------------------------------------------------- structural boxes
def _p_structural(kind, cls):
    def params(ex):
        it = _it(ex)
        left, right = ex.sym_ty('left'), ex.sym_ty('right')
        try:
            self = CONTRACTS[cls + '.__init__'].make(it, [left, right], {})
        except PyRaise:
            from pyvc.interp import Infeasible
            raise Infeasible()       # only boxes that exist have a dagger
        self.pycls = cls
        ex._dg = (self, left, right)
        return [self], {}
    return params


def _e_structural(kind, cls, dual, qual):
    def same(ex, label, b, want_kind, l, r, dom, cod):
        if not isinstance(b, VBox):
            ex.prove(label + ': a box is returned', False)
            return
        ex.prove(label + ': class', T.bkind(b.t) == T.KINDS[want_kind])
        ex.prove(label + ': dom', T.ty_eq(T.bdom(b.t), dom))
        ex.prove(label + ': cod', T.ty_eq(T.bcod(b.t), cod))
        ex.prove(label + ': left / right', z3.And(T.ty_eq(T.bleft(b.t), l), T.ty_eq(T.bright(b.t), r)))

    def ensures(interp, args, kwargs, result):
        ex = interp.ex
        self, left, right = ex._dg
        l, r = (right.t, left.t) if kind == 'Swap' else (left.t, right.t)
        same(ex, 'C02:%s.dagger' % kind, result, dual, l, r, T.bcod(self.t), T.bdom(self.t))
        if not isinstance(result, VBox):
            return
        result.pycls = cls.rsplit('.', 1)[0] + '.' + dual
        node, _ = frontend.find(result.pycls + '.dagger')
        try:
            twice = interp.call_function(node, Env(None, {}), [result], {}, result.pycls + '.dagger')
        except PyRaise as e:
            ex.prove('C02:the dagger of a dagger exists (raised %s)' % e.exc, False)
            return
        same(ex, 'C02:%s.dagger twice gives back every compared field' % kind, twice, kind, left.t, right.t,
             T.bdom(self.t), T.bcod(self.t))
    return ensures


for _kind, _cls, _dual in (('Swap', 'monoidal.Swap', 'Swap'), ('Swap', 'rigid.Swap', 'Swap'),
                           ('Cup', 'rigid.Cup', 'Cap'), ('Cap', 'rigid.Cap', 'Cup')):
    _q = _cls + '.dagger' if _cls != 'rigid.Swap' else 'monoidal.Swap.dagger[rigid]'
    _c = contract(_cls + '.dagger', params=_p_structural(_kind, _cls), ensures=_e_structural(_kind, _cls, _dual, _q),
                  property_ids=PIDS) if _cls != 'rigid.Swap' else None

DAGGER_VC = ['cat.Box.__init__', 'cat.Box.dagger', 'monoidal.Swap.dagger', 'rigid.Cup.dagger', 'rigid.Cap.dagger']
