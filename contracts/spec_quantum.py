"""Independent specification of the quantum generators (sympy; not derived from discopy).

Sources: pytket manual (OpType definitions, angles in half-turns alpha; discopy phases are full
turns, alpha = 2*phase, which is also the factor tk.to_tk uses), Coecke & Kissinger for the Born
rule / doubling, van de Wetering "ZX-calculus for the working quantum computer scientist" sec. 3
for the ZX generators.  Matrices are M[out][in], first qubit = most significant index."""
import itertools
import sympy
from sympy import I, pi, cos, sin, exp, sqrt, Matrix, eye, zeros, Rational


def Rx(phi):
    t = pi * phi
    return Matrix([[cos(t), -I * sin(t)], [-I * sin(t), cos(t)]])


def Ry(phi):
    t = pi * phi
    return Matrix([[cos(t), -sin(t)], [sin(t), cos(t)]])


def Rz(phi):
    t = pi * phi
    return Matrix([[exp(-I * t), 0], [0, exp(I * t)]])


def controlled(U):
    n = U.shape[0]
    M = eye(2 * n)
    M[n:, n:] = U
    return M


def CRz(phi):
    return controlled(Rz(phi))


def CRx(phi):
    return controlled(Rx(phi))


def CU1(phi):
    return sympy.diag(1, 1, 1, exp(2 * I * pi * phi))


H = Matrix([[1, 1], [1, -1]]) / sqrt(2)
S = Matrix([[1, 0], [0, I]])
T = Matrix([[1, 0], [0, exp(I * pi / 4)]])
X = Matrix([[0, 1], [1, 0]])
Y = Matrix([[0, -I], [I, 0]])
Z = Matrix([[1, 0], [0, -1]])
CX = controlled(X)
CZ = controlled(Z)
SWAP = Matrix([[1, 0, 0, 0], [0, 0, 1, 0], [0, 1, 0, 0], [0, 0, 0, 1]])
NAMED = {'H': H, 'S': S, 'T': T, 'X': X, 'Y': Y, 'Z': Z, 'CX': CX, 'CZ': CZ, 'SWAP': SWAP}
ROTATIONS = {'Rx': Rx, 'Ry': Ry, 'Rz': Rz, 'CRz': CRz, 'CRx': CRx, 'CU1': CU1}


def kron(*ms):
    out = Matrix([[1]])
    for m in ms:
        out = sympy.kronecker_product(out, m)
    return out


def ket(*bits):
    v = zeros(2 ** len(bits), 1)
    v[int(''.join(map(str, bits)) or '0', 2)] = 1
    return v


def on_qubits(U, a, b, n):
    """the two-qubit matrix U acting on qubits a (first leg) and b (second leg) of n qubits"""
    dim = 2 ** n
    M = zeros(dim, dim)
    for col in range(dim):
        bits = [(col >> (n - 1 - q)) & 1 for q in range(n)]
        sub_in = 2 * bits[a] + bits[b]
        for sub_out in range(4):
            amp = U[sub_out, sub_in]
            if amp == 0:
                continue
            out = list(bits)
            out[a], out[b] = sub_out >> 1, sub_out & 1
            row = int(''.join(map(str, out)), 2)
            M[row, col] += amp
    return M


# ---- ZX generators (phases in full turns)

def z_spider(n_in, n_out, alpha=0):
    M = zeros(2 ** n_out, 2 ** n_in)
    M[0, 0] += 1
    M[2 ** n_out - 1, 2 ** n_in - 1] += exp(2 * I * pi * alpha)
    return M


def x_spider(n_in, n_out, alpha=0):
    return kron(*([H] * n_out)) * z_spider(n_in, n_out, alpha) * kron(*([H] * n_in))
