"""C18: the rigid images of the categorial-grammar rules (rigid.Diagram.fa / ba / fc / bc / fx / bx / curry) are
type-preserving for types of any length on every side.

With F(a << b) = F(a) @ F(b).l and F(a >> b) = F(a).r @ F(b) (biclosed.Functor on slash types), each rule R must be
sent to a well-formed diagram F(R.dom) -> F(R.cod).  The real bodies are verified for arbitrary symbolic types A, B, C
(the images of the sub-types), including empty ones: this is where `-len(right) or len(left)` and
`-n_wires or len(dom)` are decided.  Call-site contracts assumed (exercised by the bounded drivers, not proved):
cups(l, r) / caps(l, r) return a well-formed diagram l @ r -> Ty() / Ty() -> l @ r when l.r == r or r.r == l and raise
AxiomError otherwise; swap(l, r) returns a well-formed diagram l @ r -> r @ l."""
import z3
from pyvc import terms as T
from pyvc.values import *  # noqa
from pyvc.interp import PyRaise
from pyvc.world import Contract, LoopSpec
from .preds import prove_wf
from .core import CONTRACTS, contract


def _fresh_wf(interp, tag, dom, cod):
    return interp.ex.sym_diagram(T.fresh_name(tag), wf=True, dom=dom, cod=cod, global_inst=True)


def _abstract_cups(interp, args, kwargs):
    ex, w = interp.ex, interp.world
    left, right = args[0], args[1]
    ok = z3.Or(T.ty_eq(w.ty_adjoint(interp, left.t, 'r'), right.t), T.ty_eq(w.ty_adjoint(interp, right.t, 'r'), left.t))
    if not ex.branch(ok):
        raise PyRaise('AxiomError', 'are not adjoints')
    reverse = kwargs.get('reverse', args[4] if len(args) > 4 else VBool(False))
    if ex.branch(ex.truth(reverse)):
        return _fresh_wf(interp, 'caps', T.EMPTY, T.ty_concat(left.t, right.t))
    return _fresh_wf(interp, 'cups', T.ty_concat(left.t, right.t), T.EMPTY)


def _abstract_caps(interp, args, kwargs):
    ex, w = interp.ex, interp.world
    left, right = args[0], args[1]
    ok = z3.Or(T.ty_eq(w.ty_adjoint(interp, left.t, 'r'), right.t), T.ty_eq(w.ty_adjoint(interp, right.t, 'r'), left.t))
    if not ex.branch(ok):
        raise PyRaise('AxiomError', 'are not adjoints')
    return _fresh_wf(interp, 'caps', T.EMPTY, T.ty_concat(left.t, right.t))


def _abstract_swap(interp, args, kwargs):
    left, right = args[0], args[1]
    return _fresh_wf(interp, 'swap', T.ty_concat(left.t, right.t), T.ty_concat(right.t, left.t))


for _q, _fn in (('rigid.cups', _abstract_cups), ('rigid.caps', _abstract_caps), ('rigid.Diagram.swap', _abstract_swap)):
    _c = Contract(_q)
    _c.abstract = _fn
    CONTRACTS[_q] = _c


def _adj(interp, t, side):
    return interp.world.ty_adjoint(interp, t, side)


def _make(qual, n_types, build, expect):
    def lemma_like(ex):
        tys = [VTy(z3.Const(n, T.TyS)) for n in 'ABC'[:n_types]]
        ex._rule_tys = tys
        ex._rule_build = build
        # arguments need an interpreter (adjoints add hypotheses): built lazily in `ensures` is too late, so the
        # parameters are computed with a throw-away interpreter sharing this executor
        from pyvc.interp import Interp
        from pyvc.world import World
        it = Interp(ex, World(CONTRACTS))
        return build(it, *[t.t for t in tys]), {}

    def ensures(interp, args, kwargs, result):
        ex = interp.ex
        tys = ex._rule_tys
        dom, cod = expect(interp, *[t.t for t in tys])
        result = interp.world.as_diagram(result)
        ex.prove("C18:%s.dom is the image of the rule's domain" % qual.split('.')[-1], T.ty_eq(result.dom.t, dom))
        ex.prove("C18:%s.cod is the image of the rule's codomain" % qual.split('.')[-1], T.ty_eq(result.cod.t, cod))
        prove_wf(ex, 'C01:' + qual.split('.')[-1], result)
    contract(qual, params=lemma_like, ensures=ensures, property_ids=('C18', 'C01'))


# FA(a << b): F(a) @ F(b).l @ F(b) -> F(a)
_make('rigid.Diagram.fa', 2,
      lambda it, A, B: [VTy(T.ty_concat(A, _adj(it, B, 'l'))), VTy(B)],
      lambda it, A, B: (T.ty_concat(A, _adj(it, B, 'l'), B), A))
# BA(a >> b): F(a) @ F(a).r @ F(b) -> F(b)
_make('rigid.Diagram.ba', 2,
      lambda it, A, B: [VTy(A), VTy(T.ty_concat(_adj(it, A, 'r'), B))],
      lambda it, A, B: (T.ty_concat(A, _adj(it, A, 'r'), B), B))
# FC(a << b, b << c): F(a) @ F(b).l @ F(b) @ F(c).l -> F(a) @ F(c).l
_make('rigid.Diagram.fc', 3,
      lambda it, A, B, C: [VTy(A), VTy(B), VTy(C)],
      lambda it, A, B, C: (T.ty_concat(A, _adj(it, B, 'l'), B, _adj(it, C, 'l')), T.ty_concat(A, _adj(it, C, 'l'))))
# BC(a >> b, b >> c): F(a).r @ F(b) @ F(b).r @ F(c) -> F(a).r @ F(c)
_make('rigid.Diagram.bc', 3,
      lambda it, A, B, C: [VTy(A), VTy(B), VTy(C)],
      lambda it, A, B, C: (T.ty_concat(_adj(it, A, 'r'), B, _adj(it, B, 'r'), C), T.ty_concat(_adj(it, A, 'r'), C)))
# FX(a << b, c >> b): F(a) @ F(b).l @ F(c).r @ F(b) -> F(c).r @ F(a)
_make('rigid.Diagram.fx', 3,
      lambda it, A, B, C: [VTy(A), VTy(B), VTy(C)],
      lambda it, A, B, C: (T.ty_concat(A, _adj(it, B, 'l'), _adj(it, C, 'r'), B), T.ty_concat(_adj(it, C, 'r'), A)))
# BX(m << l, m >> r): F(m) @ F(l).l @ F(m).r @ F(r) -> F(r) @ F(l).l      (arguments: left = l, middle = m, right = r)
_make('rigid.Diagram.bx', 3,
      lambda it, A, B, C: [VTy(A), VTy(B), VTy(C)],
      lambda it, A, B, C: (T.ty_concat(B, _adj(it, A, 'l'), _adj(it, B, 'r'), C), T.ty_concat(C, _adj(it, A, 'l'))))


# curry(diagram, n_wires, left) with 1 <= n_wires <= len(diagram.dom)
def _p_curry(ex):
    d = ex.sym_diagram('d', wf=True, global_inst=True)
    n = ex.sym_int('n_wires')
    ex.assume(z3.And(0 <= n.t, n.t <= T.ty_len(d.dom.t)))
    left = ex.fork(2) == 1
    ex._curry = (d, n, left)
    return [d], {'n_wires': n, 'left': VBool(left)}


def _e_curry(interp, args, kwargs, result):
    ex = interp.ex
    d, n, left = ex._curry
    result = interp.world.as_diagram(result)
    if left:
        wires, rest = ex.ty_split(d.dom.t, n.t)
        dom, cod = rest, T.ty_concat(_adj(interp, wires, 'r'), d.cod.t)
    else:
        rest, wires = ex.ty_split(d.dom.t, z3.simplify(T.ty_len(d.dom.t) - n.t))
        dom, cod = rest, T.ty_concat(d.cod.t, _adj(interp, wires, 'l'))
    ex.prove('C18:curry.dom is the uncurried part of the domain', T.ty_eq(result.dom.t, dom))
    ex.prove('C18:curry.cod is cod << wires (resp. wires >> cod)', T.ty_eq(result.cod.t, cod))
    prove_wf(ex, 'C01:curry', result)


contract('rigid.Diagram.curry', params=_p_curry, ensures=_e_curry, property_ids=('C18', 'C01'))


# ====================================================================================================================
# Call-site contracts of the rule images (what the proofs above establish, in the form a caller needs) and the
# biclosed side of the translation: the class invariants of the rule boxes and the rule dispatch of biclosed.Functor.
#
# Biclosed types: a slash type is a one-object type t with ty_over(t) / ty_under(t) and two sides ty_sl(t), ty_sr(t)
# (uninterpreted on sequences; `a << b` / `a >> b` build them with the projection facts).  A functor on biclosed
# types into rigid types is an object map FT with FT(a @ b) = FT(a) @ FT(b) (assumed, as for C04),
# FT(a << b) = FT(a) @ FT(b).l and FT(a >> b) = FT(a).r @ FT(b) (proved below for the Over / Under branches of
# biclosed.Functor.__call__, assumed at the recursive call sites).

def _pre(ex, what, cond):
    ex.prove('pre:' + what, cond)


def _abs_fa(interp, args, kwargs):
    ex = interp.ex
    left, right = args
    k = z3.simplify(T.ty_len(left.t) - T.ty_len(right.t))
    _pre(ex, 'fa: len(left) >= len(right)', k >= 0)
    A, tail = ex.ty_split(left.t, k)
    _pre(ex, 'fa: left ends with right.l', T.ty_eq(tail, _adj(interp, right.t, 'l')))
    return _fresh_wf(interp, 'fa', T.ty_concat(left.t, right.t), A)


def _abs_ba(interp, args, kwargs):
    ex = interp.ex
    left, right = args
    _pre(ex, 'ba: len(right) >= len(left)', T.ty_len(right.t) >= T.ty_len(left.t))
    head, B = ex.ty_split(right.t, T.ty_len(left.t))
    _pre(ex, 'ba: right starts with left.r', T.ty_eq(head, _adj(interp, left.t, 'r')))
    return _fresh_wf(interp, 'ba', T.ty_concat(left.t, right.t), B)


def _abs3(expect, tag):
    def f(interp, args, kwargs):
        A, B, C = [a.t for a in args]
        dom, cod = expect(interp, A, B, C)
        return _fresh_wf(interp, tag, dom, cod)
    return f


_EXPECT3 = {
    'fc': lambda it, A, B, C: (T.ty_concat(A, _adj(it, B, 'l'), B, _adj(it, C, 'l')), T.ty_concat(A, _adj(it, C, 'l'))),
    'bc': lambda it, A, B, C: (T.ty_concat(_adj(it, A, 'r'), B, _adj(it, B, 'r'), C), T.ty_concat(_adj(it, A, 'r'), C)),
    'fx': lambda it, A, B, C: (T.ty_concat(A, _adj(it, B, 'l'), _adj(it, C, 'r'), B), T.ty_concat(_adj(it, C, 'r'), A)),
    'bx': lambda it, A, B, C: (T.ty_concat(B, _adj(it, A, 'l'), _adj(it, B, 'r'), C), T.ty_concat(C, _adj(it, A, 'l'))),
}


def _abs_curry(interp, args, kwargs):
    ex = interp.ex
    d = interp.world.as_diagram(args[0])
    n = kwargs.get('n_wires', args[1] if len(args) > 1 else VInt(1))
    left = kwargs.get('left', args[2] if len(args) > 2 else VBool(False))
    _pre(ex, 'curry: 0 <= n_wires <= len(dom)', z3.And(0 <= n.t, n.t <= T.ty_len(d.dom.t)))
    if ex.branch(left.t):
        wires, rest = ex.ty_split(d.dom.t, n.t)
        return _fresh_wf(interp, 'curry', rest, T.ty_concat(_adj(interp, wires, 'r'), d.cod.t))
    rest, wires = ex.ty_split(d.dom.t, z3.simplify(T.ty_len(d.dom.t) - n.t))
    return _fresh_wf(interp, 'curry', rest, T.ty_concat(d.cod.t, _adj(interp, wires, 'l')))


CONTRACTS['rigid.Diagram.fa'].abstract = _abs_fa
CONTRACTS['rigid.Diagram.ba'].abstract = _abs_ba
for _k, _e in _EXPECT3.items():
    CONTRACTS['rigid.Diagram.' + _k].abstract = _abs3(_e, _k)
CONTRACTS['rigid.Diagram.curry'].abstract = _abs_curry


# the call-site form and the proved form of each rule contract agree (checked on every run: the call-site contract applied
# to the arguments of the proof must promise exactly the dom / cod that was proved)
def _consistency(qual):
    c = CONTRACTS[qual]
    proved = c.ensures

    def ensures(interp, args, kwargs, result):
        proved(interp, args, kwargs, result)
        ex = interp.ex
        result = interp.world.as_diagram(result)

        def side():
            promised = c.abstract(interp, list(args), dict(kwargs))
            ex.prove('call-site contract of %s promises the proved dom' % qual, T.ty_eq(promised.dom.t, result.dom.t))
            ex.prove('call-site contract of %s promises the proved cod' % qual, T.ty_eq(promised.cod.t, result.cod.t))
        ex.side(side)
    c.ensures = ensures


for _q in ('fa', 'ba', 'fc', 'bc', 'fx', 'bx', 'curry'):
    _consistency('rigid.Diagram.' + _q)


# ---------------------------------------------------------------- class invariants of the biclosed rule boxes
# assumed: monoidal.Box.__init__ stores name, dom and cod as given (its own body is the one-box diagram constructor)
def _p_box_init(ex):
    dom, cod = ex.sym_ty('dom'), ex.sym_ty('cod')
    ex._bi = (dom, cod)
    return [VObject('monoidal.Box'), VStr('f'), dom, cod], {}


def _e_box_init(interp, args, kwargs, obj):
    ex = interp.ex
    dom, cod = ex._bi
    a = obj.attrs
    ex.prove('C01:Box.dom stored', T.ty_eq(a['_dom'].t, dom.t))
    ex.prove('C01:Box.cod stored', T.ty_eq(a['_cod'].t, cod.t))
    boxes, offsets, layers = a['_boxes'], a['_offsets'], a['_layers']
    ok = isinstance(boxes, VList) and boxes.is_literal() and len(boxes.items()) == 1 and boxes.items()[0] is obj
    ex.prove('C01:a box is the diagram with itself as only box', z3.BoolVal(bool(ok)))
    offs = offsets.items if isinstance(offsets, VTuple) else (offsets.items() if offsets.is_literal() else None)
    ex.prove('C01:... at offset 0', offs[0].t == 0 if offs is not None and len(offs) == 1 else z3.BoolVal(False))
    ls = layers.boxes.items() if layers.boxes.is_literal() else []
    if len(ls) != 1:
        ex.prove('C01:... with one layer', False)
        return
    l = ls[0]
    ex.prove('C01:the layer has no wires left of the box', T.ty_eq(l.left.t, T.EMPTY))
    ex.prove('C01:the layer has no wires right of the box', T.ty_eq(l.right.t, T.EMPTY))
    ex.prove('C01:layers run from dom', T.ty_eq(layers.dom.t, dom.t))
    ex.prove('C01:layers run to cod', T.ty_eq(layers.cod.t, cod.t))


_BOX_SPEC = '''
def spec(self, name, dom, cod, **params):
    self._name = name
    self._dom = dom
    self._cod = cod
    self._boxes = [self]
    self._dagger = params.get("_dagger", False)
    self._data = params.get("data", None)
    self._offsets = [0]
    self._layers = RawArrow(dom, cod, [RawLayer(dom[0:0], self, dom[0:0])])
'''
contract('monoidal.Box.__init__', is_init=True, params=_p_box_init, ensures=_e_box_init, property_ids=('C01',), spec=_BOX_SPEC)


# rigid.Box.__init__: monoidal.Box.__init__ followed by the fast path of Diagram.__init__ on the same fields
def _p_rbox_init(ex):
    dom, cod = ex.sym_ty('dom'), ex.sym_ty('cod')
    ex._bi = (dom, cod)
    return [VObject('rigid.Box'), VStr('f'), dom, cod], {}


contract('rigid.Box.__init__', is_init=True, params=_p_rbox_init, ensures=_e_box_init, property_ids=('C01',), spec=_BOX_SPEC)


def _slash_ty(ex, name, which=None):
    """a symbolic biclosed type; which = 'over' / 'under' makes it a slash type"""
    t = z3.Const(name, T.TyS)
    if which is not None:
        ex.assume(z3.Length(t) == 1)
        ex.assume(T.ty_over(t) == z3.BoolVal(which == 'over'))
        ex.assume(T.ty_under(t) == z3.BoolVal(which == 'under'))
    return VTy(t)


def _rule_init(cls, kinds, expect, needs=None):
    """cls(*slash types of the given kinds): the stored dom / cod are those of the rule (from the property: applications,
    compositions, crossed compositions); `needs` is the side condition under which the constructor must accept"""
    def params(ex):
        tys = [_slash_ty(ex, 'T%d' % i, k) for i, k in enumerate(kinds)]
        ex._rule_args = tys
        if needs is not None:
            ex.assume(needs(*[t.t for t in tys]))
        return [VObject('biclosed.' + cls)] + tys, {}

    def ensures(interp, args, kwargs, obj):
        ex = interp.ex
        dom, cod = expect(interp, *[t for t in ex._rule_args])
        ex.prove('C18:%s.dom is the rule\'s domain' % cls, T.ty_eq(obj.attrs['_dom'].t, dom.t))
        ex.prove('C18:%s.cod is the rule\'s codomain' % cls, T.ty_eq(obj.attrs['_cod'].t, cod.t))
    contract('biclosed.%s.__init__' % cls, is_init=True, params=params, ensures=ensures, property_ids=('C18',))


def _cat(*ts):
    return VTy(T.ty_concat(*[t.t for t in ts]))


def _L(t):
    return VTy(T.ty_sl(t.t))


def _R(t):
    return VTy(T.ty_sr(t.t))


def _over(it, a, b):
    return it.world.ty_slash(it, a, b, 'over')


def _under(it, a, b):
    return it.world.ty_slash(it, a, b, 'under')


# FA(a << b) : (a << b) @ b -> a            BA(a >> b) : a @ (a >> b) -> b
_rule_init('FA', ['over'], lambda it, o: (_cat(o, _R(o)), _L(o)))
_rule_init('BA', ['under'], lambda it, u: (_cat(_L(u), u), _R(u)))
# FC(a << b, b << c) : -> a << c            BC(a >> b, b >> c) : -> a >> c
_rule_init('FC', ['over', 'over'], lambda it, p, q: (_cat(p, q), _over(it, _L(p), _R(q))),
           needs=lambda p, q: T.ty_sr(p) == T.ty_sl(q))
_rule_init('BC', ['under', 'under'], lambda it, p, q: (_cat(p, q), _under(it, _L(p), _R(q))),
           needs=lambda p, q: T.ty_sr(p) == T.ty_sl(q))
# FX(a << b, c >> b) : -> c >> a            BX(m << l, m >> r) : -> r << l
_rule_init('FX', ['over', 'under'], lambda it, p, q: (_cat(p, q), _under(it, _L(q), _L(p))),
           needs=lambda p, q: T.ty_sr(p) == T.ty_sr(q))
_rule_init('BX', ['over', 'under'], lambda it, p, q: (_cat(p, q), _over(it, _R(q), _R(p))),
           needs=lambda p, q: T.ty_sl(p) == T.ty_sl(q))


# Curry(d, n, left): left: dom[n:] -> dom[:n] >> cod ; right: dom[:-n] -> cod << dom[-n:]      (1 <= n <= len(dom))
def _p_curry_init(ex):
    d = ex.sym_diagram('d', wf=True, global_inst=True)
    n = ex.sym_int('n_wires')
    ex.assume(z3.And(0 <= n.t, n.t <= T.ty_len(d.dom.t)))
    left = ex.fork(2) == 1
    ex._curry_init = (d, n, left)
    return [VObject('biclosed.Curry'), d], {'n_wires': n, 'left': VBool(left)}


def _e_curry_init(interp, args, kwargs, obj):
    ex = interp.ex
    d, n, left = ex._curry_init
    if left:
        wires, rest = ex.ty_split(d.dom.t, n.t)
        cod = _under(interp, VTy(wires), d.cod)
    else:
        rest, wires = ex.ty_split(d.dom.t, z3.simplify(T.ty_len(d.dom.t) - n.t))
        cod = _over(interp, d.cod, VTy(wires))
    ex.prove('C18:Curry.dom is the uncurried part of the domain', T.ty_eq(obj.attrs['_dom'].t, rest))
    ex.prove('C18:Curry.cod is the slash type of the curried wires and the codomain', T.ty_eq(obj.attrs['_cod'].t, cod.t))
    ex.prove('C18:Curry.n_wires stored', obj.attrs['n_wires'].t == n.t)


contract('biclosed.Curry.__init__', is_init=True, params=_p_curry_init, ensures=_e_curry_init, property_ids=('C18',))


# ---------------------------------------------------------------- biclosed.Functor.__call__, branch by branch
def _bF():
    F = VFunctor('F', ar_factory='rigid.Diagram')
    F.slash = True
    return F


def _branch(label, params, ensures):
    c = Contract('biclosed.Functor.__call__', params=params, ensures=ensures, property_ids=('C18', 'C04'))
    c.label = 'biclosed.Functor.__call__[%s]' % label
    CONTRACTS[c.label] = c


def _FT(interp, F, t):
    return interp.world.functor_ty(interp, F, t)


# types: F(a << b) = F(a) << F(b) = F(a) @ F(b).l ; F(a >> b) = F(a).r @ F(b)
def _p_ty(which):
    def params(ex):
        F = _bF()
        t = _slash_ty(ex, 'T', which)
        ex._ft = (F, t)
        return [F, t], {}
    return params


def _e_ty(which):
    def ensures(interp, args, kwargs, result):
        ex = interp.ex
        F, t = ex._ft
        a, b = F.FT(T.ty_sl(t.t)), F.FT(T.ty_sr(t.t))
        want = T.ty_concat(a, _adj(interp, b, 'l')) if which == 'over' else T.ty_concat(_adj(interp, a, 'r'), b)
        ex.prove('C18:F(%s type) is F(left) %s F(right)' % (which, '<<' if which == 'over' else '>>'),
                 T.ty_eq(result.t, want))
    return ensures


_branch('Over', _p_ty('over'), _e_ty('over'))
_branch('Under', _p_ty('under'), _e_ty('under'))


def _rule_branch(cls, kinds, build, needs=None):
    """diagram = cls(*slash types) with the class invariant established by cls.__init__ (proved above)"""
    def params(ex):
        from pyvc.interp import Interp
        from pyvc.world import World
        it = Interp(ex, World(CONTRACTS))
        F = _bF()
        tys = [_slash_ty(ex, 'T%d' % i, k) for i, k in enumerate(kinds)]
        if needs is not None:
            ex.assume(needs(*[t.t for t in tys]))
        b = z3.Const('rule', T.BoxS)
        ex.assume(T.bkind(b) == T.KINDS[cls])
        dom, cod = build(it, *tys)
        ex._rb = (F, dom, cod)
        # dom / cod of the box are the explicit rule types (so that slicing resolves syntactically)
        return [F, VBox(b, extra={'dom': dom, 'cod': cod})], {}

    def ensures(interp, args, kwargs, result):
        ex = interp.ex
        F, dom, cod = ex._rb
        result = interp.world.as_diagram(result)
        ex.prove('C18:F(%s).dom == F(%s.dom)' % (cls, cls), T.ty_eq(result.dom.t, _FT(interp, F, dom.t)))
        ex.prove('C18:F(%s).cod == F(%s.cod)' % (cls, cls), T.ty_eq(result.cod.t, _FT(interp, F, cod.t)))
        prove_wf(ex, 'C01:F(%s)' % cls, result)
    c = Contract('biclosed.Functor.__call__', params=params, ensures=ensures, property_ids=('C18', 'C04'))
    c.label = 'biclosed.Functor.__call__[%s]' % cls
    CONTRACTS[c.label] = c


_rule_branch('FA', ['over'], lambda it, o: (_cat(o, _R(o)), _L(o)))
_rule_branch('BA', ['under'], lambda it, u: (_cat(_L(u), u), _R(u)))
_rule_branch('FC', ['over', 'over'], lambda it, p, q: (_cat(p, q), _over(it, _L(p), _R(q))),
             needs=lambda p, q: T.ty_sr(p) == T.ty_sl(q))
_rule_branch('BC', ['under', 'under'], lambda it, p, q: (_cat(p, q), _under(it, _L(p), _R(q))),
             needs=lambda p, q: T.ty_sr(p) == T.ty_sl(q))
_rule_branch('FX', ['over', 'under'], lambda it, p, q: (_cat(p, q), _under(it, _L(q), _L(p))),
             needs=lambda p, q: T.ty_sr(p) == T.ty_sr(q))
_rule_branch('BX', ['over', 'under'], lambda it, p, q: (_cat(p, q), _over(it, _R(q), _R(p))),
             needs=lambda p, q: T.ty_sl(p) == T.ty_sl(q))


# Curry(d, n, left): the functor recomputes the number of rigid wires from the curried side of the slash type.
# Precondition (stated, not proved): the image of the curried wires is not empty (a functor sending them to the unit
# type would ask rigid currying for 0 wires, outside its documented domain).
def _p_curry_branch(ex):
    from pyvc.interp import Interp
    from pyvc.world import World
    it = Interp(ex, World(CONTRACTS))
    F = _bF()
    # the curried wires W (n_wires = len(W) >= 1) and the remaining wires R of the inner diagram's domain
    wires, rest = z3.Const('W', T.TyS), z3.Const('R', T.TyS)
    n = VInt(z3.Length(wires))
    left = ex.fork(2) == 1
    d = ex.sym_diagram('d', wf=True, global_inst=True,
                       dom=T.ty_concat(wires, rest) if left else T.ty_concat(rest, wires))
    cod = _under(it, VTy(wires), d.cod) if left else _over(it, d.cod, VTy(wires))
    b = z3.Const('rule', T.BoxS)
    ex.assume(T.bkind(b) == T.KINDS['Curry'])
    ex._rb = (F, VTy(rest), cod)
    return [F, VBox(b, extra={'dom': VTy(rest), 'cod': cod, 'diagram': d, 'n_wires': n, 'left': VBool(left)})], {}


def _e_curry_branch(interp, args, kwargs, result):
    ex = interp.ex
    F, dom, cod = ex._rb
    result = interp.world.as_diagram(result)
    ex.prove('C18:F(Curry).dom == F(Curry.dom)', T.ty_eq(result.dom.t, _FT(interp, F, dom.t)))
    ex.prove('C18:F(Curry).cod == F(Curry.cod)', T.ty_eq(result.cod.t, _FT(interp, F, cod.t)))
    prove_wf(ex, 'C01:F(Curry)', result)


_branch('Curry', _p_curry_branch, _e_curry_branch)


# ====================================================================================================================
# rigid.Cup / rigid.Cap constructors and the nested cups / caps (C01 producers, C04 images of cups and caps, and the
# call-site contract `cups(l, r) : l @ r -> Ty()` that the rule images above rely on)

def _adjoint_pair(interp, left, right):
    """left.r == right or left == right.r   (one-object or longer types)"""
    return z3.Or(T.ty_eq(_adj(interp, left.t, 'r'), right.t), T.ty_eq(left.t, _adj(interp, right.t, 'r')))


def _make_cupcap(kind):
    def make(interp, args, kwargs):
        ex = interp.ex
        left, right = args
        if not (isinstance(left, VTy) and isinstance(right, VTy)):
            raise PyRaise('TypeError', 'Cup / Cap of something that is not a type')
        if not ex.branch(z3.And(T.ty_len(left.t) == 1, T.ty_len(right.t) == 1)):
            raise PyRaise('ValueError', 'cup_vs_cups')
        if not ex.branch(_adjoint_pair(interp, left, right)):
            raise PyRaise('AxiomError', 'are_not_adjoints')
        b = T.fresh(kind.lower(), T.BoxS)
        both = T.ty_concat(left.t, right.t)
        ex.assume(T.bkind(b) == T.KINDS[kind])
        ex.assume(T.bdom(b) == (both if kind == 'Cup' else T.EMPTY))
        ex.assume(T.bcod(b) == (T.EMPTY if kind == 'Cup' else both))
        ex.assume(T.bleft(b) == left.t)
        ex.assume(T.bright(b) == right.t)
        return VBox(b, extra={'dom': VTy(both if kind == 'Cup' else T.EMPTY),
                              'cod': VTy(T.EMPTY if kind == 'Cup' else both)})
    return make


def _cupcap_init(kind):
    def params(ex):
        left, right = ex.sym_ty('left'), ex.sym_ty('right')
        ex._cc = (left, right)
        return [VObject('rigid.' + kind), left, right], {}

    def ensures(interp, args, kwargs, obj):
        ex = interp.ex
        left, right = ex._cc
        both = T.ty_concat(left.t, right.t)
        ex.prove('C01:%s accepts only one-object types' % kind, z3.And(T.ty_len(left.t) == 1, T.ty_len(right.t) == 1))
        ex.prove('C01:%s accepts only adjoint pairs' % kind, _adjoint_pair(interp, left, right))
        ex.prove('C01:%s.dom' % kind, T.ty_eq(obj.attrs['_dom'].t, both if kind == 'Cup' else T.EMPTY))
        ex.prove('C01:%s.cod' % kind, T.ty_eq(obj.attrs['_cod'].t, T.EMPTY if kind == 'Cup' else both))
        ex.prove('C01:%s.left / .right are the two types given' % kind,
                 z3.And(T.ty_eq(obj.attrs['left'].t, left.t), T.ty_eq(obj.attrs['right'].t, right.t))
                 if 'left' in obj.attrs and 'right' in obj.attrs else z3.BoolVal(False))

        def side():
            # the call-site form of this constructor promises the same dom / cod (and accepts the same arguments)
            try:
                b = _make_cupcap(kind)(interp, [left, right], {})
            except PyRaise as e:
                ex.prove('call-site contract of %s accepts what the constructor accepts (raised %s)' % (kind, e.exc), False)
                return
            ex.prove('call-site contract of %s: dom' % kind, T.ty_eq(T.bdom(b.t), obj.attrs['_dom'].t))
            ex.prove('call-site contract of %s: cod' % kind, T.ty_eq(T.bcod(b.t), obj.attrs['_cod'].t))
        ex.side(side)

    def on_raise(interp, args, kwargs, exc):
        ex = interp.ex
        left, right = ex._cc
        ok = z3.And(T.ty_len(left.t) == 1, T.ty_len(right.t) == 1, _adjoint_pair(interp, left, right))
        ex.prove('C01:%s refuses only what is not an adjoint pair of one-object types (raised %s)' % (kind, exc), z3.Not(ok))
    c = contract('rigid.%s.__init__' % kind, is_init=True, params=params, ensures=ensures, on_raise=on_raise,
                 property_ids=('C01', 'C04'))
    CONTRACTS['rigid.%s.__init__' % kind].make = _make_cupcap(kind)


_cupcap_init('Cup')
_cupcap_init('Cap')


def _p_cups(ex):
    left, right = ex.sym_ty('left'), ex.sym_ty('right')
    reverse = ex.fork(2) == 1
    ex._cups = (left, right, reverse)
    kw = {'reverse': VBool(True), 'cup_factory': VClass('rigid.Cap')} if reverse else {}
    return [left, right], kw


def _cups_state(interp, left, right, k, reverse):
    """dom / cod of `result` after k nested cups (caps: the same read backwards)"""
    ex = interp.ex
    n = T.ty_len(left.t)
    lo, _ = ex.ty_split(left.t, z3.simplify(n - k))
    _, hi = ex.ty_split(right.t, k)
    mid, full = T.ty_concat(lo, hi), T.ty_concat(left.t, right.t)
    return (mid, full) if reverse else (full, mid)


def _cups_assume(interp, env, k, seq=None, at_exit=False):
    ex = interp.ex
    left, right = env.lookup('left'), env.lookup('right')
    reverse = ex._cups[2]
    n = T.ty_len(left.t)
    dom, cod = _cups_state(interp, left, right, k, reverse)
    env.set('result', _fresh_wf(interp, 'nested', dom, cod))
    if not at_exit:
        # instances of "adjoints reverse the order" for the decompositions around the objects contracted at this step
        j = z3.simplify(n - k - 1)
        a, rest = ex.ty_split(left.t, j)
        m, b = ex.ty_split(rest, T.I(1))
        _adj(interp, T.ty_concat(a, m, b), 'r')
        a2, rest2 = ex.ty_split(right.t, k)
        m2, b2 = ex.ty_split(rest2, T.I(1))
        _adj(interp, T.ty_concat(a2, m2, b2), 'r')


def _cups_check(interp, env, k, label, seq=None):
    ex = interp.ex
    left, right = env.lookup('left'), env.lookup('right')
    reverse = ex._cups[2]
    result = interp.world.as_diagram(env.lookup('result'))
    dom, cod = _cups_state(interp, left, right, k, reverse)
    ex.prove(label + ':result.dom', T.ty_eq(result.dom.t, dom))
    ex.prove(label + ':result.cod', T.ty_eq(result.cod.t, cod))
    prove_wf(ex, label, result)


def _e_cups(interp, args, kwargs, result):
    ex = interp.ex
    left, right, reverse = ex._cups
    result = interp.world.as_diagram(result)
    full = T.ty_concat(left.t, right.t)
    ex.prove('C01:cups / caps only for adjoint types', _adjoint_pair(interp, left, right))
    ex.prove('C04:nested %s dom' % ('caps' if reverse else 'cups'), T.ty_eq(result.dom.t, T.EMPTY if reverse else full))
    ex.prove('C04:nested %s cod' % ('caps' if reverse else 'cups'), T.ty_eq(result.cod.t, full if reverse else T.EMPTY))
    prove_wf(ex, 'C01:nested cups / caps', result)


def _r_cups(interp, args, kwargs, exc):
    ex = interp.ex
    left, right, reverse = ex._cups
    ex.prove('C01:cups / caps raise only AxiomError (raised %s)' % exc, z3.BoolVal(exc == 'AxiomError'))
    ex.prove('C01:cups / caps refuse only types that are not adjoint', z3.Not(_adjoint_pair(interp, left, right)))


_prev_abstract = CONTRACTS['rigid.cups'].abstract
contract('rigid.cups', params=_p_cups, ensures=_e_cups, on_raise=_r_cups,
         loops={1: LoopSpec(assume=_cups_assume, check=_cups_check)}, property_ids=('C01', 'C04', 'C18'))
CONTRACTS['rigid.cups'].abstract = _prev_abstract


# ---------------------------------------------------------------- rigid.Functor.__call__ on cups and caps (C04)
# assumed (type branch, bounded by the driver): F is a homomorphism on types and commutes with adjoints.
def _rigid_cupcap_branch(kind):
    def params(ex):
        from pyvc.interp import Interp
        from pyvc.world import World
        it = Interp(ex, World(CONTRACTS))
        F = VFunctor('F', ar_factory='rigid.Diagram')
        F.adjoints = True
        x, y = ex.sym_ty('x'), ex.sym_ty('y')
        ex.assume(z3.And(z3.Length(x.t) == 1, z3.Length(y.t) == 1))
        ex.assume(_adjoint_pair(it, x, y))                         # class invariant of Cup / Cap (proved above)
        b = z3.Const('cupcap', T.BoxS)
        ex.assume(T.bkind(b) == T.KINDS[kind])
        both, unit = VTy(T.ty_concat(x.t, y.t)), VTy(T.EMPTY)
        dom, cod = (both, unit) if kind == 'Cup' else (unit, both)
        ex._rb = (F, dom, cod)
        return [F, VBox(b, extra={'dom': dom, 'cod': cod})], {}

    def ensures(interp, args, kwargs, result):
        ex = interp.ex
        F, dom, cod = ex._rb
        result = interp.world.as_diagram(result)
        ex.prove('C04:F(%s).dom == F(%s.dom)' % (kind, kind), T.ty_eq(result.dom.t, _FT(interp, F, dom.t)))
        ex.prove('C04:F(%s).cod == F(%s.cod)' % (kind, kind), T.ty_eq(result.cod.t, _FT(interp, F, cod.t)))
        prove_wf(ex, 'C01:F(%s)' % kind, result)
    c = Contract('rigid.Functor.__call__', params=params, ensures=ensures, property_ids=('C04', 'C01'))
    c.label = 'rigid.Functor.__call__[%s]' % kind
    CONTRACTS[c.label] = c


_rigid_cupcap_branch('Cup')
_rigid_cupcap_branch('Cap')


# rigid.caps: one line over cups(..., reverse=True); verified against the same statement as its call-site contract
def _p_caps(ex):
    left, right = ex.sym_ty('left'), ex.sym_ty('right')
    ex._caps = (left, right)
    return [left, right], {}


def _e_caps(interp, args, kwargs, result):
    ex = interp.ex
    left, right = ex._caps
    result = interp.world.as_diagram(result)
    ex.prove('C01:caps only for adjoint types', _adjoint_pair(interp, left, right))
    ex.prove('C04:caps.dom', T.ty_eq(result.dom.t, T.EMPTY))
    ex.prove('C04:caps.cod', T.ty_eq(result.cod.t, T.ty_concat(left.t, right.t)))
    prove_wf(ex, 'C01:caps', result)


def _r_caps(interp, args, kwargs, exc):
    ex = interp.ex
    left, right = ex._caps
    ex.prove('C01:caps raise only AxiomError (raised %s)' % exc, z3.BoolVal(exc == 'AxiomError'))
    ex.prove('C01:caps refuse only types that are not adjoint', z3.Not(_adjoint_pair(interp, left, right)))


_prev_caps = CONTRACTS['rigid.caps'].abstract
contract('rigid.caps', params=_p_caps, ensures=_e_caps, on_raise=_r_caps, property_ids=('C01', 'C04', 'C18'))
CONTRACTS['rigid.caps'].abstract = _prev_caps


for _q in ('rigid.cups', 'rigid.caps'):
    _consistency(_q)


# ---------------------------------------------------------------- transposes (C01 producer; used by snake removal's inputs)
def _p_transpose(ex):
    d = ex.sym_diagram('self', wf=True)
    d.dom.cls = d.cod.cls = 'rigid'
    left = VBool(z3.BoolVal(ex.fork(2) == 1))
    ex._tr = (d, left)
    return [d], {'left': left}


def _e_transpose(interp, args, kwargs, result):
    ex, w = interp.ex, interp.world
    d, left = ex._tr
    side = 'l' if z3.is_true(left.t) else 'r'
    result = w.as_diagram(result)
    ex.prove('C01:transpose.dom is the adjoint of cod', T.ty_eq(result.dom.t, w.ty_adjoint(interp, d.cod.t, side)))
    ex.prove('C01:transpose.cod is the adjoint of dom', T.ty_eq(result.cod.t, w.ty_adjoint(interp, d.dom.t, side)))
    prove_wf(ex, 'C01:transpose', result)


contract('rigid.Diagram.transpose', params=_p_transpose, ensures=_e_transpose, property_ids=('C01', 'C07'))
