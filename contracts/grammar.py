"""C18: the rigid images of the categorial-grammar rules (rigid.Diagram.fa / ba / fc / bc / fx / bx / curry) are
type-preserving for types of any length on every side.

With F(a << b) = F(a) @ F(b).l and F(a >> b) = F(a).r @ F(b) (biclosed.Functor on slash types), each rule R must be
sent to a well-formed diagram F(R.dom) -> F(R.cod).  The real bodies are verified for arbitrary symbolic types A, B, C
(the images of the sub-types), including empty ones: this is where `-len(right) or len(left)` and
`-n_wires or len(dom)` are decided.  Call-site contracts assumed (exercised by the bounded drivers, not proved):
cups(l, r) / caps(l, r) return a well-formed diagram l @ r -> Ty() / Ty() -> l @ r when l.r == r or r.r == l and raise
AxiomError otherwise; swap(l, r) returns a well-formed diagram l @ r -> r @ l."""
import z3
from pyvc import terms as T
from pyvc.values import *  # noqa
from pyvc.interp import PyRaise
from pyvc.world import Contract
from .preds import prove_wf
from .core import CONTRACTS, contract


def _fresh_wf(interp, tag, dom, cod):
    return interp.ex.sym_diagram(T.fresh_name(tag), wf=True, dom=dom, cod=cod, global_inst=True)


def _abstract_cups(interp, args, kwargs):
    ex, w = interp.ex, interp.world
    left, right = args[0], args[1]
    ok = z3.Or(T.ty_eq(w.ty_adjoint(interp, left.t, 'r'), right.t), T.ty_eq(w.ty_adjoint(interp, right.t, 'r'), left.t))
    if not ex.branch(ok):
        raise PyRaise('AxiomError', 'are not adjoints')
    return _fresh_wf(interp, 'cups', T.ty_concat(left.t, right.t), T.EMPTY)


def _abstract_caps(interp, args, kwargs):
    ex, w = interp.ex, interp.world
    left, right = args[0], args[1]
    ok = z3.Or(T.ty_eq(w.ty_adjoint(interp, left.t, 'r'), right.t), T.ty_eq(w.ty_adjoint(interp, right.t, 'r'), left.t))
    if not ex.branch(ok):
        raise PyRaise('AxiomError', 'are not adjoints')
    return _fresh_wf(interp, 'caps', T.EMPTY, T.ty_concat(left.t, right.t))


def _abstract_swap(interp, args, kwargs):
    left, right = args[0], args[1]
    return _fresh_wf(interp, 'swap', T.ty_concat(left.t, right.t), T.ty_concat(right.t, left.t))


for _q, _fn in (('rigid.cups', _abstract_cups), ('rigid.caps', _abstract_caps), ('rigid.Diagram.swap', _abstract_swap)):
    _c = Contract(_q)
    _c.abstract = _fn
    CONTRACTS[_q] = _c


def _adj(interp, t, side):
    return interp.world.ty_adjoint(interp, t, side)


def _make(qual, n_types, build, expect):
    def lemma_like(ex):
        tys = [VTy(z3.Const(n, T.TyS)) for n in 'ABC'[:n_types]]
        ex._rule_tys = tys
        ex._rule_build = build
        # arguments need an interpreter (adjoints add hypotheses): built lazily in `ensures` is too late, so the
        # parameters are computed with a throw-away interpreter sharing this executor
        from pyvc.interp import Interp
        from pyvc.world import World
        it = Interp(ex, World(CONTRACTS))
        return build(it, *[t.t for t in tys]), {}

    def ensures(interp, args, kwargs, result):
        ex = interp.ex
        tys = ex._rule_tys
        dom, cod = expect(interp, *[t.t for t in tys])
        result = interp.world.as_diagram(result)
        ex.prove("C18:%s.dom is the image of the rule's domain" % qual.split('.')[-1], T.ty_eq(result.dom.t, dom))
        ex.prove("C18:%s.cod is the image of the rule's codomain" % qual.split('.')[-1], T.ty_eq(result.cod.t, cod))
        prove_wf(ex, 'C01:' + qual.split('.')[-1], result)
    contract(qual, params=lemma_like, ensures=ensures, property_ids=('C18', 'C01'))


# FA(a << b): F(a) @ F(b).l @ F(b) -> F(a)
_make('rigid.Diagram.fa', 2,
      lambda it, A, B: [VTy(T.ty_concat(A, _adj(it, B, 'l'))), VTy(B)],
      lambda it, A, B: (T.ty_concat(A, _adj(it, B, 'l'), B), A))
# BA(a >> b): F(a) @ F(a).r @ F(b) -> F(b)
_make('rigid.Diagram.ba', 2,
      lambda it, A, B: [VTy(A), VTy(T.ty_concat(_adj(it, A, 'r'), B))],
      lambda it, A, B: (T.ty_concat(A, _adj(it, A, 'r'), B), B))
# FC(a << b, b << c): F(a) @ F(b).l @ F(b) @ F(c).l -> F(a) @ F(c).l
_make('rigid.Diagram.fc', 3,
      lambda it, A, B, C: [VTy(A), VTy(B), VTy(C)],
      lambda it, A, B, C: (T.ty_concat(A, _adj(it, B, 'l'), B, _adj(it, C, 'l')), T.ty_concat(A, _adj(it, C, 'l'))))
# BC(a >> b, b >> c): F(a).r @ F(b) @ F(b).r @ F(c) -> F(a).r @ F(c)
_make('rigid.Diagram.bc', 3,
      lambda it, A, B, C: [VTy(A), VTy(B), VTy(C)],
      lambda it, A, B, C: (T.ty_concat(_adj(it, A, 'r'), B, _adj(it, B, 'r'), C), T.ty_concat(_adj(it, A, 'r'), C)))
# FX(a << b, c >> b): F(a) @ F(b).l @ F(c).r @ F(b) -> F(c).r @ F(a)
_make('rigid.Diagram.fx', 3,
      lambda it, A, B, C: [VTy(A), VTy(B), VTy(C)],
      lambda it, A, B, C: (T.ty_concat(A, _adj(it, B, 'l'), _adj(it, C, 'r'), B), T.ty_concat(_adj(it, C, 'r'), A)))
# BX(m << l, m >> r): F(m) @ F(l).l @ F(m).r @ F(r) -> F(r) @ F(l).l      (arguments: left = l, middle = m, right = r)
_make('rigid.Diagram.bx', 3,
      lambda it, A, B, C: [VTy(A), VTy(B), VTy(C)],
      lambda it, A, B, C: (T.ty_concat(B, _adj(it, A, 'l'), _adj(it, B, 'r'), C), T.ty_concat(C, _adj(it, A, 'l'))))


# curry(diagram, n_wires, left) with 1 <= n_wires <= len(diagram.dom)
def _p_curry(ex):
    d = ex.sym_diagram('d', wf=True, global_inst=True)
    n = ex.sym_int('n_wires')
    ex.assume(z3.And(1 <= n.t, n.t <= T.ty_len(d.dom.t)))
    left = ex.fork(2) == 1
    ex._curry = (d, n, left)
    return [d], {'n_wires': n, 'left': VBool(left)}


def _e_curry(interp, args, kwargs, result):
    ex = interp.ex
    d, n, left = ex._curry
    result = interp.world.as_diagram(result)
    if left:
        wires, rest = ex.ty_split(d.dom.t, n.t)
        dom, cod = rest, T.ty_concat(_adj(interp, wires, 'r'), d.cod.t)
    else:
        rest, wires = ex.ty_split(d.dom.t, z3.simplify(T.ty_len(d.dom.t) - n.t))
        dom, cod = rest, T.ty_concat(d.cod.t, _adj(interp, wires, 'l'))
    ex.prove('C18:curry.dom is the uncurried part of the domain', T.ty_eq(result.dom.t, dom))
    ex.prove('C18:curry.cod is cod << wires (resp. wires >> cod)', T.ty_eq(result.cod.t, cod))
    prove_wf(ex, 'C01:curry', result)


contract('rigid.Diagram.curry', params=_p_curry, ensures=_e_curry, property_ids=('C18', 'C01'))
