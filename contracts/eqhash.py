"""C03: equality / hash / repr consistency as congruence obligations read off the real AST.

For each class K of the free categories the attribute sets are extracted from the current source of
K.__eq__, K.__repr__ and K.__hash__ on every run; with uninterpreted attribute values a_X, b_X the
obligation is   (AND_{X in eq} a_X == b_X)  ==>  (AND_{X in repr/hash} a_X == b_X)   i.e. every
attribute the printed form / the hash depends on is compared by ==, so a == b implies equal repr
terms and equal hashes (EUF, z3).  Conversely eq must compare exactly the fields the property names."""
import ast
import z3
from pyvc import frontend
from pyvc import terms as T
from .core import lemma

DERIVED = {
    # attribute -> attributes it is a function of (set in __init__ and immutable afterwards)
    ('cat.Sum', 'name'): ['terms', 'dom', 'cod'],
    ('monoidal.Swap', 'name'): ['left', 'right'],
}
# what the property statement says equality is determined by
EXPECTED_EQ = {
    'cat.Ob': {'name'},
    'cat.Arrow': {'dom', 'cod', 'boxes'},
    'cat.Box': {'name', 'dom', 'cod', 'data', 'dagger'},
    'cat.Sum': {'dom', 'cod', 'terms'},
    'monoidal.Ty': {'objects'},
    'monoidal.Diagram': {'dom', 'cod', 'boxes', 'offsets'},
    'rigid.Ob': {'name', 'z'},
}
REPR_OF = {   # class -> qualified function whose attribute reads define the printed form
    'cat.Ob': 'cat.Ob.__repr__', 'cat.Arrow': 'cat.Arrow.__repr__', 'cat.Box': 'cat.Box.__repr__',
    'cat.Sum': 'cat.Sum.__repr__', 'monoidal.Ty': 'monoidal.Ty.__repr__', 'monoidal.Diagram': 'monoidal.Diagram.__repr__',
    'rigid.Ob': 'rigid.Ob.__repr__',
}
HASH_OF = {
    'cat.Ob': 'cat.Ob.__hash__', 'cat.Arrow': 'cat.Arrow.__hash__', 'cat.Box': 'cat.Box.__hash__',
    'cat.Sum': 'cat.Sum.__hash__', 'monoidal.Ty': 'monoidal.Ty.__hash__', 'monoidal.Diagram': 'monoidal.Diagram.__hash__',
    'rigid.Ob': 'rigid.Ob.__hash__',
}


def norm(a):
    a = a.lstrip('_')
    return {'is_dagger': 'dagger'}.get(a, a)


def self_attrs(node, selfname='self'):
    """attributes of `self` read in a function: self.X, getattr(self, 'X'), getattr(self, x) for x in [consts]"""
    out = set()
    calls = set()
    for n in ast.walk(node):
        if isinstance(n, ast.Attribute) and isinstance(n.value, ast.Name) and n.value.id == selfname:
            out.add(norm(n.attr))
        if isinstance(n, ast.Call) and isinstance(n.func, ast.Name) and n.func.id == 'getattr' and n.args \
                and isinstance(n.args[0], ast.Name) and n.args[0].id == selfname:
            if isinstance(n.args[1], ast.Constant):
                out.add(norm(n.args[1].value))
            else:
                # getattr(self, x) for x in [...]: the constants of the enclosing comprehension / assignment
                pass
    # string lists used with getattr(self, a) for a in [...]
    for n in ast.walk(node):
        if isinstance(n, (ast.List, ast.Tuple)) and n.elts and all(isinstance(e, ast.Constant) and isinstance(e.value, str)
                                                                  for e in n.elts):
            src = ast.dump(node)
            if 'getattr' in src:
                out |= {norm(e.value) for e in n.elts}
    return out


def eq_attrs(q):
    node, _ = frontend.find(q)
    attrs = self_attrs(node)
    # methods / helper names that are not compared fields
    return {a for a in attrs if a not in ('__class__',)}


def make(cls):
    def run(interp):
        ex = interp.ex
        eq = eq_attrs(cls + '.__eq__')
        rnode, _ = frontend.find(REPR_OF[cls])
        rep = self_attrs(rnode)
        hnode, _ = frontend.find(HASH_OF[cls])
        hsrc = ast.dump(hnode)
        hattrs = self_attrs(hnode)
        if 'repr' in hsrc or '__repr__' in hsrc:
            hattrs = hattrs | rep
        a = {x: z3.Const('a.' + x, T.ValS) for x in eq | rep | hattrs | EXPECTED_EQ[cls]}
        b = {x: z3.Const('b.' + x, T.ValS) for x in a}
        hyp = [a[x] == b[x] for x in sorted(eq)]
        for (c, attr), deps in DERIVED.items():
            if c == cls and attr in a:
                f = z3.Function('derived_' + attr, *([T.ValS] * len(deps) + [T.ValS]))
                for side in (a, b):
                    for d in deps:
                        side.setdefault(d, z3.Const(('a.' if side is a else 'b.') + d, T.ValS))
                    hyp.append(side[attr] == f(*[side[d] for d in deps]))
        # methods of self called by repr (e.g. self.dagger()) are functions of the compared fields
        methods = {n.func.attr for n in ast.walk(rnode) if isinstance(n, ast.Call) and isinstance(n.func, ast.Attribute)
                   and isinstance(n.func.value, ast.Name) and n.func.value.id == 'self'}
        ex.assume(z3.And(*hyp) if hyp else z3.BoolVal(True))
        for x in sorted((rep | hattrs) - {norm(m) for m in methods}):
            ex.prove('C03:%s: == implies equal printed/hashed field .%s' % (cls, x), a[x] == b[x])
        for x in sorted(EXPECTED_EQ[cls]):
            ex.prove('C03:%s: __eq__ compares .%s' % (cls, x), z3.BoolVal(x in eq))
        extra = eq - EXPECTED_EQ[cls] - {'__class__'}
        ex.prove('C03:%s: __eq__ compares nothing beyond the structural fields (extra: %s)' % (cls, sorted(extra)),
                 z3.BoolVal(not extra))
    return run


for _cls in EXPECTED_EQ:
    lemma('eqhash:' + _cls, make(_cls), ('C03',))
