"""Sidecar contracts for discopy (nothing here is imported by /repo)."""
