"""C20: the horizontal padding step of the drawing layout under contract (drawing.diagram2nx.<locals>.make_space).

`pos` is the dict node -> (x, y) of the enclosing function, modelled as two functions on nodes with functional update;
floats are read as reals (T4).  The two bulk loops `for node, position in pos.items(): if position[0] <= limit: pos[node] = ...`
carry the for-each invariant "the keys visited so far (insertion order, keys distinct) are shifted iff they were on the
far side of limit, the others are untouched".  For every scan of open wires of any length whose x coordinates increase
strictly, every box (any arity, including states, effects and scalars) and every offset at which the box fits:

  * the wire left of the box is strictly left of  x_pos - (|cod| - 1) / 2,  the wire right of it strictly right of
    x_pos + (|cod| - 1) / 2  (the box and its output wires sit strictly between the neighbouring wires);
  * the open wires stay in strictly increasing order; nodes that had the same x still have the same x (vertical wires
    stay vertical); no y changes; a box with inputs stays centred over its first and last input.
The rest of the layout (add_box, the main loop, the graph census, both back-ends) is bounded: rtc/drivers/C20.py."""
import z3
from pyvc import terms as T
from pyvc.values import *  # noqa
from pyvc.values import BaseList
from pyvc.interp import PyRaise, Unsupported
from pyvc.world import Contract, LoopSpec
from .core import CONTRACTS, contract

PIDS = ('C20',)
X0 = z3.Function('x_before', T.ValS, T.RealS)
Y0 = z3.Function('y_before', T.ValS, T.RealS)
IDX = z3.Function('key_index', T.ValS, T.IntS)


def _state(ex):
    """scan, box, off and the position map"""
    L = z3.Int('len_scan')
    ex.assume(L >= 0)
    S = z3.Function('scan.at', T.IntS, T.ValS)
    base = ex.register_base(BaseList('scan', L, lambda i: VVal(S(i)), 'node'))
    scan = VList.of_base(base)
    m = z3.Int('n_keys')
    K = z3.Function('keys.at', T.IntS, T.ValS)
    kbase = ex.register_base(BaseList('keys', m, lambda i: VVal(K(i)), 'node'))
    keys = VList.of_base(kbase)
    ex.assume(m >= 0)
    # keys are distinct and listed in insertion order: IDX is the position of a key
    ex.add_qhyp([kbase], lambda i: [(z3.And(0 <= i, i < m), IDX(K(i)) == i)])
    # every open wire has a position, and they increase strictly from left to right
    # (stated for every pair i < j, which is what "strictly increasing" means; adjacent pairs give it by induction: the
    # postcondition below re-establishes the adjacent form)
    ex.add_qhyp([base], lambda i: [(z3.And(0 <= i, i < L), z3.And(0 <= IDX(S(i)), IDX(S(i)) < m, K(IDX(S(i))) == S(i)))])
    pm = VObject('posmap', {'x': lambda n: X0(n), 'y': lambda n: Y0(n), 'keys': keys})
    box = VBox(z3.Const('box', T.BoxS))
    off = z3.Int('off')
    nd = z3.Length(T.bdom(box.t))
    ex.assume(z3.And(0 <= off, off + nd <= L))              # the box fits at its offset (well-typed diagram)
    ex._ms = dict(L=L, S=S, scan=scan, m=m, K=K, keys=keys, pm=pm, box=box, off=off, base=base, kbase=kbase)
    return ex._ms


def _mono(ex, i, j):
    """instance of the precondition for the pair (i, j), in both directions"""
    st = ex._ms
    L, S = st['L'], st['S']
    inside = z3.And(0 <= i, i < L, 0 <= j, j < L)
    ex.assume(z3.Implies(z3.And(inside, i < j), X0(S(i)) < X0(S(j))))
    ex.assume(z3.Implies(z3.And(inside, j < i), X0(S(j)) < X0(S(i))))


def _landmarks(ex):
    st = ex._ms
    off, nd = st['off'], z3.Length(T.bdom(st['box'].t))
    return [off - 1, off, off + nd - 1, off + nd]


def _p_make_space(ex):
    st = _state(ex)
    marks = _landmarks(ex) + [T.I(0), st['L'] - 1]
    for a in marks:
        for b in marks:
            _mono(ex, a, b)
    return [st['scan'], st['box'], VInt(st['off'])], {}


def _env(ex):
    return {'pos': ex._ms['pm']}


def _key(ex, name):
    """an arbitrary key of the position map"""
    st = ex._ms
    n = T.fresh(name, T.ValS)
    ex.assume(z3.And(0 <= IDX(n), IDX(n) < st['m'], st['K'](IDX(n)) == n))
    ex.list_at(st['keys'], IDX(n))           # instantiates the distinctness fact at this index
    return n


def _bulk(sign):
    """the for-each invariant of `for node, position in pos.items(): if position[0] <=|>= limit: pos[node] = (x -|+ pad, y)`"""
    slot = 'loop%d' % (0 if sign < 0 else 1)

    def shifted(ex, env, k):
        st = ex._ms
        x0, y0 = st[slot]
        limit, pad = ex.to_real(env.lookup('limit')), ex.to_real(env.lookup('pad'))

        def x(n):
            far = x0(n) <= limit if sign < 0 else x0(n) >= limit
            return z3.If(z3.And(IDX(n) < k, far), x0(n) + sign * pad, x0(n))
        return x, y0

    def assume(interp, env, k, seq=None, at_exit=False):
        ex = interp.ex
        st = ex._ms
        x, y = shifted(ex, env, k)
        st['pm'].attrs['x'], st['pm'].attrs['y'] = x, y

    def check(interp, env, k, label, seq=None):
        ex = interp.ex
        st = ex._ms
        if T.int_val(k) == 0:
            st[slot] = (st['pm'].attrs['x'], st['pm'].attrs['y'])       # the positions when the loop is entered
            return
        x, y = shifted(ex, env, k)
        n = _key(ex, 'node')
        ex.prove(label + ':visited keys on the far side of limit are shifted, every other key is untouched (x)',
                 st['pm'].attrs['x'](n) == x(n))
        ex.prove(label + ':no y changes', st['pm'].attrs['y'](n) == y(n))
    return LoopSpec(assume=assume, check=check)


def _e_make_space(interp, args, kwargs, result):
    ex = interp.ex
    st = ex._ms
    L, S, off, box, pm = st['L'], st['S'], st['off'], st['box'], st['pm']
    nd, nc = z3.Length(T.bdom(box.t)), z3.Length(T.bcod(box.t))
    if not ex.branch(L > 0):
        ex.prove('C20:with no open wire the box is placed at 0', isinstance(result, VInt) and result.t == 0)
        return
    x_pos = ex.to_real(result)
    # from the statement: the box (at x_pos) and its output wires (at x_pos - (|cod| - 1) / 2 + i) lie STRICTLY between the
    # neighbouring wires; how much room is left beyond that is the library's choice
    span = z3.If(nc >= 1, (z3.ToReal(nc) - 1) / 2, z3.RealVal(0))
    xF, yF = pm.attrs['x'], pm.attrs['y']

    def at(i):
        return ex.list_at(st['scan'], i).t
    if ex.branch(off > 0):
        ex.prove('C20:the wire left of the box is strictly left of the box and of its leftmost output', xF(at(off - 1)) < x_pos - span)
    if ex.branch(off + nd < L):
        ex.prove('C20:the wire right of the box is strictly right of the box and of its rightmost output', xF(at(off + nd)) > x_pos + span)
    if ex.branch(nd > 0):
        ex.prove('C20:a box with inputs is centred over its first and last input',
                 x_pos == (xF(at(off)) + xF(at(off + nd - 1))) / 2)

    def order():
        i = T.fresh('i', T.IntS)
        ex.assume(z3.And(0 <= i, i + 1 < L))
        _mono(ex, i, i + 1)
        for a in _landmarks(ex):
            _mono(ex, i, a)
            _mono(ex, i + 1, a)
        ex.prove('C20:the open wires stay in strictly increasing order', xF(at(i)) < xF(at(i + 1)))
    ex.side(order)

    def vertical():
        a, b = _key(ex, 'a'), _key(ex, 'b')
        ex.assume(X0(a) == X0(b))
        ex.prove('C20:nodes with the same x keep the same x (vertical wires stay vertical)', xF(a) == xF(b))
        ex.prove('C20:make_space changes no y', yF(a) == Y0(a))
    ex.side(vertical)


_c = contract('drawing.diagram2nx.<locals>.make_space', params=_p_make_space, ensures=_e_make_space, property_ids=PIDS,
              loops={0: _bulk(-1), 1: _bulk(1)})
_c.closure_env_fn = _env
