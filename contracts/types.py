"""The type model is a refinement of the real classes: monoidal.Ty, rigid.Ob, rigid.Ty under contract.

Everywhere else a type is the sequence of its objects (Seq Ob) and `@`, slicing, `len`, `==`, `.l`, `.r` are the
sequence operations.  Here the methods that implement them are verified on their real bodies: `self` is a model value s,
`self._objects` is read as the tuple of the objects of s (the abstraction function), and the result of the body is
compared *pointwise* (same length, same object at a fresh index k; L-ext) with what the model computes for that
method.  A type constructed from a list (`Ty(*objects)`) is the sequence with exactly those elements.

  monoidal.Ty  __init__  objects  tensor (0..3 operands)  __matmul__  __getitem__ (slice / index)  __len__  __eq__
               upgrade  downgrade  __iter__  __pow__ (length; contents by the recursion result @ self)
  rigid.Ob     __init__  z  l  r                (an object is the pair (name, z): rigid.Ob.__eq__, C03)
  rigid.Ty     __init__  upgrade  l  r  z  __lshift__  __rshift__
  lemmas       from the pointwise postconditions of rigid.Ty.l / .r and rigid.Ob.l / .r: adjoints preserve length,
               (t.l).r == t == (t.r).l, (a @ b).l == b.l @ a.l, (a @ b).r == b.r @ a.r, Ty().l == Ty()
               -- the facts `world.ty_adjoint` instantiates at call sites (formerly an assumed axiom family).

Preconditions (outside the model, stated): the arguments of Ty(...) are objects (names given as strings are wrapped
by the constructors: not modelled); slices have no step."""
import z3
from pyvc import terms as T
from pyvc.values import *  # noqa
from pyvc.interp import PyRaise, Unsupported
from pyvc.values import BaseList
from pyvc.world import Contract, LoopSpec
from .core import CONTRACTS, contract, lemma, _opt_int

PIDS = ('C01',)
ADJ = ('C01', 'C04', 'C18')


def _pointwise(ex):
    ex.nth_by_parts = True


def _elems(interp, v):
    return interp.world.as_sequence(interp, v)


def _ob_list(ex, name):
    """a list of objects of symbolic length"""
    n = z3.Int(name + '.len')
    ex.assume(n >= 0)
    f = z3.Function(name + '.at', T.IntS, T.Ob)
    base = ex.register_base(BaseList(name, n, lambda i: VOb(f(i)), 'ob'))
    return VList.of_base(base)


def _same_type(interp, label, got, want):
    """got == want as types, pointwise (L-ext)"""
    ex = interp.ex
    if not isinstance(got, VTy):
        ex.prove(label + ': a type is returned (got %s)' % got.kind, False)
        return
    ex.prove_equal(label, _elems(interp, got), _elems(interp, want))


# ---------------------------------------------------------------- constructors at call sites
def _make_ty(interp, args, kwargs):
    """Ty(*objects): the type whose objects are exactly the given ones, in order"""
    ex = interp.ex
    if kwargs:
        raise Unsupported('Ty(...) with keyword arguments')
    if len(args) == 1 and isinstance(args[0], VStar):
        seq = args[0].seq
        if isinstance(seq, VTy):
            return VTy(seq.t)        # Ty(*ty): iterating a type yields its objects in order (contract of Ty.__iter__)
        lst = seq
    else:
        lst = VList.lit(list(args))
    if lst.is_literal():
        items = lst.items()
        if not all(isinstance(x, VOb) for x in items):
            raise Unsupported('Ty(...) of values that are not objects (names are wrapped by the constructor: not modelled)')
        return VTy(T.ty_concat(*[z3.Unit(x.t) for x in items]) if items else T.EMPTY)
    whole = ex._whole_type(lst)
    if whole is not None:
        return VTy(whole.t)
    m = T.fresh('ty', T.TyS)
    ex.assume(z3.Length(m) == lst.length())
    v = VTy(m)
    v.elems = lst
    return v


def _make_ob(interp, args, kwargs):
    """rigid.Ob(name, z=0): the object with these two fields"""
    ex = interp.ex
    name = args[0]
    z = args[1] if len(args) > 1 else kwargs.get('z', VInt(T.I(0)))
    if not isinstance(name, VVal) or not isinstance(z, VInt):
        raise Unsupported('Ob(...) of a name / winding number outside the model')
    o = T.mk_ob(name.t, z.t)
    ex.assume(T.ob_name(o) == name.t)
    ex.assume(T.ob_z(o) == z.t)
    return VOb(o)


# ---------------------------------------------------------------- cat.Ob / rigid.Ob
contract('cat.Ob.__init__', is_init=True, property_ids=PIDS, spec='''
def spec(self, name):
    self._name = name
''', params=lambda ex: ([VObject('cat.Ob'), VVal(z3.Const('name', T.ValS))], {}))

_c = contract('rigid.Ob.__init__', is_init=True, property_ids=ADJ, spec='''
def spec(self, name, z=0):
    if not isinstance(z, int):
        raise TypeError()
    self._z = z
    self._name = name
''', params=lambda ex: ([VObject('rigid.Ob'), VVal(z3.Const('name', T.ValS))],
                        [{}, {'z': ex.sym_int('z')}, {'z': NONE}][ex.fork(3)]))
_c.make = _make_ob


def _p_ob(ex):
    x = z3.Const('x', T.Ob)
    ex._ob = x
    return [VOb(x)], {}


def _e_ob_adj(delta):
    def ensures(interp, args, kwargs, result):
        ex = interp.ex
        x = ex._ob
        if not isinstance(result, VOb):
            ex.prove('adjoint of an object is an object', False)
            return
        ex.prove('C18:adjoint of an object keeps its name', T.ob_name(result.t) == T.ob_name(x))
        ex.prove('C18:adjoint of an object shifts the winding number by %+d' % delta, T.ob_z(result.t) == T.ob_z(x) + delta)
    return ensures


contract('rigid.Ob.l', params=_p_ob, ensures=_e_ob_adj(-1), property_ids=ADJ)
contract('rigid.Ob.r', params=_p_ob, ensures=_e_ob_adj(1), property_ids=ADJ)
contract('rigid.Ob.z', params=_p_ob, property_ids=ADJ,
         ensures=lambda interp, a, k, r: interp.ex.prove('z is the stored winding number',
                                                          isinstance(r, VInt) and r.t == T.ob_z(interp.ex._ob)))


# ---------------------------------------------------------------- monoidal.Ty
def _p_ty_init(cls):
    def params(ex):
        _pointwise(ex)
        v = ex.fork(4)
        if v == 3:
            return [VObject(cls), VStar(_ob_list(ex, 'objects'))], {}
        return [VObject(cls)] + [VOb(z3.Const('o%d' % j, T.Ob)) for j in range(v)], {}
    return params


_c = contract('monoidal.Ty.__init__', is_init=True, property_ids=PIDS, params=_p_ty_init('monoidal.Ty'), spec='''
def spec(self, *objects):
    self._objects = tuple(objects)
    self._name = self
''')
_c.make = _make_ty

_c = contract('rigid.Ty.__init__', is_init=True, property_ids=ADJ, params=_p_ty_init('rigid.Ty'), spec='''
def spec(self, *t):
    self._objects = tuple(t)
    self._z = 0
    self._name = str(self)
''')
_c.make = _make_ty


def _p_self(ex):
    _pointwise(ex)
    s = ex.sym_ty('self')
    ex._ty = s
    return [s], {}


def _e_objects(interp, args, kwargs, result):
    ex = interp.ex
    if not isinstance(result, VList) or result.is_tuple:
        ex.prove('objects is a list', False)
        return
    ex.prove_equal('C01:Ty.objects lists the objects in order', result, _elems(interp, ex._ty))


contract('monoidal.Ty.objects', params=_p_self, ensures=_e_objects, property_ids=PIDS)


def _ty_list(ex, name):
    """a list of types of symbolic length"""
    n = z3.Int(name + '.len')
    ex.assume(n >= 0)
    f = z3.Function(name + '.at', T.IntS, T.TyS)
    base = ex.register_base(BaseList(name, n, lambda i: VTy(f(i)), 'ty'))
    return VList.of_base(base)


def _p_tensor(ex):
    _pointwise(ex)
    s = ex.sym_ty('self')
    k = ex.fork(5)
    if k == 4:
        others = _ty_list(ex, 'others')          # any number of operands
        ex._ty = (s, others)
        return [s, VStar(others)], {}
    others = [ex.sym_ty('other%d' % j) for j in range(k)]
    ex._ty = (s, others)
    return [s] + others, {}


def _e_tensor(interp, args, kwargs, result):
    ex = interp.ex
    s, others = ex._ty
    if isinstance(others, VList):
        # t.tensor(*types) == t ++ flatten(types), flatten by its recursion (semantics of the nested comprehension)
        ex.prove('C01:Ty.tensor of any number of operands is self followed by their flattening, in order',
                 isinstance(result, VTy) and T.ty_eq(result.t, T.ty_concat(s.t, ex.flat_of(others).t)))
        return
    _same_type(interp, 'C01:Ty.tensor is the concatenation of the operands, in order', result,
               VTy(T.ty_concat(s.t, *[o.t for o in others])))


contract('monoidal.Ty.tensor', params=_p_tensor, ensures=_e_tensor, property_ids=PIDS + ('C02',),
         loops={0: LoopSpec(assume=lambda interp, env, k, seq, at_exit: None, check=lambda interp, env, k, label, seq: None)})


def _p_matmul(ex):
    _pointwise(ex)
    s, o = ex.sym_ty('self'), ex.sym_ty('other')
    ex._ty = (s, [o])
    return [s, o], {}


contract('monoidal.Ty.__matmul__', params=_p_matmul, ensures=_e_tensor, property_ids=PIDS + ('C02',))


def _p_getitem(ex):
    _pointwise(ex)
    s = ex.sym_ty('self')
    if ex.fork(2) == 0:
        key = VSlice(_opt_int(ex, 'start'), _opt_int(ex, 'stop'), NONE)
    else:
        key = ex.sym_int('key')
    ex._ty = (s, key)
    return [s, key], {}


def _e_getitem(interp, args, kwargs, result):
    ex = interp.ex
    s, key = ex._ty
    if isinstance(key, VSlice):
        _same_type(interp, 'C01:Ty[a:b] is the slice of the objects', result, ex.ty_slice(s, key))
    else:
        n = T.ty_len(s.t)
        ex.prove('C01:Ty[i] is defined only inside the bounds', z3.And(-n <= key.t, key.t < n))
        if isinstance(result, VOb):
            try:
                want = ex.ty_at(s, key.t)
            except PyRaise:
                return      # outside the bounds: already reported by the obligation above
            ex.prove('C01:Ty[i] is the i-th object', result.t == want.t)
        else:
            ex.prove('C01:Ty[i] is an object', False)


def _r_getitem(interp, args, kwargs, exc):
    ex = interp.ex
    s, key = ex._ty
    ex.prove('C01:Ty[...] refuses only with IndexError (raised %s)' % exc, z3.BoolVal(exc == 'IndexError'))
    if isinstance(key, VInt):
        n = T.ty_len(s.t)
        ex.prove('C01:Ty[i] refuses only outside the bounds', z3.Or(key.t < -n, key.t >= n))
    else:
        ex.prove('C01:a slice is never refused', False)


contract('monoidal.Ty.__getitem__', params=_p_getitem, ensures=_e_getitem, on_raise=_r_getitem, property_ids=PIDS)

contract('monoidal.Ty.__len__', params=_p_self, property_ids=PIDS,
         ensures=lambda interp, a, k, r: interp.ex.prove('C01:len(Ty) is the number of objects',
                                                          isinstance(r, VInt) and r.t == T.ty_len(interp.ex._ty.t)))


def _p_eq(ex):
    _pointwise(ex)
    s = ex.sym_ty('self')
    v = ex.fork(3)
    other = [ex.sym_ty('other'), ex.sym_int('other'), NONE][v]
    ex._ty = (s, other)
    return [s, other], {}


def _e_eq(interp, args, kwargs, result):
    ex = interp.ex
    s, other = ex._ty
    if not isinstance(result, VBool):
        ex.prove('C03:Ty.__eq__ returns a boolean', False)
        return
    if isinstance(other, VTy):
        ex.prove('C03:two types are equal exactly when their objects are', result.t == T.ty_eq(s.t, other.t))
    else:
        ex.prove('C03:a type is not equal to a value that is not a type', z3.Not(result.t))


contract('monoidal.Ty.__eq__', params=_p_eq, ensures=_e_eq, property_ids=PIDS + ('C03',))

contract('monoidal.Ty.upgrade', params=_p_self, property_ids=PIDS,
         ensures=lambda interp, a, k, r: _same_type(interp, 'C01:Ty.upgrade is the identity', r, interp.ex._ty))
contract('rigid.Ty.upgrade', params=_p_self, property_ids=ADJ,
         ensures=lambda interp, a, k, r: _same_type(interp, 'C01:rigid.Ty.upgrade keeps the objects', r, interp.ex._ty))
contract('monoidal.Ty.downgrade', params=_p_self, property_ids=PIDS,
         ensures=lambda interp, a, k, r: _same_type(interp, 'C01:Ty.downgrade keeps the objects', r, interp.ex._ty))


# ---------------------------------------------------------------- rigid.Ty adjoints
def _adjoint_elems(interp, lst, side):
    """the pointwise definition: [x.l for x in reversed(lst)]"""
    ex = interp.ex
    n = lst.length()
    f = T.ob_l if side == 'l' else T.ob_r

    def at(i):
        x = ex.list_at(lst, z3.simplify(n - 1 - i))
        return interp.world.getattr(interp, x, side)
    return VList.of_base(ex.register_base(BaseList('adj_' + side, n, at, 'ob')))


def _e_ty_adj(side):
    def ensures(interp, args, kwargs, result):
        ex = interp.ex
        s = ex._ty
        if not isinstance(result, VTy):
            ex.prove('the adjoint of a type is a type', False)
            return
        ex.prove_equal('C18:Ty.%s is the reversed list of the objects\' adjoints' % side, _elems(interp, result),
                       _adjoint_elems(interp, _elems(interp, s), side))
    return ensures


contract('rigid.Ty.l', params=_p_self, ensures=_e_ty_adj('l'), property_ids=ADJ)
contract('rigid.Ty.r', params=_p_self, ensures=_e_ty_adj('r'), property_ids=ADJ)


def _p_two(ex):
    _pointwise(ex)
    a, b = ex.sym_ty('self'), ex.sym_ty('other')
    ex._ty = (a, b)
    return [a, b], {}


def _e_shift(which):
    def ensures(interp, args, kwargs, result):
        ex = interp.ex
        a, b = ex._ty
        w = interp.world
        if which == 'over':
            want = VTy(T.ty_concat(a.t, w.ty_adjoint(interp, b.t, 'l')))
        else:
            want = VTy(T.ty_concat(w.ty_adjoint(interp, a.t, 'r'), b.t))
        ex.prove('C18:a %s b on rigid types' % ('<<' if which == 'over' else '>>'),
                 isinstance(result, VTy) and T.ty_eq(result.t, want.t))
    return ensures


contract('rigid.Ty.__lshift__', params=_p_two, ensures=_e_shift('over'), property_ids=ADJ)
contract('rigid.Ty.__rshift__', params=_p_two, ensures=_e_shift('under'), property_ids=ADJ)


# ---------------------------------------------------------------- the pregroup facts, from the pointwise postconditions
def _ob_ext(ex, a, b):
    """L-ob: an object is determined by (name, z) -- rigid.Ob.__eq__ compares exactly these (C03's obligations)"""
    ex.assume(z3.Implies(z3.And(T.ob_name(a) == T.ob_name(b), T.ob_z(a) == T.ob_z(b)), a == b))


def _adj_list(interp, lst, side):
    return _adjoint_elems(interp, lst, side)


def _lemma_inverse(side):
    other = 'r' if side == 'l' else 'l'

    def run(interp):
        ex = interp.ex
        _pointwise(ex)
        s = _ob_list(ex, 's')
        back = _adj_list(interp, _adj_list(interp, s, side), other)
        ex.prove('C18:adjoints preserve the length', back.length() == s.length())
        k = T.fresh('k', T.IntS)
        ex.assume(z3.And(0 <= k, k < s.length()))
        x, y = ex.list_at(back, k), ex.list_at(s, k)
        _ob_ext(ex, x.t, y.t)
        ex.prove('C18:(t.%s).%s == t, pointwise' % (side, other), x.t == y.t)
    return run


def _lemma_antihom(side):
    def run(interp):
        ex = interp.ex
        _pointwise(ex)
        a, b = _ob_list(ex, 'a'), _ob_list(ex, 'b')
        lhs = _adj_list(interp, VList(a.segs + b.segs), side)
        ra, rb = _adj_list(interp, a, side), _adj_list(interp, b, side)
        rhs = VList(rb.segs + ra.segs)
        ex.prove_equal('C18:(a @ b).%s == b.%s @ a.%s, pointwise' % (side, side, side), lhs, rhs)
        ex.prove('C18:the adjoint of the empty type is empty', _adj_list(interp, VList([]), side).length() == 0)
    return run


for _s in ('l', 'r'):
    lemma('adjoint.inverse.' + _s, _lemma_inverse(_s), ADJ)
    lemma('adjoint.antihom.' + _s, _lemma_antihom(_s), ADJ)


# ---------------------------------------------------------------- iteration, winding number of a one-object type
def _y_iter(interp, env, value, args):
    ex = interp.ex
    s = args[0]
    i = env.lookup('i')
    try:
        want = ex.ty_at(s, i.t)
    except PyRaise:
        ex.prove('C01:Ty.__iter__ stays inside the bounds', False)
        return
    ex.prove('C01:Ty.__iter__ yields the i-th object at step i', isinstance(value, VOb) and value.t == want.t)


def _iter_assume(interp, env, k, seq, at_exit):
    ex = interp.ex
    if at_exit:
        ex.prove('C01:Ty.__iter__ yields exactly len(self) objects', k == T.ty_len(ex._ty.t))


_c = contract('monoidal.Ty.__iter__', params=_p_self, ensures=lambda interp, a, k, r: None, property_ids=PIDS,
              loops={0: LoopSpec(assume=_iter_assume, check=lambda interp, env, k, label, seq: None)})
_c.on_yield = _y_iter


def _e_z(interp, args, kwargs, result):
    ex = interp.ex
    s = ex._ty
    ex.prove('C18:only a one-object type has a winding number', T.ty_len(s.t) == 1)
    ex.prove('C18:Ty.z is the winding number of its object',
             isinstance(result, VInt) and result.t == T.ob_z(ex.ty_at(s, T.I(0)).t))


def _r_z(interp, args, kwargs, exc):
    ex = interp.ex
    ex.prove('C18:Ty.z refuses with TypeError (raised %s)' % exc, z3.BoolVal(exc == 'TypeError'))
    ex.prove('C18:Ty.z refuses only types that are not one object', T.ty_len(ex._ty.t) != 1)


contract('rigid.Ty.z', params=_p_self, ensures=_e_z, on_raise=_r_z, property_ids=ADJ)



# ---------------------------------------------------------------- upgrade of arrows and diagrams
def _p_arrow_up(ex):
    a = ex.sym_arrow('old', wf=True)
    ex._up = a
    return [a], {}


def _p_diagram_up(ex):
    d = ex.sym_diagram('old', wf=True)
    ex._up = d
    return [d], {}


def _e_up(interp, args, kwargs, result):
    interp.ex.prove_equal('C01:upgrade keeps dom, cod, boxes, offsets and layers', result, interp.ex._up)


contract('cat.Arrow.upgrade', params=_p_arrow_up, ensures=_e_up, property_ids=PIDS)
contract('monoidal.Diagram.upgrade', params=_p_diagram_up, ensures=_e_up, property_ids=PIDS)
_c = contract('monoidal.Diagram.subclass.<locals>.upgrade', params=_p_diagram_up, ensures=_e_up, property_ids=PIDS)
_c.closure_env = {'ar_factory': VClass('rigid.Diagram')}


# ---------------------------------------------------------------- powers of a type: t ** n is the n-fold tensor of t
POW = z3.Function('ty_power', T.TyS, T.IntS, T.TyS)     # pow(t, 0) = (), pow(t, k + 1) = pow(t, k) ++ t   (definition)


def _p_pow(ex):
    _pointwise(ex)
    s = ex.sym_ty('self')
    v = ex.fork(2)
    n = ex.sym_int('n_times') if v == 0 else NONE
    ex._ty = (s, n)
    ex.assume(POW(s.t, T.I(0)) == T.EMPTY)
    return [s, n], {}


def _pow_assume(interp, env, k, seq, at_exit):
    ex = interp.ex
    s, n = ex._ty
    env.set('result', VTy(POW(s.t, k)))


def _pow_check(interp, env, k, label, seq):
    ex = interp.ex
    s, n = ex._ty
    if T.int_val(k) != 0:
        ex.assume(POW(s.t, k) == T.ty_concat(POW(s.t, k - 1), s.t))          # the defining equation at k - 1
        # lemma type.power.commutes (by induction, below): appending or prepending t to a power of t is the same
        ex.assume(T.ty_concat(POW(s.t, k - 1), s.t) == T.ty_concat(s.t, POW(s.t, k - 1)))
    cur = env.lookup('result')
    ex.prove(label + ':result is the k-fold tensor of self', isinstance(cur, VTy) and T.ty_eq(cur.t, POW(s.t, k)))


def _e_pow(interp, args, kwargs, result):
    ex = interp.ex
    s, n = ex._ty
    if not isinstance(n, VInt):
        ex.prove('C01:Ty ** n accepts only integers', False)
        return
    times = z3.If(n.t > 0, n.t, 0)
    ex.prove('C01:t ** n is the n-fold tensor of t (the unit for n <= 0)', isinstance(result, VTy) and T.ty_eq(result.t, POW(s.t, times)))


def _r_pow(interp, args, kwargs, exc):
    ex = interp.ex
    s, n = ex._ty
    ex.prove('C01:Ty ** n refuses only non-integers, with TypeError (raised %s)' % exc,
             z3.BoolVal(exc == 'TypeError' and not isinstance(n, VInt)))


contract('monoidal.Ty.__pow__', params=_p_pow, ensures=_e_pow, on_raise=_r_pow, property_ids=PIDS,
         loops={0: LoopSpec(assume=_pow_assume, check=_pow_check)})


def _lemma_pow_commutes(interp):
    ex = interp.ex
    t, k = z3.Const('t', T.TyS), z3.Int('k')
    ex.assume(k >= 1)
    ex.assume(POW(t, T.I(0)) == T.EMPTY)
    ex.prove('C01:pow(t, 0) ++ t == t ++ pow(t, 0)   (base)', T.ty_eq(T.ty_concat(POW(t, T.I(0)), t), T.ty_concat(t, POW(t, T.I(0)))))
    ex.assume(POW(t, k) == T.ty_concat(POW(t, k - 1), t))                      # definition at k - 1
    ex.assume(T.ty_concat(POW(t, k - 1), t) == T.ty_concat(t, POW(t, k - 1)))   # induction hypothesis at k - 1
    ex.prove('C01:pow(t, k) ++ t == t ++ pow(t, k)   (step)', T.ty_eq(T.ty_concat(POW(t, k), t), T.ty_concat(t, POW(t, k))))


lemma('type.power.commutes', _lemma_pow_commutes, PIDS)
