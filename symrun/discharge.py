"""Discharge the polynomial identities produced by symrun with z3 (QF_NRA), under python3-vt.

identity:  for all reals c, s (and extra symbols) with c^2+s^2 = 1, r2^2 = 2, r2 > 0 :  p = 0
query   :  constraints and p != 0  ->  unsat"""
import time
import z3


def _poly(expr, env):
    return eval(expr, {'__builtins__': {}}, env)      # strings come from our own sympy printer


def _circle(env, solver):
    """c_k^2 + s_k^2 = 1 for every angle that occurs, r2 = sqrt(2)"""
    import re
    sufs = set()
    for v in list(env):
        m = re.fullmatch(r'[cs](\d*)', v)
        if m:
            sufs.add(m.group(1))
    for suf in sufs:
        ck = env.setdefault('c' + suf, z3.Real('c' + suf))
        sk = env.setdefault('s' + suf, z3.Real('s' + suf))
        solver.add(ck * ck + sk * sk == 1)
    if 'r2' in env:
        solver.add(env['r2'] * env['r2'] == 2, env['r2'] > 0)


def discharge(res, tier):
    out = {'status': 'ok', 'obligations': 0, 'discharged': 0, 'failed': [], 'unknown': [], 'samples': [],
           'solver_time_total_s': 0.0, 'solver_time_max_s': 0.0, 'functions': set(), 'wall_native_s': res.get('wall_s')}
    timeout = 20000 if tier == 'quick' else 120000
    for ob in res['obligations']:
        out['functions'].update(ob.get('functions', []))
        if 'unsupported' in ob or 'shape_mismatch' in ob:
            out['obligations'] += 1
            if 'shape_mismatch' in ob:
                out['failed'].append({'name': ob['name'], 'what': ob.get('what', '') + ' shape mismatch %r' %
                                      (ob['shape_mismatch'],), 'native_confirmed': True})
            else:
                out['unknown'].append('%s: %s' % (ob['name'], ob['unsupported']))
            continue
        if 'ground' in ob:
            out['obligations'] += 1
            if ob['ground']:
                out['discharged'] += 1
            else:
                out['failed'].append({'name': ob['name'], 'what': ob.get('what', ''), 'native_confirmed': True})
            continue
        out['obligations'] += 1
        if 'all_zero_unsat' in ob:
            env = {v: z3.Real(v) for v in ob['vars']}
            env['pi'] = z3.Real('pi')
            sol = z3.Solver()
            sol.set('timeout', timeout)
            _circle(env, sol)
            for z in ob['all_zero_unsat']:
                sol.add(_poly(z, env) == 0)
            r = sol.check()
            if r == z3.unsat:
                out['discharged'] += 1
            elif r == z3.sat:
                m = sol.model()
                out['failed'].append({'name': ob['name'], 'what': ob.get('what', ''),
                                      'solver_model': {str(d): str(m[d]) for d in m.decls()},
                                      'native_confirmed': False})
            else:
                out['unknown'].append(ob['name'])
            continue
        if not ob['zero']:
            out['discharged'] += 1      # every entry normalised to the zero polynomial
            if len(out['samples']) < 3:
                out['samples'].append({'identity': ob['name'], 'entries': ob.get('entries'),
                                       'normal_form': 'all entries reduce to 0 syntactically'})
            continue
        env = {v: z3.Real(v) for v in ob['vars']}
        env['pi'] = z3.Real('pi')    # pi as a free real: the identities hold for any value of the constant
        s = z3.Solver()
        s.set('timeout', timeout)
        _circle(env, s)
        s.add(z3.Or(*[_poly(z.replace('^', '**'), env) != 0 for z in ob['zero']]))
        t0 = time.time()
        r = s.check()
        dt = time.time() - t0
        out['solver_time_total_s'] += dt
        out['solver_time_max_s'] = max(out['solver_time_max_s'], dt)
        if r == z3.unsat:
            out['discharged'] += 1
            if len(out['samples']) < 6:
                out['samples'].append({'identity': ob['name'], 'residual_polynomials': ob['zero'][:2],
                                       'verdict': 'unsat (holds for all parameter values)'})
        elif r == z3.sat:
            m = s.model()
            model = {str(d): str(m[d]) for d in m.decls()}
            out['failed'].append({'name': ob['name'], 'what': ob.get('what', ''), 'residual': ob['zero'][:4],
                                  'solver_model': model, 'native_witness': ob.get('numeric'),
                                  'got_sample': ob.get('got_sample'), 'want_sample': ob.get('want_sample'),
                                  'native_confirmed': bool(ob.get('numeric'))})
        else:
            out['unknown'].append(ob['name'])
    out['skipped'] = res.get('skipped', [])
    out['functions'] = sorted(out['functions'])
    out['solver_time_total_s'] = round(out['solver_time_total_s'], 3)
    out['solver_time_max_s'] = round(out['solver_time_max_s'], 3)
    out['by_solver'] = {'z3-nra': out['discharged']}
    return out
