"""C15: per-box gradient rules of the real code, for an arbitrary differentiable phase f(x)
(the chain-rule factor f'(x) is the free symbol g); pure rule: eval(grad) = d/dx eval; mixed
(parameter-shift) rule: CQ-eval(grad) = d/dx CQ-eval.  Diagram-level product rule on symbolic
samples with several symbols occurring several times."""
import itertools
import numpy
import sympy
from sympy import I, Symbol, Function, Derivative, conjugate

from discopy import tensor
from discopy.tensor import Dim, Tensor
from discopy.quantum import gates, circuit, zx
from discopy.quantum.gates import Rx, Ry, Rz, CU1, CRz, CRx, scalar
from symrun.harness import Suite
from symrun.interp import zx_matrix, mat_list

x, y = sympy.symbols('x y', real=True)
z = sympy.Symbol('z', real=True)
g = Symbol('g', real=True)       # stands for f'(x)
f = Function('f', real=True)(x)


def clean(e):
    e = sympy.sympify(e)
    return e.subs(Derivative(f, x), g).doit().subs(Derivative(f, x), g)


def arr(t, like=None):
    if not hasattr(t, 'array'):      # Sum([]).eval() is the number 0: the zero map of any type
        assert t == 0
        return [0] * (len(like) if like is not None else 1)
    return [clean(v) for v in numpy.array(t.array, dtype=object).flatten()]


def diff_arr(t, var):
    return [clean(sympy.diff(sympy.sympify(v), var)) for v in numpy.array(t.array, dtype=object).flatten()]


def total(s, **kw):
    """evaluate a formal sum / circuit returned by grad"""
    r = s.eval(**kw)
    return r


def run(tier):
    suite = Suite()
    rot1 = {'Rx': Rx, 'Ry': Ry, 'Rz': Rz}
    rot2 = {'CU1': CU1, 'CRz': CRz, 'CRx': CRx}
    for name, cls in list(rot1.items()) + list(rot2.items()):
        gate = cls(f)
        fq = ['quantum.gates.%s.grad' % (name if name in rot2 else 'Rotation')]
        suite.identity('%s.grad.pure' % name, arr(total(gate.grad(x, mixed=False))), diff_arr(gate.eval(), x),
                       angle=f, extra=(g,), functions=fq,
                       what='eval(%s(f(x)).grad(x, mixed=False)) = d/dx eval(%s(f(x))) for every differentiable f' % (name, name))
        zero = cls(f).grad(y, mixed=False)
        suite.fact('%s.grad.other_symbol' % name, len(zero.terms) == 0 and (zero.dom, zero.cod) == (gate.dom, gate.cod),
                   what='a box not depending on the symbol has the empty sum as gradient', functions=fq)
    for name, cls in rot1.items():
        gate = cls(f)
        suite.identity('%s.grad.mixed' % name, arr(total(gate.grad(x), mixed=True)),
                       diff_arr(gate.eval(mixed=True), x), angle=f, extra=(g,),
                       functions=['quantum.gates.Rotation.grad', 'quantum.cqmap.Functor._ar', 'quantum.circuit.Sum.eval'],
                       what='parameter shift: CQ-eval(%s(f(x)).grad(x)) = d/dx CQ-eval(%s(f(x)))' % (name, name))
    for name, cls in rot2.items():
        # controlled rotations: the default (parameter-shift) gradient is either refused or the derivative of the CQ map
        gate = cls(f)
        fq2 = ['quantum.gates.%s.grad' % name]
        try:
            gr = gate.grad(x)
        except NotImplementedError:
            # the statement quantifies over controlled rotations with the default parameter-shift gradients: no sum
            # is returned for them (known finding F28)
            suite.fact('%s.grad.default.refused' % name, False, functions=fq2,
                       what='the default gradient of %s(f(x)) is refused with NotImplementedError: no formal sum is '
                            'returned whose evaluation could be the derivative of the classical-quantum map' % name)
            continue
        suite.identity('%s.grad.mixed' % name, arr(total(gr, mixed=True)), diff_arr(gate.eval(mixed=True), x), angle=f,
                       extra=(g,), functions=fq2 + ['quantum.cqmap.Functor._ar'],
                       what='CQ-eval(%s(f(x)).grad(x)) = d/dx CQ-eval(%s(f(x))) whenever a gradient is returned' % (name, name))
    # scalars
    s_ = scalar(x ** 2 * y + I * x)
    suite.identity('Scalar.grad.pure', arr(total(s_.grad(x, mixed=False))), diff_arr(s_.eval(), x), extra=(x, y),
                   functions=['quantum.gates.Scalar.grad'])
    sm = scalar(x ** 2 * y, is_mixed=True)
    suite.identity('Scalar.grad.mixed_scalar', arr(total(sm.grad(x), mixed=True)), diff_arr(sm.eval(mixed=True), x),
                   extra=(x, y), functions=['quantum.gates.Scalar.grad'],
                   what='gradient of a mixed scalar under the default gradient')
    sp = scalar(x ** 2 + y)
    suite.identity('Scalar.grad.pure_scalar_under_mixed_gradient', arr(total(sp.grad(x), mixed=True)),
                   diff_arr(sp.eval(mixed=True), x), extra=(x, y), functions=['quantum.gates.Scalar.grad'],
                   what='default (mixed) gradient of a PURE symbolic scalar s(x): d/dx |s|^2 (Scalar.grad ignores mixed)')
    # zx spiders and scalars
    legs = [(1, 1), (0, 1), (1, 2), (2, 1), (2, 0)] if tier == 'quick' else \
        [(i, o) for i in range(3) for o in range(3)]
    for cls in (zx.Z, zx.X):
        for i, o in legs:
            sp_ = cls(i, o, f)
            # ZX diagrams have no evaluation inside discopy; the rule pi*f'*S(a + 1/2) is the derivative
            # in the symmetric phase convention (as for Rz), which is the convention checked here
            got = zx_matrix_sum(sp_.grad(x), symmetric=True)
            want = [[clean(sympy.diff(e, x)) for e in row] for row in mat_list(zx_matrix(sp_, symmetric=True))]
            suite.identity('zx.%s(%d,%d).grad' % (cls.__name__, i, o), [[clean(e) for e in row] for row in got], want,
                           angle=f, extra=(g,), functions=['quantum.zx.Spider.grad'],
                           what='the gradient of a spider denotes the derivative of what the spider denotes '
                                '(symmetric phase convention e^{-i pi a}|0..0><0..0| + e^{i pi a}|1..1><1..1|)')
    zs = zx.scalar(x ** 3 * y)
    suite.identity('zx.Scalar.grad', [[clean(e) for e in row] for row in zx_matrix_sum(zs.grad(x))],
                   [[3 * x ** 2 * y]], extra=(x, y), functions=['quantum.zx.Scalar.grad'])
    # tensor boxes and bubbles (polynomial, single wire)
    v = tensor.Box('v', Dim(1), Dim(2), [x ** 2 + y, x * y])
    suite.identity('tensor.Box.grad', arr(v.grad(x).eval()), diff_arr(v.eval(), x), extra=(x, y),
                   functions=['tensor.Box.grad', 'tensor.Functor.__call__'])
    for k, func in enumerate([lambda t: t ** 2, lambda t: t ** 3 + 2 * t, lambda t: 1 - t]):
        b = v.bubble(func=func)
        suite.identity('tensor.Bubble.grad[%d]' % k, arr(b.grad(x).eval()), diff_arr(b.eval(), x), extra=(x, y),
                       functions=['tensor.Bubble.grad'], what='chain rule for a polynomial bubble on one wire')
    # a box that does not depend on the symbol has the empty sum as gradient
    zb = v.grad(Symbol('z'))
    suite.fact('tensor.Box.grad.other_symbol', isinstance(zb, tensor.Sum) and len(zb.terms) == 0 and (zb.dom, zb.cod) == (v.dom, v.cod),
               functions=['tensor.Box.grad'], what='tensor.Box.grad of an independent box is the empty sum (got %r)' % (zb,))
    # a diagram whose first box is a swap: the gradient is still a sum of tensor diagrams that evaluates
    with suite.guard('tensor.Diagram.grad.swap_first', ['tensor.Diagram.grad', 'tensor.Sum']):
        dsw = tensor.Swap(Dim(2), Dim(2)) >> tensor.Box('g', Dim(2, 2), Dim(1), [x, 0, y * x, 1])
        suite.identity('tensor.Diagram.grad.swap_first', arr(total(dsw.grad(x))), diff_arr(dsw.eval(), x), extra=(x, y),
                       functions=['tensor.Diagram.grad', 'monoidal.Sum.upgrade'])
    # daggered symbolic tensor boxes (non-square, non-symmetric, complex entries): the box rule under the dagger
    with suite.guard('tensor.Box.grad.dagger', ['tensor.Box.grad']):
        fb = tensor.Box('f', Dim(2), Dim(3), [x, x ** 2, y, x * y, I * x, 2 * x])
        for nm, dd in (('f.dagger()', fb.dagger()), ('f >> f.dagger()', fb >> fb.dagger()), ('f.dagger() >> f', fb.dagger() >> fb),
                       ('f.dagger().dagger()', fb.dagger().dagger())):
            suite.identity('tensor.grad[%s]' % nm, arr(total(dd.grad(x))), diff_arr(dd.eval(), x), extra=(x, y),
                           functions=['tensor.Box.grad', 'tensor.Diagram.grad'],
                           what='gradient of a diagram with a daggered symbolic box = derivative of its evaluation')
    # the same parametrised box several times (equal boxes at different positions): the product rule differentiates each
    # OCCURRENCE once
    with suite.guard('grad.equal_boxes', ['tensor.Diagram.grad']):
        fe = tensor.Box('f', Dim(2), Dim(2), [x, 1, y, x * y])
        for nm, dd in (('f >> f', fe >> fe), ('f @ f', fe @ fe), ('f >> f >> f', fe >> fe >> fe),
                       ('f @ f >> f @ f', fe @ fe >> fe @ fe)):
            suite.identity('tensor.grad.equal_boxes[%s]' % nm, arr(total(dd.grad(x))), diff_arr(dd.eval(), x), extra=(x, y),
                           functions=['tensor.Diagram.grad'])
        for nm, cc in (('Rx(x) @ Rx(x) >> CX', gates.Ket(0, 0) >> Rx(x) @ Rx(x) >> gates.CX),
                       ('Rx(x) >> Rz(y) >> Rx(x)', gates.Ket(0) >> Rx(x) >> Rz(y) >> Rx(x))):
            suite.identity('circuit.grad.equal_boxes[%s].pure' % nm, arr(total(cc.grad(x, mixed=False), mixed=False)),
                           diff_arr(cc.eval(mixed=False), x), angle=[x, y], functions=['tensor.Diagram.grad', 'quantum.gates.Rotation.grad'])
            suite.identity('circuit.grad.equal_boxes[%s].mixed' % nm, arr(total(cc.grad(x), mixed=True)),
                           diff_arr(cc.eval(mixed=True), x), angle=[x, y], functions=['tensor.Diagram.grad', 'quantum.gates.Rotation.grad'])
    # square-root scalars: the chain rule through the root (numeric at three points: the root is outside the polynomial form)
    with suite.guard('Sqrt.grad', ['quantum.gates.Scalar.grad']):
        from discopy.quantum.gates import sqrt as _sqrt
        for nm, sc_, cc in (('sqrt(x**2 + y)', _sqrt(x ** 2 + y), _sqrt(x ** 2 + y) @ gates.Ket(0) >> Ry(y)),
                            ('sqrt(x)', _sqrt(x), _sqrt(x) @ gates.Ket(0) >> Rx(x))):
            ok = True
            for vx, vy in ((0.7, 0.3), (1.9, 0.45), (0.2, 1.1)):
                sub = [(x, vx), (y, vy)]
                got = numpy.array(cc.grad(x, mixed=False).subs(sub).eval(mixed=False).array, dtype=complex).flatten()
                amp = [sympy.sympify(v) for v in numpy.array(cc.eval(mixed=False).array, dtype=object).flatten()]
                want = numpy.array([complex(sympy.N(sympy.diff(a_, x).subs(sub))) for a_ in amp])
                ok = ok and got.shape == want.shape and numpy.allclose(got, want, atol=1e-8)
            suite.fact('Sqrt.grad[%s].pure' % nm, bool(ok), functions=['quantum.gates.Scalar.grad'],
                       what='pure gradient of a circuit with the scalar %s = derivative of the amplitudes (numeric at 3 points)' % nm)
        zs = _sqrt(y).grad(x)
        suite.fact('Sqrt.grad.other_symbol', hasattr(zs, 'terms') and len(zs.terms) == 0, functions=['quantum.gates.Scalar.grad'],
                   what='a square root that does not depend on the symbol has the empty sum as gradient')
    # formal sums of circuits: pure gradients (mixed=False reaches every term) and second derivatives
    with suite.guard('circuit.Sum.grad', ['quantum.circuit.Sum.grad']):
        cs = (gates.Ket(0) >> Rx(x) >> Rz(x * y)) + (gates.Ket(0) >> Ry(x ** 2 + y))
        gp = cs.grad(x, mixed=False)
        ev = gp.eval(mixed=False)
        suite.fact('circuit.Sum.grad.pure.kind', type(ev).__name__ == 'Tensor', functions=['quantum.circuit.Sum.grad'],
                   what='the pure gradient of a sum of pure circuits evaluates to amplitudes (got a %s)' % type(ev).__name__)
        suite.identity('circuit.Sum.grad.pure', arr(ev), diff_arr(cs.eval(mixed=False), x), angle=[x, y],
                       functions=['quantum.circuit.Sum.grad'], what='pure gradient of a formal sum = sum of the pure gradients')
        c1 = gates.Ket(0) >> Rx(x) >> Rz(2 * x)
        g2 = c1.grad(x, mixed=False).grad(x, mixed=False)
        amp = [sympy.sympify(v) for v in numpy.array(c1.eval(mixed=False).array, dtype=object).flatten()]
        ok2 = True
        for val in (0.13, -0.4, 1.7):
            got2 = numpy.array(g2.subs(x, val).eval(mixed=False).array, dtype=complex).flatten()
            want2 = numpy.array([complex(sympy.N(sympy.diff(a_, x, 2).subs(x, val))) for a_ in amp])
            ok2 = ok2 and got2.shape == want2.shape and numpy.allclose(got2, want2, atol=1e-8)
        suite.fact('circuit.grad.second.pure', bool(ok2), functions=['quantum.circuit.Sum.grad'],
                   what='second pure derivative (the gradient of a gradient is a sum of circuits), compared numerically at '
                        'x = 0.13, -0.4, 1.7 (the factor pi ** 2 is outside the polynomial normal form)')
    # a formal sum of tensor diagrams differentiates term by term
    with suite.guard('tensor.Sum.grad', ['tensor.Sum.grad']):
        ts = tensor.Box('v', Dim(1), Dim(2), [x ** 2, y]) + (tensor.Box('w', Dim(1), Dim(2), [y, x * y]))
        suite.identity('tensor.Sum.grad', arr(total(ts.grad(x))), diff_arr(ts.eval(), x), extra=(x, y),
                       functions=['tensor.Sum.grad'], what='gradient of a sum of tensor diagrams = derivative of its evaluation')
        suite.identity('tensor.Sum.grad.other_symbol', arr(total(ts.grad(Symbol('z'))), like=[0, 0]), [0, 0],
                       functions=['tensor.Sum.grad'])
    # bubbles inside a composite: the product rule must include the bubble's term
    hh = tensor.Box('h', Dim(2), Dim(2), [1, 2, 3, 4])
    gg = tensor.Box('g', Dim(2), Dim(2), [x ** 2, 1, y, x])
    sq = lambda t: t ** 2
    for name, dd in (('h >> g.bubble', hh >> gg.bubble(func=sq)), ('g.bubble >> h', gg.bubble(func=sq) >> hh),
                     ('g >> g.bubble', gg >> gg.bubble(func=sq))):
        with suite.guard('tensor.Diagram.grad.with_bubble[%s]' % name, ['tensor.Diagram.grad']):
            suite.identity('tensor.Diagram.grad.with_bubble[%s]' % name, arr(total(dd.grad(x))), diff_arr(dd.eval(), x),
                           extra=(x, y), functions=['tensor.Diagram.grad', 'tensor.Bubble.grad', 'cat.Bubble.__init__'],
                           what='the gradient of a composite containing a bubble that depends on the symbol')
    d = v >> tensor.Box('m', Dim(2), Dim(2), [x, 1, y, x ** 2]) >> v.dagger()
    suite.identity('tensor.Diagram.grad.product_rule', arr(d.grad(x).eval()), diff_arr(d.eval(), x), extra=(x, y),
                   functions=['tensor.Diagram.grad'], what='product rule over layers, symbol occurring in every box')
    zero = d.grad(Symbol('z'))
    suite.fact('tensor.Diagram.grad.zero', len(zero.terms) == 0 and (zero.dom, zero.cod) == (d.dom, d.cod),
               functions=['tensor.Diagram.grad'])
    jac = d.jacobian([x, y]).eval()
    want = [clean(sympy.diff(sympy.sympify(e), var)) for var in (x, y)
            for e in numpy.array(d.eval().array, dtype=object).flatten()]
    suite.identity('tensor.Diagram.jacobian.order', arr(jac), want, extra=(x, y), functions=['tensor.Diagram.jacobian'],
                   what='the jacobian stacks the gradients in the order of the variables')
    # jacobians of tensors with a non-trivial domain: entry [input, k, output] is the derivative of entry [input, output]
    # with respect to variables[k] (the new axis comes after the domain axes), for values and for diagrams
    with suite.guard('jacobian with a domain', ['tensor.Tensor.jacobian', 'tensor.Diagram.jacobian']):
        fb2 = tensor.Box('f', Dim(2), Dim(3), [x * y, x ** 2, y, x + y, sympy.sin(x), y ** 3])
        gb2 = tensor.Box('g', Dim(3), Dim(3), [x, 0, 1, y, x * y, 0, 2, 1, y ** 2])
        for nm, dg in (('box 2->3', fb2), ('diagram 2->3', fb2 >> gb2), ('diagram 2->2x3', tensor.Id(Dim(2)) @ v >> fb2.dagger().dagger() @ tensor.Id(Dim(2)) >> tensor.Swap(Dim(3), Dim(2)))):
            ev = dg.eval()
            base = numpy.array(ev.array, dtype=object).reshape(tuple(ev.dom) + tuple(ev.cod))
            for vs in ([x, y], [y, x], [x, y, z], [x, y, x], [z, z, y, x]):
                want_a = numpy.empty(tuple(ev.dom) + (len(vs),) + tuple(ev.cod), dtype=object)
                for idx in itertools.product(*[range(n_) for n_ in tuple(ev.dom)]):
                    for k, var in enumerate(vs):
                        for odx in itertools.product(*[range(n_) for n_ in tuple(ev.cod)]):
                            want_a[idx + (k,) + odx] = clean(sympy.diff(sympy.sympify(base[idx + odx]), var))
                for route, jac in (('value', lambda: ev.jacobian(vs)), ('diagram', lambda: dg.jacobian(vs).eval())):
                    j_ = jac()
                    tag = '%s.jacobian%s[%s]' % (route, [str(q) for q in vs], nm)
                    suite.fact(tag + '.type', (j_.dom, j_.cod) == (ev.dom, Dim(len(vs)) @ ev.cod), functions=['tensor.Tensor.jacobian'])
                    suite.identity(tag, arr(j_), list(want_a.flatten()), extra=(x, y, z), functions=['tensor.Tensor.jacobian', 'tensor.Diagram.jacobian'],
                                   what='the jacobian stacks the gradients in the order of the variables, after the domain axes')
    # gradients of classical gates that went through dagger first (the gradient is taken of the evaluation, which already
    # accounts for the dagger)
    with suite.guard('grad of daggered classical gates', ['quantum.gates.ClassicalGate.grad']):
        from discopy.quantum.gates import ClassicalGate as _CG
        cg1 = _CG('g', 1, 1, [x, x ** 2, 3 * y, 1])
        cg2 = _CG('f', 1, 2, [x, y, x * y, 0, 1, x ** 2, y ** 2, 2])
        for nm, dg in (('g', cg1), ('g.dagger()', cg1.dagger()), ('f.dagger()', cg2.dagger()), ('f >> f.dagger()', cg2 >> cg2.dagger()),
                       ('g.dagger().dagger()', cg1.dagger().dagger())):
            for var in (x, y):
                suite.identity('ClassicalGate.grad[%s](%s)' % (nm, var), arr(total(dg.grad(var), mixed=True), diff_arr(dg.eval(mixed=True), var)),
                               diff_arr(dg.eval(mixed=True), var), extra=(x, y), functions=['quantum.gates.ClassicalGate.grad'],
                               what='the gradient of a (daggered) symbolic classical gate is the derivative of its evaluation')
    # boxes whose data is a numpy array with two or more axes (a matrix of symbols) depend on their symbols
    with suite.guard('grad of boxes with array-shaped data', ['cat.Box.free_symbols', 'tensor.Box.grad']):
        m2 = tensor.Box('m', Dim(2), Dim(2), numpy.array([[x, 1], [y, x ** 2]], dtype=object))
        m3 = tensor.Box('m3', Dim(2), Dim(2, 2), numpy.array([[[x, 1], [y, x ** 2]], [[x * y, 0], [1, x]]], dtype=object))
        suite.fact('free_symbols[2-d array data]', m2.free_symbols == {x, y} and m3.free_symbols == {x, y}, functions=['cat.Box.free_symbols'],
                   what='the symbols of a matrix-shaped payload are reported (got %r, %r)' % (m2.free_symbols, m3.free_symbols))
        for nm, dg in (('v >> m >> v.dagger()', v >> m2 >> v.dagger()), ('m alone', m2), ('v >> m3', v >> m3)):
            for var in (x, y):
                suite.identity('tensor.grad[2-d array data][%s](%s)' % (nm, var), arr(total(dg.grad(var)), diff_arr(dg.eval(), var)), diff_arr(dg.eval(), var),
                               extra=(x, y), functions=['tensor.Diagram.grad', 'tensor.Box.grad', 'cat.Box.free_symbols'],
                               what='the gradient of a diagram with a box whose data is a 2-d numpy array of symbols')
    # circuits: several symbols occurring several times, affine and non-linear phases
    Id = circuit.Id
    circuits = {
        'Rx(x)>>Rz(2x+y)>>Rx(x)': Rx(x) >> Rz(2 * x + y) >> Rx(x),
        'Rx(f)@Ry(x)>>CX>>Id@Rz(f)': Rx(f) @ Ry(x) >> gates.CX >> Id(1) @ Rz(f),
        'Ket(0)>>Ry(x-y)>>Rz(x)': gates.Ket(0) >> Ry(x - y) >> Rz(x),
    }
    for name, c in circuits.items():
        for var in (x, y):
            suite.identity('circuit[%s].grad(%s).pure' % (name, var),
                           arr(total(c.grad(var, mixed=False)), diff_arr(c.eval(), var)),
                           diff_arr(c.eval(), var), angle=[f, x, y], extra=(g,),
                           functions=['tensor.Diagram.grad', 'quantum.circuit.Sum.eval', 'quantum.gates.Rotation.grad'],
                           what='pure gradient of a circuit = derivative of its amplitudes')
            suite.identity('circuit[%s].grad(%s).mixed' % (name, var),
                           arr(total(c.grad(var), mixed=True), diff_arr(c.eval(mixed=True), var)),
                           diff_arr(c.eval(mixed=True), var), angle=[f, x, y], extra=(g,),
                           functions=['tensor.Diagram.grad', 'quantum.circuit.Sum.eval', 'quantum.gates.Rotation.grad'],
                           what='default gradient of a circuit = derivative of its classical-quantum map')
    # Circuit.jacobian: block i (the Digits(i) component) is the gradient w.r.t. variable i, in the order given,
    # including variables the circuit does not depend on
    w = Symbol('w', real=True)
    cj = gates.Ket(0) >> Ry(x) >> Rz(y)
    for variables in ([x, y], [y, x], [x, w, y], [w, x, y], [x, y, w]):
        with suite.guard('Circuit.jacobian%s' % ([str(v) for v in variables],), ['quantum.circuit.Circuit.jacobian']):
            jac = cj.jacobian(variables).eval(mixed=True)
            n = len(variables)
            base = cj.eval(mixed=True)
            want = []
            for var in variables:
                want += diff_arr(base, var)
            got = numpy.array(jac.array, dtype=object).reshape(n, -1)
            suite.identity('Circuit.jacobian%s.order' % ([str(v) for v in variables],),
                           [clean(v) for v in got.flatten()], want, angle=[x, y], functions=['quantum.circuit.Circuit.jacobian'],
                           what='the jacobian stacks the gradients in the order of the variables (block i = d/d variables[i])')
    # the jacobian of pure gradients (mixed=False) stacks the derivatives of the amplitudes
    for variables in ([x, y, w], [y, w, x], [x, y], [y, x]):
        nm = 'Circuit.jacobian%s.pure' % ([str(v) for v in variables],)
        with suite.guard(nm, ['quantum.circuit.Circuit.jacobian']):
            jac = cj.jacobian(variables, mixed=False).eval(mixed=False)
            base = cj.eval(mixed=False)
            want = []
            for var in variables:
                want += diff_arr(base, var)
            got = [clean(v) for v in numpy.array(jac.array, dtype=object).flatten()]
            if len(got) != len(want):
                suite.fact(nm, False, functions=['quantum.circuit.Circuit.jacobian'],
                           what='the jacobian of pure gradients over %d variables evaluates to %s with %d entries, not to '
                                'the %d stacked derivatives of the amplitudes' % (len(variables), type(jac).__name__,
                                                                                  len(got), len(want)))
            else:
                suite.identity(nm, got, want, angle=[x, y], functions=['quantum.circuit.Circuit.jacobian'],
                               what='pure jacobian: block i = d/d variables[i] of the amplitudes')
    return suite.result()


def zx_matrix_sum(s, symmetric=False):
    terms = getattr(s, 'terms', None)
    if terms is None:
        return mat_list(zx_matrix(s, symmetric))
    out = None
    for t in terms:
        m = zx_matrix(t, symmetric)
        out = m if out is None else out + m
    return mat_list(out)
