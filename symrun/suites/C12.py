"""C12 per generator: the CQ map the real cqmap.Functor assigns to each box kind of the statement,
on symbolic parameters, equals the map computed by the independent simulator rtc/cqsim.py
(doubling, Born rule, discard, adjoints, scalars, classical embedding), for all parameter values;
since both are linear this covers every input state."""
import numpy
import sympy
from sympy import I, Symbol

from discopy.quantum import gates, circuit, cqmap
from discopy.quantum.circuit import Measure, Encode, Discard, MixedState, bit, qubit
from discopy.quantum.gates import Rx, Ry, Rz, CRz, CRx, CU1, scalar, ClassicalGate, Bits, Copy, Match
from contracts import spec_quantum as S
from rtc import cqsim
from symrun.harness import Suite

phi = Symbol('phi', real=True)
a, b, c, d = sympy.symbols('a b c d', real=True)


def matrix_of(box):
    """independent M[out][in] of pure quantum boxes (sympy)"""
    if isinstance(box, gates.Rotation):
        return numpy.array(S.ROTATIONS[type(box).__name__](box.phase).tolist(), dtype=object)
    if isinstance(box, gates.Ket):
        return numpy.array(S.ket(*box.bitstring).tolist(), dtype=object)
    if isinstance(box, gates.Bra):
        return numpy.array(S.ket(*box.bitstring).T.tolist(), dtype=object)
    if isinstance(box, gates.Controlled):
        return numpy.array(S.controlled(sympy.Matrix(matrix_of(box.controlled).tolist())).tolist(), dtype=object)
    if isinstance(box, gates.QuantumGate):
        name = box._name
        M = S.NAMED[name]
        return numpy.array((M.H if box.is_dagger else M).tolist(), dtype=object)
    raise KeyError(repr(box))


def run(tier):
    suite = Suite()
    F = cqmap.Functor()
    gen = {
        'pure.Rx(phi)': Rx(phi), 'pure.Ry(phi)': Ry(phi), 'pure.Rz(phi)': Rz(phi), 'pure.CRz(phi)': CRz(phi),
        'pure.CRx(phi)': CRx(phi), 'pure.CU1(phi)': CU1(phi), 'pure.CRx(phi).dagger': CRx(phi).dagger(),
        'pure.H': gates.H, 'pure.S': gates.S, 'pure.S.dagger': gates.S.dagger(), 'pure.T': gates.T, 'pure.Y': gates.Y,
        'pure.CX': gates.CX, 'pure.Ket(1,0)': gates.Ket(1, 0), 'pure.Bra(0,1)': gates.Bra(0, 1),
        'measure': Measure(), 'measure(2)': Measure(2), 'measure.nondestructive': Measure(destructive=False),
        'measure.override_bits': Measure(override_bits=True),
        'measure.nondestructive.override': Measure(destructive=False, override_bits=True),
        'measure(2).nondestructive': Measure(2, destructive=False),
        'measure(2).override_bits': Measure(2, override_bits=True),
        'measure(2).nondestructive.override': Measure(2, destructive=False, override_bits=True),
        'encode(2).nonconstructive': Encode(2, constructive=False), 'encode(2).reset_bits': Encode(2, reset_bits=True),
        'encode(2).nonconstructive.reset': Encode(2, constructive=False, reset_bits=True),
        'encode': Encode(), 'encode(2)': Encode(2), 'encode.nonconstructive': Encode(constructive=False),
        'encode.reset_bits': Encode(reset_bits=True),
        'discard.qubit': Discard(), 'discard.2qubits': Discard(2), 'discard.bit': Discard(bit),
        'discard.bit_qubit': Discard(bit @ qubit), 'discard.qubit_bit_bit': Discard(qubit @ bit @ bit),
        'mixedstate.qubit': MixedState(), 'mixedstate.bit': MixedState(bit), 'mixedstate.qubit_bit': MixedState(qubit @ bit),
        'scalar.pure': scalar(a + I * b), 'scalar.mixed': scalar(a, is_mixed=True),
        'scalar.pure.dagger': scalar(a + I * b).dagger(), 'scalar.mixed.dagger': scalar(a + I * b, is_mixed=True).dagger(),
        'classical.gate': ClassicalGate('f', 1, 1, [a, b, c, d]),
        'classical.gate.dagger': ClassicalGate('f', 1, 2, [a, b, c, d, 0, 1, a * b, 2]).dagger(),
        'classical.Bits(1,0)': Bits(1, 0), 'classical.Copy': Copy(), 'classical.Match': Match(),
        'swap.qubits': circuit.Swap(qubit, qubit), 'swap.bit_qubit': circuit.Swap(bit, qubit),
    }
    for name, box in gen.items():
        got = F(box).array
        want = cqsim.cq_array(box, matrix_of, symbolic=True)
        if numpy.size(numpy.array(got, dtype=object)) != numpy.size(numpy.array(want, dtype=object)):
            suite.fact('cq[%s]' % name, False, functions=['quantum.cqmap.Functor._ar'],
                       what='the CQ map of %s has %d entries, the textbook map has %d (wrong type)'
                            % (name, numpy.size(numpy.array(got, dtype=object)), numpy.size(numpy.array(want, dtype=object))))
            continue
        suite.identity('cq[%s]' % name, numpy.array(got, dtype=object).reshape(numpy.shape(want)), want, angle=phi,
                       extra=(a, b, c, d), functions=['quantum.cqmap.Functor._ar', 'quantum.cqmap.CQMap.' +
                                                      name.split('.')[0].split('(')[0]],
                       what='the CQ map of %s is the textbook completely positive map, for every parameter value' % name)
    # the dagger of a scalar is the adjoint of its CQ map: the conjugate weight for a mixed scalar
    for nm, sc_ in (('mixed', scalar(a + I * b, is_mixed=True)), ('pure', scalar(a + I * b))):
        suite.identity('scalar.%s.dagger.is_adjoint' % nm, numpy.array(F(sc_.dagger()).array, dtype=object).flatten(),
                       [sympy.conjugate(e) for e in numpy.array(F(sc_).array, dtype=object).flatten()], extra=(a, b),
                       functions=['quantum.gates.Scalar.dagger'],
                       what='CQ(s.dagger()) is the conjugate of CQ(s) for a %s scalar' % nm)
    # doubling of a generic pure box: CQ(u) = conj(u) (x) u for a generic 2x2 array
    u = [[a + I * b, c], [d, a - I * c]]
    from discopy.tensor import Tensor, Dim
    got = cqmap.CQMap.pure(Tensor(Dim(2), Dim(2), u)).array
    want = [[[[sympy.conjugate(u[i][k]) * u[j][l] for l in range(2)] for k in range(2)] for j in range(2)]
            for i in range(2)]
    suite.identity('pure.doubled.generic', got, want, extra=(a, b, c, d), functions=['quantum.cqmap.CQMap.pure'],
                   what='CQMap.pure(u) = conj(u) (x) u for every 2x2 array')
    # circuits (symbolic samples): mixed evaluation = independent simulation; pure circuits doubled
    Id = circuit.Id
    circuits = {
        'Ry>>Measure': gates.Ket(0) >> Ry(phi) >> Measure(),
        'bell.measure_one.discard_other': gates.Ket(0, 0) >> gates.H @ Id(1) >> gates.CX >> Measure() @ Discard(),
        'Rx@bit>>swap>>Encode': (Rx(phi) @ Id(bit) >> circuit.Swap(qubit, bit) >> Encode() @ Id(qubit)),
        'nondestructive.then.Rz': gates.Ket(0) >> gates.H >> Measure(destructive=False) >> Rz(phi) @ Id(bit),
        'pure.doubled.circuit': Rx(phi) @ Id(1) >> gates.CX,
    }
    for name, circ in circuits.items():
        got = circ.eval(mixed=True).array
        want = cqsim.cq_array(circ, matrix_of, symbolic=True)
        suite.identity('circuit[%s].cq' % name, numpy.array(got, dtype=object).reshape(numpy.shape(want)), want,
                       angle=phi, functions=['quantum.circuit.Circuit.eval', 'quantum.cqmap.CQMap.tensor',
                                             'quantum.cqmap.CQMap.then'],
                       what='mixed evaluation of a circuit = composition of the textbook maps')
    pure = Rx(phi) @ Id(1) >> gates.CX
    t = pure.eval()
    suite.identity('circuit.pure_vs_mixed', pure.eval(mixed=True).array, (t.conjugate() @ t).array, angle=phi,
                   functions=['quantum.circuit.Circuit.eval', 'quantum.cqmap.CQMap.pure'],
                   what='evaluating a pure circuit as a CQ map gives the doubled map of its pure evaluation')
    # circuits in which bits and qubits only meet on inner layers, and batches / sums of circuits: the default evaluation
    # of a circuit mixing bits and qubits is the classical-quantum one, also when several circuits are evaluated together
    with suite.guard('mixed by inner layers, batches and sums', ['quantum.circuit.Circuit.eval', 'quantum.circuit.Circuit.is_mixed']):
        inner = Bits(1) @ gates.Ket(0) >> Id(bit) @ Rx(phi) >> Id(bit) @ gates.Bra(1)
        suite.fact('is_mixed[bits beside qubits on an inner layer]', bool(inner.is_mixed), functions=['quantum.circuit.Circuit.is_mixed'])
        e_def, e_mix = inner.eval(), inner.eval(mixed=True)
        suite.fact('eval.default_is_mixed.type', type(e_def).__name__ == 'CQMap' and (e_def.dom, e_def.cod) == (e_mix.dom, e_mix.cod),
                   functions=['quantum.circuit.Circuit.eval'], what='default evaluation of a circuit mixing bits and qubits is a CQMap (got %s)' % type(e_def).__name__)
        suite.identity('eval.default_is_mixed', numpy.array(e_def.array, dtype=object).flatten(), cqsim.cq_array(inner, matrix_of, symbolic=True).flatten(),
                       angle=phi, functions=['quantum.circuit.Circuit.eval'], what='... equal to the textbook map (squared magnitudes)')
        pure_closed = gates.Ket(0) >> Rx(phi) >> gates.Bra(1)
        mixed_closed = gates.Ket(0) >> Rx(phi) >> Measure() >> Discard(bit)
        single = [c_.eval(mixed=True) for c_ in (pure_closed, mixed_closed, pure)]
        batch = pure_closed.eval(mixed_closed, pure, mixed=True)
        suite.fact('eval.batch.kinds', [type(t_).__name__ for t_ in batch] == [type(t_).__name__ for t_ in single],
                   functions=['quantum.circuit.Circuit.eval'], what='every circuit of a batch evaluated with mixed=True gives a CQMap')
        for k_, (b_, s_) in enumerate(zip(batch, single)):
            if numpy.size(numpy.array(b_.array, dtype=object)) == numpy.size(numpy.array(s_.array, dtype=object)):
                suite.identity('eval.batch[%d]' % k_, numpy.array(b_.array, dtype=object).flatten(), numpy.array(s_.array, dtype=object).flatten(),
                               angle=phi, functions=['quantum.circuit.Circuit.eval'], what='batch evaluation = one by one')
        total_ = (pure_closed + mixed_closed).eval()
        want_ = numpy.array(pure_closed.eval(mixed=True).array, dtype=object).flatten() + numpy.array(mixed_closed.eval(mixed=True).array, dtype=object).flatten()
        suite.identity('eval.sum[pure + mixed closed circuits]', numpy.array(getattr(total_, 'array', total_), dtype=object).flatten(), want_,
                       angle=phi, functions=['quantum.circuit.Sum.eval'], what='a sum with a mixed term adds the squared magnitude of its pure terms')
    return suite.result()
