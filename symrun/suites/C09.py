"""C09: the real tensor.Functor (single-pass contraction with axis tracking) on diagrams whose
box arrays are *symbolic*, against the layer-by-layer composite (identity (x) box (x) identity,
Kronecker products) computed independently; swaps, cups, caps, daggered boxes, spiders, sums;
objects given as ints or Dims, dict or callable; Diagram.eval; invariance under normal forms."""
import itertools

import numpy
import sympy
from sympy import I, Matrix, eye

from discopy import rigid, tensor, monoidal
from discopy.rigid import Ty, Box, Id, Cup, Cap, Swap, Diagram
from discopy.tensor import Dim, Tensor
from symrun.harness import Suite

DIMS = {'x': (2,), 'y': (3,)}        # object name -> tuple of dimensions (a Dim may have 0, 1 or more factors)


def prod(t):
    out = 1
    for v in t:
        out *= v
    return out


def dims_of(ty):
    """one entry per wire: the total dimension of its image"""
    return [prod(DIMS[o.name]) for o in ty]


def sym_array(box, tag):
    n = prod(dims_of(box.dom)) * prod(dims_of(box.cod))
    return [sympy.Symbol('%s%dr' % (tag, k), real=True) + I * sympy.Symbol('%s%di' % (tag, k), real=True)
            for k in range(n)]


def box_matrix(box, arrays):
    """M[out][in] of a box from the definitions: generators by their (symbolic) array, daggered boxes by
    the conjugate transpose, swaps / cups / caps by their defining tensors"""
    din, dout = dims_of(box.dom), dims_of(box.cod)
    if isinstance(box, monoidal.Swap):
        a, b = din
        P = sympy.zeros(a * b, a * b)
        for i in range(a):
            for j in range(b):
                P[j * a + i, i * b + j] = 1
        return P
    if isinstance(box, Cup):
        n = din[0]
        return Matrix([[1 if i == j else 0 for i in range(n) for j in range(n)]])
    if isinstance(box, Cap):
        n = dout[0]
        return Matrix([[1 if i == j else 0] for i in range(n) for j in range(n)])
    if box.is_dagger:
        return box_matrix(box.dagger(), arrays).H
    a = numpy.array(arrays[box], dtype=object).reshape(prod(din), prod(dout))
    return Matrix(a.tolist()).T


def layered(d, arrays):
    width = dims_of(d.dom)
    M = eye(prod(width))
    scan = list(d.dom)
    for box, off in zip(d.boxes, d.offsets):
        left = prod(dims_of(scan[:off]))
        right = prod(dims_of(scan[off + len(box.dom):]))
        U = box_matrix(box, arrays)
        M = sympy.kronecker_product(eye(left), U, eye(right)) * M
        scan = scan[:off] + list(box.cod) + scan[off + len(box.dom):]
    return M


def layered_dims(d):
    """layer-by-layer composite of a diagram of tensor boxes (types are Dims)"""
    scan = list(d.dom)
    M = eye(prod(scan))
    for box, off in zip(d.boxes, d.offsets):
        din, dout = list(box.dom), list(box.cod)
        if isinstance(box, monoidal.Swap):
            a, b = din
            U = sympy.zeros(a * b, a * b)
            for i in range(a):
                for j in range(b):
                    U[j * a + i, i * b + j] = 1
        else:
            base = box.dagger() if box.is_dagger else box
            arr = numpy.array(base.data, dtype=object).reshape(prod(base.dom), prod(base.cod))
            U = Matrix(arr.tolist()).T
            if box.is_dagger:
                U = U.H
        M = sympy.kronecker_product(eye(prod(scan[:off])), U, eye(prod(scan[off + len(din):]))) * M
        scan = scan[:off] + dout + scan[off + len(din):]
    return M


def mat(t):
    a = numpy.array(t.array, dtype=object).reshape(prod(t.dom), prod(t.cod))
    return Matrix(a.tolist()).T


def entries(m):
    return [sympy.expand(v) for v in m]


def gen(doms, boxes, max_boxes, max_width=3):
    def rec(dom, scan, bs, offs, depth):
        yield Diagram(dom, scan, list(bs), list(offs))
        if depth == max_boxes:
            return
        for b in boxes:
            n = len(b.dom)
            for off in range(len(scan) - n + 1):
                if scan[off:off + n] == b.dom:
                    new = scan[:off] @ b.cod @ scan[off + n:]
                    if len(new) <= max_width:
                        yield from rec(dom, new, bs + [b], offs + [off], depth + 1)
    for dom in doms:
        yield from rec(dom, dom, [], [], 0)


def run(tier):
    suite = Suite()
    x, y = Ty('x'), Ty('y')
    f, g, s, e = Box('f', x, y), Box('g', x @ y, x), Box('s', Ty(), x), Box('e', y, Ty())
    gens = [f, g, s, e]
    arrays = {b: sym_array(b, b.name) for b in gens}
    boxes = gens + [f.dagger(), g.dagger(), Swap(x, y), Swap(y, x), Cup(x, x.r), Cap(x.r, x), Cup(y.l, y)]
    F = tensor.Functor({x: 2, y: 3}, arrays)
    F_dim = tensor.Functor({x: Dim(2), y: Dim(3)}, arrays)
    F_call = tensor.Functor(lambda t: DIMS[t[0].name][0], lambda b: arrays[b])
    max_boxes = 2 if tier == 'quick' else 3
    doms = [Ty(), x, x @ y, y @ x.r]
    fq = ['tensor.Functor.__call__']
    count = 0
    syms = tuple(sorted({v for a in arrays.values() for z in a for v in z.free_symbols}, key=str))
    for d in gen(doms, boxes, max_boxes):
        if not len(d):
            continue
        count += 1
        if tier == 'quick' and count % 3:
            continue
        with suite.guard('eval %r' % (d,), fq):
            want = entries(layered(d, arrays))
            suite.identity('eval[%s]' % str(d)[:80], entries(mat(F(d))), want, extra=syms, functions=fq,
                           what='the functor image is the layer-by-layer composite of identity (x) box (x) identity')
            if count % 6 == 0:
                suite.identity('eval.obs_as_Dim[%s]' % str(d)[:60], entries(mat(F_dim(d))), want, extra=syms, functions=fq)
                suite.identity('eval.callable[%s]' % str(d)[:60], entries(mat(F_call(d))), want, extra=syms, functions=fq)
                try:
                    nf = d.normal_form()
                    suite.identity('eval.normal_form[%s]' % str(d)[:60], entries(mat(F(nf))), want, extra=syms,
                                   functions=fq + ['rewriting.snake_removal'],
                                   what='evaluation is invariant under normalisation')
                except NotImplementedError:
                    pass
    # closed loops on self-adjoint wires (Dim, PRO): a cap closed by a cup on the same two wires is the dimension of the
    # wire, not a snake; normalisation must leave the value alone (with and without boxes in between)
    with suite.guard('normalisation of closed loops', fq + ['rewriting.snake_removal']):
        d2 = Dim(2)
        tsym = lambda nm, dom, cod: tensor.Box(nm, dom, cod, [sympy.Symbol('%s%d' % (nm, k), real=True) for k in range(prod(dom) * prod(cod))])
        th, tf, tg = tsym('h', d2, d2), tsym('f', d2, d2 @ d2), tsym('g', d2 @ d2, d2)
        Fid = tensor.Functor(ob=lambda t: t, ar=lambda b: b.array)
        tI = tensor.Id
        loops = {
            'h @ cap >> h @ cup >> h': th @ Cap(d2, d2) >> th @ Cup(d2, d2) >> th,
            'cap @ h >> cup @ h': Cap(d2, d2) @ th >> Cup(d2, d2) @ th,
            'loop around a box': tf @ tI(d2) >> tI(d2 @ d2) @ Cap(d2, d2) @ tI(d2) >> tI(d2) @ th @ tI(d2 @ d2 @ d2)
                                 >> tI(d2 @ d2) @ Cup(d2, d2) @ tI(d2) >> tg @ th,
            'box on the loop': th @ Cap(d2, d2) >> tI(d2) @ th @ tI(d2) >> th @ Cup(d2, d2)}
        lsyms = tuple(sorted({v for b in (th, tf, tg) for v in b.free_symbols}, key=str))
        for nm, dg in loops.items():
            before = Fid(dg)
            after = Fid(dg.normal_form())
            suite.fact('eval.normal_form.loop.type[%s]' % nm, (after.dom, after.cod) == (before.dom, before.cod), functions=fq + ['rewriting.snake_removal'])
            suite.identity('eval.normal_form.loop[%s]' % nm, entries(mat(after)), entries(mat(before)), extra=lsyms,
                           functions=fq + ['rewriting.snake_removal'], what='a closed loop is not a snake: evaluation is invariant under normalisation')
        p1 = rigid.PRO(1)
        pa = Box('a', p1, p1)
        Fp = tensor.Functor({p1: 2}, {pa: [sympy.Symbol('a%d' % k, real=True) for k in range(4)]})
        circle = pa @ Cap(p1, p1) >> pa @ Cup(p1, p1) >> pa
        suite.identity('eval.normal_form.loop[PRO(1)]', entries(mat(Fp(circle.normal_form()))), entries(mat(Fp(circle))),
                       extra=tuple(sympy.Symbol('a%d' % k, real=True) for k in range(4)), functions=fq + ['rewriting.snake_removal'],
                       what='a closed loop on a PRO wire: evaluation is invariant under normalisation')
    # daggered boxes are interpreted by the conjugate transpose also in a diagram that is the OUTPUT of lambdify / subs
    with suite.guard('daggered boxes after lambdify / subs', fq + ['cat.Box.lambdify', 'cat.Box.subs']):
        px = sympy.Symbol('px', real=True)
        fb_ = tensor.Box('f', Dim(2), Dim(3), [px, 2, 3 * I, 4, px ** 2, 1 - 2 * I * px])
        vb_, wb_ = tensor.Box('v', Dim(1), Dim(3), [1, 2, I]), tensor.Box('w', Dim(1), Dim(2), [3, 1 + I])
        dg_ = vb_ @ wb_ >> fb_.dagger() @ tensor.Id(Dim(2))
        for nm, conc in (('lambdify', dg_.lambdify(px)(sympy.Rational(1, 2))), ('subs', dg_.subs(px, sympy.Rational(1, 2)))):
            T_ = lambda b: tensor.Tensor(b.dom, b.cod, b.array)
            ref_ = T_(vb_) @ T_(wb_) >> tensor.Tensor(Dim(2), Dim(3), [sympy.sympify(e).subs(px, sympy.Rational(1, 2)) for e in fb_.array.flatten()]).dagger() @ tensor.Tensor.id(Dim(2))
            suite.identity('eval.dagger.after_%s' % nm, entries(mat(conc.eval())), entries(mat(ref_)), functions=fq + ['cat.Box.' + nm],
                           what='a daggered symbolic box stays a dagger through %s: the diagram evaluates to the composite of the box tensors' % nm)
    # objects sent to Dims with 0 or 2 factors: the swap special case must move blocks of axes of different lengths
    global DIMS
    saved = DIMS
    with suite.guard('multi-factor dimensions', fq):
        z = Ty('z')
        DIMS = {'x': (2,), 'y': (2, 2), 'z': ()}
        f2, g2, w2 = Box('f', x, y), Box('g', y @ x, x), Box('w', Ty(), z)
        arrays2 = {b: sym_array(b, b.name + 'm') for b in (f2, g2, w2)}
        syms2 = tuple(sorted({v for a in arrays2.values() for zz in a for v in zz.free_symbols}, key=str))
        F2 = tensor.Functor({x: Dim(2), y: Dim(2, 2), z: Dim(1)}, arrays2)
        cases = [Diagram.swap(x, y), Diagram.swap(y, x), Diagram.swap(y, y), Diagram.swap(z, x), Diagram.swap(x, z),
                 Diagram.swap(x @ y, y), f2 @ Id(x) >> Diagram.swap(y, x), Id(x) @ f2 >> Swap(x, y) >> g2,
                 Id(x) @ w2 @ Id(x) >> f2 @ Diagram.swap(z, x), f2 @ f2 >> Swap(y, y) >> Id(y) @ Cup(y, y.r) @ Id(y.r)
                 if False else f2 @ f2 >> Swap(y, y)]
        for d in cases:
            suite.identity('eval.multifactor[%s]' % str(d)[:70], entries(mat(F2(d))), entries(layered(d, arrays2)),
                           extra=syms2, functions=fq,
                           what='swaps of wires whose images are Dims of different lengths (incl. Dim(1)) are '
                                'interpreted by their defining tensor')
        # the functor's special cases agree with the library's own defining tensors (Tensor.swap / cups / caps)
        from discopy.tensor import Tensor
        FT = lambda t: F2(t)
        for l, r in [(x, y), (y, x), (y, y), (x @ y, y), (y, x @ x), (z, y), (y @ y, x)]:
            suite.identity('swap.defining_tensor[%s,%s]' % (l, r), entries(mat(F2(Diagram.swap(l, r)))),
                           entries(mat(Tensor.swap(FT(l), FT(r)))), functions=fq + ['tensor.Tensor.swap'],
                           what='F(swap(l, r)) is Tensor.swap(F(l), F(r)), the defining tensor of the swap')
        for t in [x, y, x @ y, y @ x @ y]:
            suite.identity('cups.defining_tensor[%s]' % t, entries(mat(F2(Diagram.cups(t, t.r)))),
                           entries(mat(Tensor.cups(FT(t), FT(t.r)))), functions=fq + ['tensor.Tensor.cups'],
                           what='F(cups(t, t.r)) is Tensor.cups(F(t), F(t.r))')
            suite.identity('caps.defining_tensor[%s]' % t, entries(mat(F2(Diagram.caps(t, t.l)))),
                           entries(mat(Tensor.caps(FT(t), FT(t.l)))), functions=fq + ['tensor.Tensor.caps'],
                           what='F(caps(t, t.l)) is Tensor.caps(F(t), F(t.l))')
        # an object sent to a Dim that is not a palindrome: its adjoints are sent to the reversed Dim, so that cups, caps
        # and snakes on it are interpreted by their defining tensors
        with suite.guard('non-palindromic Dim for one object', fq):
            q = Ty('q')
            F3 = tensor.Functor({q: Dim(2, 3)}, {})
            suite.fact('F(q.r) is F(q).r for a non-palindromic Dim', F3(q.r) == Dim(3, 2) and F3(q.l) == Dim(3, 2)
                       and F3(q.r.r) == Dim(2, 3), functions=fq, what='the object map commutes with adjoints')
            suite.identity('cups.defining_tensor[q -> Dim(2, 3)]', entries(mat(F3(Diagram.cups(q, q.r)))),
                           entries(mat(Tensor.cups(Dim(2, 3), Dim(3, 2)))), functions=fq + ['tensor.Tensor.cups'])
            snake = Diagram.caps(q, q.l) @ Id(q) >> Id(q) @ Diagram.cups(q.l, q)
            suite.identity('snake[q -> Dim(2, 3)]', entries(mat(F3(snake))), entries(mat(Tensor.id(Dim(2, 3)))),
                           functions=fq, what='the snake equation holds under the interpretation')
    DIMS = saved
    # sums, spiders, bubbles, Diagram.eval
    with suite.guard('sum', fq):
        d1, d2 = f >> e, f >> f.dagger() >> f >> e
        suite.identity('eval.sum', entries(mat(F(d1 + d2))), entries(layered(d1, arrays) + layered(d2, arrays)),
                       extra=syms, functions=fq + ['tensor.Sum.eval'], what='sums are interpreted termwise')
    with suite.guard('sums under >>, @, dagger', ['tensor.Sum.upgrade']):
        sv, sw = tensor.Box('v', Dim(1), Dim(2), arrays[s]), tensor.Box('w', Dim(1), Dim(2), [3, 4])
        pp = tensor.Box('p', Dim(2), Dim(2), [1, 2, 0, 1])
        ssum = sv + sw
        I2 = tensor.Functor(lambda t: t, lambda b: b.array)
        for nm, dd in (('sum >> box', ssum >> pp), ('sum @ box', ssum @ sv), ('box @ sum', sv @ ssum),
                       ('sum.dagger()', ssum.dagger()), ('(sum >> box).dagger()', (ssum >> pp).dagger())):
            suite.identity('eval.sum[%s]' % nm, entries(mat(dd.eval())), entries(mat(I2(dd))), extra=syms,
                           functions=['tensor.Sum.eval', 'monoidal.Sum.upgrade'],
                           what='a sum of tensor diagrams composed / tensored / daggered still evaluates, to the image under the identity-on-arrays functor')
    with suite.guard('empty sum', ['tensor.Sum.eval']):
        z0 = tensor.Sum([], Dim(2), Dim(3)).eval()
        suite.fact('eval.sum.empty', isinstance(z0, tensor.Tensor) and (z0.dom, z0.cod) == (Dim(2), Dim(3))
                   and not numpy.any(numpy.array(z0.array, dtype=complex)),
                   what='the empty sum evaluates to the zero tensor of its type (got %r)' % (z0,), functions=['tensor.Sum.eval'])
    with suite.guard('functor on sums', fq):
        from discopy.monoidal import Sum as _MSum
        zimg = F(_MSum([], f.dom, f.cod))
        suite.fact('functor.sum.empty', isinstance(zimg, tensor.Tensor) and (zimg.dom, zimg.cod) == (F(f.dom), F(f.cod))
                   and not numpy.any(numpy.array(zimg.array, dtype=complex)), functions=fq,
                   what='the functor sends the empty sum of a hom-set to the zero TENSOR of the image hom-set (got %r)' % (zimg,))
        suite.identity('functor.sum.one_term', entries(mat(F(_MSum([f])))), entries(mat(F(f))), extra=syms, functions=fq)
        suite.identity('functor.sum.zero_then_box', entries(mat(F(_MSum([], f.dom, f.cod)) >> F(e))),
                       entries(sympy.zeros(*mat(F(f) >> F(e)).shape)), functions=fq,
                       what='the image of a zero composes like a tensor')
    with suite.guard('tensor boxes', ['tensor.Diagram.eval']):
        v = tensor.Box('v', Dim(1), Dim(2), arrays[s])
        m = tensor.Box('m', Dim(2), Dim(3), arrays[f])
        d = v @ v >> m @ tensor.Id(Dim(2)) >> tensor.Swap(Dim(3), Dim(2)) >> tensor.Id(Dim(2)) @ m.dagger()
        want = layered_dims(d)
        suite.identity('Diagram.eval[tensor boxes]', entries(mat(d.eval())), entries(want), extra=syms,
                       functions=['tensor.Diagram.eval', 'tensor.Box.array'],
                       what='a diagram of tensor boxes evaluates through the identity-on-arrays functor')
        for legs in [(1, 2), (2, 1), (0, 2), (3, 1), (0, 1), (1, 0), (0, 0)]:
            sp = tensor.Spider(legs[0], legs[1], 2)
            want_sp = sympy.zeros(2 ** legs[1], 2 ** legs[0])
            for i in range(2):
                want_sp[int(str(i) * legs[1] or '0', 2), int(str(i) * legs[0] or '0', 2)] = 1
            if legs == (0, 0):
                want_sp = sympy.Matrix([[2]])       # the defining tensor of a leg-less spider: sum_i 1 = dim
            suite.identity('Spider%s' % (legs,), entries(mat(sp.eval())), entries(want_sp), functions=['tensor.Spider.__init__'])
        suite.identity('Spider.fusion(0,1,0)', entries(mat((tensor.Spider(0, 1, 3) >> tensor.Spider(1, 0, 3)).eval())),
                       entries(mat(tensor.Spider(0, 0, 3).eval())), functions=['tensor.Spider.__init__'],
                       what='spider fusion down to no legs: Spider(0, 1) >> Spider(1, 0) == Spider(0, 0)')
        # a numeric bubble whose function returns values of different python types on different entries
        nv = tensor.Box('nv', Dim(2), Dim(3), [0, 1, 2, 4, 0, 5])
        nb = nv.bubble(func=lambda t: 1 / t if t else 0)
        suite.fact('Bubble.eval.numeric', [complex(e) for e in numpy.array(nb.eval().array).flatten()]
                   == [0, 1, .5, .25, 0, .2],
                   what='bubbles apply their function to every entry, whatever type the first entry returns',
                   functions=['tensor.Tensor.map', 'tensor.Functor.__call__'])
        bub = v.bubble(func=lambda t: t ** 2 + 1)
        suite.identity('Bubble.eval', entries(mat(bub.eval())), [z ** 2 + 1 for z in arrays[s]], extra=syms,
                       functions=['tensor.Functor.__call__', 'tensor.Bubble.__init__'],
                       what='bubbles apply their function elementwise')
    return suite.result()
