"""C14: substitution / lambdify of the real code on symbolic parameters: structure preserved
(kind, dom, cod, dagger flag, mixedness, name), array(subs) = subs(array) for all parameter values,
lambdify agrees with subs, free symbols exact."""
import numpy
import sympy
from sympy import I, Symbol

from discopy import cat, monoidal, tensor
from discopy.tensor import Dim, Tensor
from discopy.quantum import gates, circuit, zx
from discopy.quantum.gates import Rx, Ry, Rz, CU1, CRz, CRx, scalar, ClassicalGate, Bits
from symrun.harness import Suite

x, y, z = sympy.symbols('x y z', real=True)


def arr(t):
    a = t.array if hasattr(t, 'array') else t
    return [sympy.sympify(v) for v in numpy.array(a, dtype=object).flatten()]


def sub_arr(t, *args):
    return [sympy.sympify(v).subs(*args) for v in arr(t)]


def evaluates_to_numbers(b):
    try:
        ev = b.eval(mixed=bool(getattr(b, 'is_mixed', False))) if hasattr(b, 'is_mixed') else b.eval()
        a = numpy.array(ev.array, dtype=complex)
        return bool(numpy.all(numpy.isfinite(a)))
    except Exception:
        return False


def flags(b):
    return (type(b).__name__, b.dom, b.cod, bool(getattr(b, 'is_mixed', False)), b.is_dagger,
            getattr(b, '_name', None))


def run(tier):
    suite = Suite()
    p = 2 * x + y
    boxes = {
        'Rx': Rx(p), 'Ry': Ry(p), 'Rz': Rz(p), 'CU1': CU1(p), 'CRz': CRz(p), 'CRx': CRx(p),
        'Rz.dagger': Rz(p).dagger(),
        'scalar': scalar(x ** 2 + I * y), 'scalar.mixed': scalar(x ** 2 + y, is_mixed=True),
        'ClassicalGate': ClassicalGate('f', 1, 1, [x, y, 1 - x, 1 - y]),
        'ClassicalGate.dagger': ClassicalGate('f', 1, 2, [x, y, 1 - x, 1 - y, 0, 0, 1, x * y]).dagger(),
    }
    for name, b in boxes.items():
        fq = ['quantum.gates.%s.subs' % ('ClassicalGate' if 'Classical' in name else 'Parametrized')]
        for tag, args in (('symbol', (x, z)), ('number', (x, sympy.Rational(1, 4))),
                          ('pairs', ([(x, z + 1), (y, sympy.Rational(1, 2))],))):
            s = b.subs(*args)
            suite.fact('%s.subs[%s].structure' % (name, tag), flags(s) == flags(b),
                       what='subs keeps kind, dom, cod, mixedness, dagger flag and name: %r -> %r' % (flags(b), flags(s)),
                       functions=fq)
            suite.identity('%s.subs[%s].commutes' % (name, tag), arr(s.eval(mixed=b.is_mixed) if name.startswith('scalar')
                                                                   else s), sub_arr(b.eval(mixed=b.is_mixed)
                                                                                    if name.startswith('scalar') else b, *args),
                           angle=[z, x, y], functions=fq, what='array(subs(box)) == subs(array(box))')
        sub = b.subs([(x, 0.125), (y, 0.5)])
        suite.fact('%s.free_symbols' % name, b.free_symbols == {x, y} and not sub.free_symbols,
                   what='free symbols are exactly those of the parameters; none after substituting all',
                   functions=['cat.Box.__init__'])
        suite.fact('%s.subs.numbers_evaluate' % name, evaluates_to_numbers(sub),
                   what='after substituting every symbol the box evaluates to numbers', functions=fq)
        lam = b.lambdify(x, y)(0.125, 0.5)
        suite.fact('%s.lambdify.structure' % name, flags(lam) == flags(b),
                   what='lambdify keeps kind, dom, cod, mixedness, dagger flag: %r -> %r' % (flags(b), flags(lam)),
                   functions=[fq[0].replace('subs', 'lambdify')])
        suite.identity('%s.lambdify==subs' % name, arr(lam), arr(sub), functions=[fq[0].replace('subs', 'lambdify')],
                       what='calling the lambdified box on values gives the substituted box')
    # zx
    for name, b in {'zx.Z': zx.Z(1, 2, p), 'zx.X': zx.X(2, 1, p), 'zx.scalar': zx.scalar(x * y)}.items():
        s = b.subs(x, z)
        suite.fact('%s.subs.structure' % name, (type(s), s.dom, s.cod) == (type(b), b.dom, b.cod)
                   and s.data == b.data.subs(x, z), functions=['quantum.zx.Spider.subs', 'quantum.zx.Scalar.subs'])
        full = b.subs([(x, 1), (y, 2)])
        suite.fact('%s.free_symbols' % name, b.free_symbols == {x, y} and not full.free_symbols,
                   functions=['quantum.zx.Spider.subs'])
        with suite.guard('%s.lambdify' % name, ['quantum.zx.Spider.lambdify', 'quantum.zx.Scalar.lambdify']):
            lam = b.lambdify(x, y)(1, 2)
            suite.fact('%s.lambdify==subs' % name, (type(lam), lam.dom, lam.cod) == (type(b), b.dom, b.cod)
                       and sympy.simplify(sympy.sympify(lam.data) - sympy.sympify(full.data)) == 0,
                       what='calling the lambdified ZX box on values gives the substituted box (%r vs %r)' % (lam, full),
                       functions=['quantum.zx.Spider.lambdify', 'quantum.zx.Scalar.lambdify'])
    with suite.guard('zx.Diagram.lambdify', ['quantum.zx.Spider.lambdify']):
        zd = zx.Z(1, 2, x) >> zx.X(1, 1, x + y) @ zx.Z(1, 0) @ zx.scalar(y)
        lz, sz = zd.lambdify(x, y)(0.25, 0.5), zd.subs([(x, 0.25), (y, 0.5)])
        suite.fact('zx.Diagram.lambdify==subs', lz == sz and not lz.free_symbols, functions=['monoidal.Diagram.lambdify'],
                   what='a lambdified ZX diagram called on values is the substituted diagram')
    # lambdify of scalars with non-polynomial expressions and complex values; the user's keyword arguments reach sympy
    for nm, sc_, val in (('exp(I*x)', scalar(sympy.exp(sympy.I * x)), 0.3), ('dagger of x', scalar(x).dagger(), 0.5j),
                         ('cos(x)', scalar(sympy.cos(x), is_mixed=True), 0.5j)):
        with suite.guard('scalar[%s].lambdify' % nm, ['quantum.gates.Scalar.lambdify']):
            lam, sub = sc_.lambdify(x)(val), sc_.subs(x, val)
            suite.identity('scalar[%s].lambdify==subs' % nm, arr(lam), arr(sub), functions=['quantum.gates.Scalar.lambdify'],
                           what='lambdified scalar called on %r equals the substituted scalar' % (val,))
    with suite.guard('Rz.lambdify(kwargs)', ['quantum.gates.Parametrized.lambdify']):
        suite.fact('Rz.lambdify(modules=numpy)==subs', Rz(x + 1).lambdify(x, modules='numpy')(0.25) == Rz(1.25),
                   functions=['quantum.gates.Parametrized.lambdify'])
    # classical gates: lambdify == subs, and gates without parameters keep their kind
    with suite.guard('ClassicalGate.lambdify', ['quantum.gates.ClassicalGate.lambdify']):
        cg = ClassicalGate('f', 1, 1, [x, 1 - x, y, 1 - y])
        suite.identity('ClassicalGate.lambdify==subs', arr(cg.lambdify(x, y)(0.25, 0.5)), arr(cg.subs([(x, 0.25), (y, 0.5)])),
                       functions=['quantum.gates.ClassicalGate.lambdify'])
        cc = (gates.Copy() >> ClassicalGate('g', 2, 1, [x, 1, 1, x, 0, 1, 1, 0]))
        suite.identity('circuit[Copy >> gate].lambdify==subs', arr(cc.lambdify(x)(0.5).eval(mixed=True)),
                       arr(cc.subs(x, 0.5).eval(mixed=True)), functions=['quantum.gates.ClassicalGate.lambdify'])
    suite.fact('Copy.subs keeps its kind', type(gates.Copy().subs(x, 1)) is gates.Copy and type(gates.Match().subs(x, 1)) is gates.Match
               and gates.Copy().subs(x, 1).dagger() == gates.Match(), functions=['quantum.gates.ClassicalGate.subs'],
               what='substitution keeps the kind of boxes without parameters')
    # formal sums of diagrams (what grad returns): free symbols are those of the terms, lambdify == subs
    with suite.guard('sum.free_symbols / lambdify', ['cat.Sum']):
        sm_ = (gates.Ket(0) >> Rz(x)) + (gates.Ket(0) >> Rz(x + y) >> Rx(y))
        suite.fact('sum.free_symbols', sm_.free_symbols == {x, y}, functions=['cat.Sum'],
                   what='the free symbols of a sum are those of its terms (got %r)' % (sm_.free_symbols,))
        lam_, sub_ = sm_.lambdify(x, y)(0.25, 0.5), sm_.subs([(x, 0.25), (y, 0.5)])
        suite.fact('sum.lambdify.no_symbols_left', not lam_.free_symbols and not any(t.free_symbols for t in lam_.terms),
                   functions=['cat.Sum'], what='calling the lambdified sum substitutes in every term (got %r)' % (lam_,))
        suite.identity('sum.lambdify==subs', arr(lam_.eval()), arr(sub_.eval()), functions=['cat.Sum'],
                       what='lambdified sum called on values evaluates like the substituted sum')
        # the lambdified sum is a function: a second call substitutes as well as the first
        lam_fn = sm_.lambdify(x, y)
        first_, second_ = lam_fn(0.25, 0.5), lam_fn(0.5, -0.25)
        suite.fact('sum.lambdify.second_call', len(first_.terms) == len(second_.terms) == len(sm_.terms)
                   and not any(t.free_symbols for t in second_.terms), functions=['cat.Sum'],
                   what='calling the lambdified sum a second time gives all its terms again (got %r)' % (second_,))
        suite.identity('sum.lambdify.second_call==subs', arr(second_.eval()), arr(sm_.subs([(x, 0.5), (y, -0.25)]).eval()),
                       functions=['cat.Sum'])
        tsum = tensor.Box('v', Dim(1), Dim(2), [x, y]) + tensor.Box('w', Dim(1), Dim(2), [y, x * y])
        suite.fact('tensor.sum.free_symbols', tsum.free_symbols == {x, y}, functions=['cat.Sum'])
        suite.identity('tensor.sum.lambdify==subs', arr(tsum.lambdify(x, y)(2, 3).eval()), arr(tsum.subs([(x, 2), (y, 3)]).eval()),
                       functions=['cat.Sum'])
    # tensors whose FIRST entry is a plain number and a later one symbolic: the substituted values keep their own kind
    # (a non-integer real next to the integer 1, a complex number next to a float)
    with suite.guard('Tensor.subs.mixed_entries', ['tensor.Tensor.subs']):
        for nm, data, pairs in (('int first', [1, x, 2, y], [(x, 0.5), (y, 0.75)]), ('float first', [0.5, x, y, 1], [(x, 0.25j), (y, 2)]),
                                ('int first, partial', [1, x * y, 0, y], [(x, 0.5)])):
            tt = Tensor(Dim(2), Dim(2), data)
            suite.identity('Tensor.subs[%s]' % nm, arr(tt.subs(pairs)), sub_arr(tt, pairs), extra=(x, y),
                           functions=['tensor.Tensor.subs'], what='entrywise substitution, whatever the kind of the first entry')
            bb = tensor.Box('b', Dim(2), Dim(2), data)
            suite.identity('tensor.Box.subs.commutes[%s]' % nm, arr(bb.subs(pairs).eval()), sub_arr(bb.eval(), pairs), extra=(x, y),
                           functions=['tensor.Tensor.subs', 'cat.Box.subs'])
    # numpy arrays as box data
    with suite.guard('tensor.Box(numpy data).subs', ['cat.rmap']):
        nbx = tensor.Box('v', Dim(1), Dim(2), numpy.array([x, 2 * y], dtype=object))
        suite.identity('tensor.Box(numpy data).subs.commutes', arr(nbx.subs([(x, 1), (y, 2)]).eval()),
                       sub_arr(nbx.eval(), [(x, 1), (y, 2)]), functions=['cat.rmap', 'cat.Box.subs'],
                       what='a numpy array of expressions as data is substituted entrywise')
        suite.identity('tensor.Box(numpy data).subs.partial', arr(nbx.subs(x, z).eval()), sub_arr(nbx.eval(), x, z), extra=(x, y, z),
                       functions=['cat.rmap'])
    # parameter-free classical states next to symbolic boxes
    with suite.guard('circuit[Bits >> ClassicalGate].subs', ['quantum.gates.Digits.subs']):
        cb = Bits(0, 1) >> ClassicalGate('f', 2, 1, [x, 1 - x, y, 1 - y, 1, 0, 0, 1])
        sb = cb.subs(x, z)
        suite.fact('circuit[Bits >> ClassicalGate].subs.structure', (sb.dom, sb.cod, sb.offsets, [type(b_).__name__ for b_ in sb.boxes])
                   == (cb.dom, cb.cod, cb.offsets, [type(b_).__name__ for b_ in cb.boxes]), functions=['quantum.gates.Digits.subs'])
        suite.identity('circuit[Bits >> ClassicalGate].subs.commutes', arr(sb.eval(mixed=True)), sub_arr(cb.eval(mixed=True), x, z),
                       extra=(x, y, z), functions=['quantum.gates.Digits.subs', 'quantum.gates.ClassicalGate.subs'])
        suite.fact('Bits.subs', Bits(1, 0).subs(x, 1) == Bits(1, 0) and Bits(1).dagger().subs(x, 1) == Bits(1).dagger(),
                   functions=['quantum.gates.Digits.subs'], what='a classical state has no parameter: subs returns it')
    # tensor boxes / tensors / nested data in cat.Box
    v = tensor.Box('v', Dim(1), Dim(2), [x ** 2 + y, x * y])
    suite.identity('tensor.Box.subs.commutes', arr(v.subs(x, z).eval()), sub_arr(v.eval(), x, z), extra=(x, y, z),
                   functions=['cat.Box.subs', 'cat.rsubs'])
    t = Tensor(Dim(2), Dim(2), [x, y, x * y, 1])
    suite.identity('Tensor.subs.elementwise', arr(t.subs(x, z)), sub_arr(t, x, z), extra=(x, y, z),
                   functions=['tensor.Tensor.subs'])
    with suite.guard('Tensor.lambdify', ['tensor.Tensor.lambdify']):
        suite.identity('Tensor.lambdify==subs', arr(t.lambdify(x, y)(2, 3)), arr(t.subs([(x, 2), (y, 3)])),
                       functions=['tensor.Tensor.lambdify'])
    nested = cat.Box('n', cat.Ob('a'), cat.Ob('b'), data={'k': [x + 1, (y, {'d': z})], 'j': 3})
    suite.fact('cat.Box.free_symbols.nested', nested.free_symbols == {x, y, z},
               what='free symbols through mappings / iterables', functions=['cat.Box.__init__'])
    ns = nested.subs(x, 5)
    suite.fact('cat.Box.subs.nested', ns.data == {'k': [6, (y, {'d': z})], 'j': 3} and ns.free_symbols == {y, z}
               and (ns.name, ns.dom, ns.cod, ns.is_dagger) == (nested.name, nested.dom, nested.cod, nested.is_dagger),
               functions=['cat.rsubs', 'cat.rmap', 'cat.Box.subs'])
    deep = nested.subs(z, 7)
    suite.fact('cat.Box.subs.nested.deep', deep.data == {'k': [x + 1, (y, {'d': 7})], 'j': 3} and deep.free_symbols == {x, y},
               what='substitution reaches symbols nested inside sequences inside mappings inside sequences',
               functions=['cat.rsubs', 'cat.rmap', 'cat.Box.subs'])
    mnest = tensor.Box('m', Dim(2), Dim(2), [[x, 1], [0, y * x]])
    full_m = mnest.subs([(x, 2), (y, 3)])
    suite.fact('tensor.Box.subs.nested_list.free_symbols', mnest.free_symbols == {x, y} and not full_m.free_symbols,
               what='box data written as a nested list: substituting every symbol leaves none (left: %s)'
                    % sorted(map(str, full_m.free_symbols)), functions=['cat.rmap', 'cat.Box.subs'])
    suite.identity('tensor.Box.subs.nested_list.commutes', arr(mnest.subs(x, z).eval()), sub_arr(mnest.eval(), x, z),
                   extra=(x, y, z), functions=['cat.rmap', 'cat.Box.subs'])
    suite.fact('tensor.Box.subs.nested_list.numbers', evaluates_to_numbers(full_m), functions=['cat.Box.subs'])
    # a daggered generic box whose data is not its own conjugate transpose: subs and lambdify keep the flag
    gd = tensor.Box('g', Dim(2), Dim(3), [x, sympy.I * y, 0, 1, x * y, 2]).dagger()
    gsub = gd.subs([(x, 2), (y, 3)])
    suite.fact('tensor.Box.dagger.subs.structure', (gsub.is_dagger, gsub.dom, gsub.cod) == (True, gd.dom, gd.cod),
               functions=['cat.Box.subs'])
    suite.identity('tensor.Box.dagger.subs.commutes', arr(gd.subs(x, z).eval()), sub_arr(gd.eval(), x, z), extra=(x, y, z),
                   functions=['cat.Box.subs'])
    with suite.guard('tensor.Box.dagger.lambdify', ['cat.Box.lambdify']):
        glam = gd.lambdify(x, y)(2, 3)
        suite.fact('tensor.Box.dagger.lambdify.structure', (glam.is_dagger, glam.dom, glam.cod) == (True, gd.dom, gd.cod),
                   what='lambdify keeps the dagger flag of a generic box', functions=['cat.Box.lambdify'])
        suite.identity('tensor.Box.dagger.lambdify==subs', arr(glam.eval()), arr(gsub.eval()), functions=['cat.Box.lambdify'],
                       what='lambdify then eval equals subs then eval on a daggered non-square box')
        dl = (gd >> gd.dagger()).lambdify(x, y)(2, 3)
        suite.identity('tensor.Diagram.dagger.lambdify==subs', arr(dl.eval()), arr((gd >> gd.dagger()).subs([(x, 2), (y, 3)]).eval()),
                       functions=['monoidal.Diagram.lambdify', 'cat.Box.lambdify'])
    nd = nested.dagger().subs(x, 5)
    suite.fact('cat.Box.subs.dagger_flag', nd.is_dagger and (nd.dom, nd.cod) == (nested.cod, nested.dom),
               functions=['cat.Box.subs'])
    # whole diagrams (samples): pure and mixed circuits, tensor diagrams, sums
    Id = circuit.Id
    circuits = {
        'pure': Rx(x) @ Id(1) >> gates.CX >> Rz(p) @ Ry(y),
        'mixed': gates.Ket(0) >> Ry(x) >> scalar(y, is_mixed=True) @ circuit.Measure(),
        'scalars': scalar(x) @ Rx(y) >> Rz(x),
        'mixed.complex': gates.Ket(0, 0) >> Rx(x) @ gates.H >> gates.CX >> Rz(x + y) @ Ry(y) >> Rx(y) @ circuit.Discard(),
        'mixed.measured': gates.Ket(0) >> Rz(x) >> Rx(y) >> circuit.Measure(destructive=False),
    }
    for name, c in circuits.items():
        mixed = c.is_mixed
        s = c.subs(x, z)
        suite.fact('circuit[%s].subs.structure' % name, (s.dom, s.cod, s.offsets, [flags(b) for b in s.boxes])
                   == (c.dom, c.cod, c.offsets, [flags(b) for b in c.boxes]),
                   what='same offsets, box kinds, dagger flags and mixedness', functions=['monoidal.Diagram.subs'])
        suite.identity('circuit[%s].subs.commutes' % name, arr(s.eval(mixed=mixed)), sub_arr(c.eval(mixed=mixed), x, z),
                       angle=[z, x, y], extra=(x, y, z), functions=['monoidal.Diagram.subs', 'quantum.circuit.Circuit.eval'],
                       what='substituting then evaluating = evaluating then substituting')
        # numbers for symbols: the evaluation of the substituted circuit is numeric, the other side stays symbolic until the end
        num = c.subs([(x, 0.3), (y, 0.7)]).subs(p, 0.2) if name == 'pure' else c.subs([(x, 0.3), (y, 0.7)])
        sym_side = [sympy.sympify(v).subs([(x, 0.3), (y, 0.7), (p, 0.2)]) for v in arr(c.eval(mixed=mixed))]
        suite.fact('circuit[%s].subs.numbers.commutes' % name,
                   bool(numpy.allclose(numpy.array([complex(v) for v in arr(num.eval(mixed=mixed))]),
                                       numpy.array([complex(sympy.N(v)) for v in sym_side]), atol=1e-9)),
                   functions=['monoidal.Diagram.subs', 'quantum.circuit.Circuit.eval', 'quantum.cqmap.CQMap.pure'],
                       what='substituting numbers then evaluating = evaluating symbolically then substituting the numbers')
        lam = c.lambdify(x, y)(0.25, 0.5)
        suite.identity('circuit[%s].lambdify==subs' % name, arr(lam.eval(mixed=mixed)),
                       arr(c.subs([(x, 0.25), (y, 0.5)]).eval(mixed=mixed)), functions=['monoidal.Diagram.lambdify'])
        full = c.subs([(x, 0.25), (y, 0.5)])
        suite.fact('circuit[%s].free_symbols' % name, c.free_symbols == {x, y} and not full.free_symbols,
                   functions=['cat.Arrow.free_symbols'])
    # chained lists of pairs (sympy substitutes them one after the other: an earlier expression may mention a later variable),
    # on whole diagrams whose boxes each contain only some of the symbols
    with suite.guard('chained substitution lists', ['monoidal.Diagram.subs']):
        chain = [(x, 2 * y), (y, sympy.Rational(3, 10))]
        for nm, dg in (('circuit', Rx(x) @ Id(1) >> gates.CX >> Rz(y) @ Ry(x + y)),
                       ('tensor', tensor.Box('a', Dim(1), Dim(2), [x, 1]) >> tensor.Box('b', Dim(2), Dim(2), [y, 0, x * y, 1]))):
            sub = dg.subs(chain)
            suite.fact('subs.chained[%s].free_symbols' % nm, not sub.free_symbols, functions=['monoidal.Diagram.subs'],
                       what='substituting every symbol by a chained list leaves none (left: %r)' % (sub.free_symbols,))
            want_side = [sympy.sympify(v).subs(chain) for v in arr(dg.eval())]
            suite.fact('subs.chained[%s].commutes' % nm,
                       bool(not sub.free_symbols and numpy.allclose(numpy.array([complex(sympy.N(v)) for v in arr(sub.eval())]),
                                                                     numpy.array([complex(sympy.N(v)) for v in want_side]), atol=1e-9)),
                       functions=['monoidal.Diagram.subs'], what='substituting a chained list then evaluating = evaluating then substituting the list')
    # lambdify of tensors whose arrays are views (the result of a dagger, a tensor, an evaluation)
    with suite.guard('Tensor.lambdify on views', ['tensor.Tensor.lambdify']):
        tv_ = tensor.Tensor(Dim(2), Dim(3), [x, 2, y, x * y, 5, x + y])
        for nm, tt in (('t', tv_), ('t.dagger()', tv_.dagger()), ('t @ t', tv_ @ tv_), ('(t >> t.dagger()) @ t', (tv_ >> tv_.dagger()) @ tv_),
                       ('swap', tv_ @ tv_.dagger() >> tensor.Tensor.swap(Dim(3), Dim(2)))):
            lam_ = tt.lambdify(x, y)(2, 3)
            sb_ = tt.subs([(x, 2), (y, 3)])
            suite.fact('Tensor.lambdify.view[%s]' % nm, (lam_.dom, lam_.cod) == (sb_.dom, sb_.cod) and
                       bool(numpy.allclose(numpy.array(lam_.array, dtype=complex), numpy.array([[complex(sympy.N(v)) for v in arr(sb_)]]).reshape(numpy.shape(lam_.array)))),
                       functions=['tensor.Tensor.lambdify'], what='calling the lambdified tensor on values = substituting them')
    vx = tensor.Box('vx', Dim(1), Dim(2), [x, x ** 2])
    wy = tensor.Box('wy', Dim(2), Dim(1), [y, y + 1])
    wz = tensor.Box('wz', Dim(1), Dim(1), [z])
    for order in ([(x, 2), (y, 3), (z, 5)], [(z, 5), (y, 3), (x, 2)], [(y, 3), (x, 2), (z, 5)]):
        dd = (vx >> wy) @ wz
        sub = dd.subs(order)
        suite.fact('tensor.Diagram.subs.pairs%s.free_symbols' % ([str(a) for a, _ in order],), not sub.free_symbols,
                   what='substituting every symbol with a list of pairs leaves no free symbol, whichever box each '
                        'symbol occurs in (left: %s)' % sorted(map(str, sub.free_symbols)),
                   functions=['cat.Box.subs', 'monoidal.Diagram.subs'])
        suite.identity('tensor.Diagram.subs.pairs%s.commutes' % ([str(a) for a, _ in order],), arr(sub.eval()),
                       sub_arr(dd.eval(), order), extra=(x, y, z), functions=['cat.Box.subs'])
    # a list of pairs is applied in order (sympy's convention, and Tensor.subs'): a replacement may mention a variable
    # that a later pair replaces
    chain = [(x, y + 1), (y, 3)]
    dd2 = (vx >> wy) @ wz
    sub2 = dd2.subs(chain)
    suite.fact('tensor.Diagram.subs.chained_pairs.free_symbols', sub2.free_symbols == {z},
               what='[(x, y + 1), (y, 3)] leaves only z (left: %s)' % sorted(map(str, sub2.free_symbols)),
               functions=['cat.rsubs', 'cat.Box.subs'])
    suite.identity('tensor.Diagram.subs.chained_pairs.commutes', arr(sub2.eval()), sub_arr(dd2.eval(), chain), extra=(x, y, z),
                   functions=['cat.rsubs', 'cat.Box.subs'], what='subs then eval == eval then subs for chained pairs')
    rc = (Rx(x) >> Rz(x + y)).subs(chain)
    suite.fact('circuit.subs.chained_pairs.free_symbols', not rc.free_symbols, functions=['cat.rsubs'],
               what='[(x, y + 1), (y, 3)] on Rx(x) >> Rz(x + y) leaves no symbol (left: %s)' % sorted(map(str, rc.free_symbols)))
    nb = cat.Box('n', cat.Ob('a'), cat.Ob('b'), data=[y, 1])
    suite.fact('cat.Box.subs.pairs.first_var_absent', nb.subs([(x, 1), (y, 2)]).data == [2, 1],
               functions=['cat.Box.subs'])
    d = v >> tensor.Box('m', Dim(2), Dim(2), [x, 1, y, x ** 2])
    suite.identity('tensor.Diagram.subs.commutes', arr(d.subs(x, z).eval()), sub_arr(d.eval(), x, z), extra=(x, y, z),
                   functions=['monoidal.Diagram.subs'])
    sm = (Rx(x) + Rz(x + y))
    suite.fact('Sum.subs.termwise', [repr(t_) for t_ in sm.subs(x, z).terms] == [repr(Rx(z)), repr(Rz(z + y))],
               functions=['cat.Sum.subs'])
    return suite.result()
