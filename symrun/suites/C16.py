"""C16: the real gate2zx / circuit2zx on symbolic phases; the standard interpretation of the ZX
diagram is proportional (non-zero factor) to the standard matrix of the gate; daggers."""
import itertools

import sympy
from sympy import I, Symbol, conjugate

from discopy.quantum import gates, circuit, zx
from discopy.quantum.gates import Rx, Rz, CRz, CRx, CU1, Ket, Bra, scalar
from contracts import spec_quantum as S
from symrun.harness import Suite
from symrun.interp import zx_matrix, mat_list

phi = Symbol('phi', real=True)


def dagger_of(m):
    return [[conjugate(sympy.sympify(m[c][r])) for c in range(len(m))] for r in range(len(m[0]))]


def run(tier):
    suite = Suite()
    fz = ['quantum.zx.gate2zx']
    cases = {'Rz(phi)': (Rz(phi), S.Rz(phi)), 'Rx(phi)': (Rx(phi), S.Rx(phi)), 'CRz(phi)': (CRz(phi), S.CRz(phi)),
             'CRx(phi)': (CRx(phi), S.CRx(phi)), 'CU1(phi)': (CU1(phi), S.CU1(phi)),
             'H': (gates.H, S.H), 'X': (gates.X, S.X), 'Y': (gates.Y, S.Y), 'Z': (gates.Z, S.Z),
             'CX': (gates.CX, S.CX), 'CZ': (gates.CZ, S.CZ)}
    for name, (g, M) in cases.items():
        d = zx.gate2zx(g)
        suite.fact('gate2zx[%s].arity' % name, (len(d.dom), len(d.cod)) == (len(g.dom), len(g.cod)),
                   what='same number of input and output wires', functions=fz)
        suite.proportional('gate2zx[%s].denotes' % name, mat_list(zx_matrix(d)), mat_list(M), angle=phi,
                           what='the ZX diagram of %s denotes its matrix up to a non-zero scalar, for every phase' % name,
                           functions=fz)
        # ... and the circuit's OWN pure evaluation (the statement compares the diagram with what discopy evaluates the
        # circuit to, not only with the textbook matrix)
        import numpy as _np
        ev = g.eval()
        own = sympy.Matrix(_np.array(ev.array, dtype=object).reshape(2 ** len(g.dom), 2 ** len(g.cod)).tolist()).T
        suite.proportional('gate2zx[%s].denotes.own_evaluation' % name, mat_list(zx_matrix(d)), mat_list(own), angle=phi,
                           what='the ZX diagram of %s denotes the pure evaluation of the gate up to a non-zero scalar, for every phase' % name,
                           functions=fz + ['quantum.circuit.Circuit.eval'])
    for n in range(1, 4):
        for bits in itertools.product((0, 1), repeat=n):
            for cls, M in ((Ket, S.ket(*bits)), (Bra, S.ket(*bits).T)):
                d = zx.gate2zx(cls(*bits))
                suite.fact('gate2zx[%s%s].arity' % (cls.__name__, bits),
                           (len(d.dom), len(d.cod)) == (len(cls(*bits).dom), len(cls(*bits).cod)), functions=fz)
                suite.proportional('gate2zx[%s%s].denotes' % (cls.__name__, bits), mat_list(zx_matrix(d)),
                                   mat_list(M), functions=fz, what='basis states / effects')
    a, b = sympy.symbols('a b', real=True)
    for zero in (0, 0., 0j):
        suite.identity('gate2zx[scalar(%r)].denotes' % (zero,), mat_list(zx_matrix(zx.gate2zx(scalar(zero)))), [[0]],
                       functions=['quantum.zx.gate2zx', 'quantum.zx.scalar'],
                       what='a circuit that evaluates to the zero map is sent to a ZX diagram denoting the zero map '
                            '(the scalar factor of the translation must be non-zero)')
    suite.identity('circuit2zx[scalar(0) @ H].denotes', mat_list(zx_matrix(zx.circuit2zx(scalar(0) @ gates.H))), [[0, 0], [0, 0]],
                   functions=['quantum.zx.gate2zx', 'quantum.zx.scalar'], what='idem inside a circuit')
    suite.identity('gate2zx[scalar].denotes', mat_list(zx_matrix(zx.gate2zx(scalar(a + I * b)))), [[a + I * b]],
                   extra=(a, b), functions=fz)
    refused = False
    try:
        zx.gate2zx(scalar(0.5, is_mixed=True))
    except NotImplementedError:
        refused = True
    suite.fact('gate2zx[mixed scalar].refused', refused, what='mixed scalars are refused with NotImplementedError',
               functions=fz)
    # whole circuits through the functor (samples of the functorial lifting, C04)
    Id = circuit.Id
    circuits = {
        'H@Id>>CX': (gates.H @ Id(1) >> gates.CX, S.CX * S.kron(S.H, sympy.eye(2))),
        'Rx(phi)@Rz(phi)>>CZ': (Rx(phi) @ Rz(phi) >> gates.CZ, S.CZ * S.kron(S.Rx(phi), S.Rz(phi))),
        'Ket(0,1)>>CX>>Id@Bra(1)': (Ket(0, 1) >> gates.CX >> Id(1) @ Bra(1),
                                    S.kron(sympy.eye(2), S.ket(1).T) * S.CX * S.ket(0, 1)),
        'Id@X>>SWAP>>CRz(phi)': (Id(1) @ gates.X >> gates.SWAP >> CRz(phi), S.CRz(phi) * S.SWAP * S.kron(sympy.eye(2), S.X)),
    }
    for name, (c, M) in circuits.items():
        d = zx.circuit2zx(c)
        suite.fact('circuit2zx[%s].arity' % name, (len(d.dom), len(d.cod)) == (len(c.dom), len(c.cod)),
                   functions=['quantum.zx.circuit2zx'])
        suite.proportional('circuit2zx[%s].denotes' % name, mat_list(zx_matrix(d)), mat_list(M), angle=phi,
                           functions=['quantum.zx.circuit2zx', 'rigid.Functor.__call__'],
                           what='the ZX image of a circuit denotes its evaluation up to a non-zero scalar')
    # "for every phase": gates of one kind whose phases differ little (or are large) in one translation run; each gets the
    # diagram of ITS phase.  Numeric comparison up to a non-zero factor.
    import numpy

    def numeric(m):
        return numpy.array([[complex(sympy.N(e)) for e in row] for row in mat_list(m)], dtype=complex)

    def proportional_num(A, B, tol=1e-9):
        a, b = A.flatten(), B.flatten()
        k = int(numpy.argmax(abs(b)))
        return abs(b[k]) > tol and abs(a[k]) > tol and numpy.allclose(a * b[k], b * a[k], atol=tol * max(1.0, abs(a[k]) * abs(b[k])))
    for cls, Sm in ((Rz, S.Rz), (Rx, S.Rx), (CRz, S.CRz), (CU1, S.CU1)):
        for p1, p2 in ((0.1234, 0.1232), (-0.5001, -0.5004), (12.31, 12.34), (1000.25, 1000.5), (0.3, 0.30004)):
            nm = '%s(%r) then %s(%r)' % (cls.__name__, p1, cls.__name__, p2)
            with suite.guard('close phases ' + nm, fz):
                d1, d2 = zx.circuit2zx(cls(p1)), zx.circuit2zx(cls(p2))
                both = zx.circuit2zx(cls(p1) >> cls(p2))
                ok = proportional_num(numeric(zx_matrix(d1)), numeric(Sm(p1))) \
                    and proportional_num(numeric(zx_matrix(d2)), numeric(Sm(p2))) \
                    and proportional_num(numeric(zx_matrix(both)), numeric(Sm(p2) * Sm(p1)))
                suite.fact('close phases[%s].denotes' % nm, bool(ok), functions=['quantum.zx.circuit2zx'] + fz,
                           what='two %s gates with phases %r and %r translated in one run each denote their own matrix, alone '
                                'and composed' % (cls.__name__, p1, p2))
    # daggers of ZX generators and diagrams
    legs = range(0, 3) if tier == 'quick' else range(0, 4)
    for cls in (zx.Z, zx.X):
        for i, o in itertools.product(legs, legs):
            sp = cls(i, o, phi)
            suite.identity('%s(%d,%d,phi).dagger' % (cls.__name__, i, o), mat_list(zx_matrix(sp.dagger())),
                           dagger_of(mat_list(zx_matrix(sp))), angle=phi, functions=['quantum.zx.Spider.dagger'],
                           what='the dagger of a spider denotes the conjugate transpose')
    suite.identity('H.dagger', mat_list(zx_matrix(zx.H.dagger())), dagger_of(mat_list(zx_matrix(zx.H))),
                   functions=['quantum.zx.Had.dagger'])
    suite.identity('scalar.dagger', mat_list(zx_matrix(zx.scalar(a + I * b).dagger())), [[a - I * b]], extra=(a, b),
                   functions=['quantum.zx.Scalar.dagger'])
    suite.identity('SWAP.dagger', mat_list(zx_matrix(zx.SWAP.dagger())), dagger_of(mat_list(zx_matrix(zx.SWAP))),
                   functions=['monoidal.Swap.dagger'])
    diagrams = {
        'Z(1,2,phi)>>H@X(1,1,phi)': zx.Z(1, 2, phi) >> zx.H @ zx.X(1, 1, phi),
        'gate2zx(CRz(phi))': zx.gate2zx(CRz(phi)),
        'X(0,2)>>SWAP>>Z(2,1,phi)@scalar': zx.X(0, 2) >> zx.SWAP >> zx.Z(2, 1, phi) @ zx.scalar(a + I * b),
    }
    for name, d in diagrams.items():
        suite.identity('diagram[%s].dagger' % name, mat_list(zx_matrix(d.dagger())),
                       dagger_of(mat_list(zx_matrix(d))), angle=phi, extra=(a, b),
                       functions=['cat.Arrow.dagger', 'quantum.zx.Spider.dagger'],
                       what='the dagger of a ZX diagram denotes the conjugate transpose')
    return suite.result()
