"""C11: every exported gate, evaluated by the real code on a symbolic phase, against the standard
matrix; unitarity; dagger honoured by evaluation; controlled gates; kets/bras; rewire."""
import itertools

import numpy
import sympy
from sympy import I, Symbol, conjugate

from discopy.quantum import gates, circuit
from discopy.quantum.gates import (Rx, Ry, Rz, CU1, CRz, CRx, Controlled, Ket, Bra, QuantumGate, rewire,
                                   scalar, sqrt)
from contracts import spec_quantum as S
from symrun.harness import Suite, numeric_witness

phi = Symbol('phi', real=True)


def as_matrix(array, n_in, n_out):
    """discopy array (index order [in..., out...]) -> standard matrix M[out][in] as nested lists"""
    a = numpy.array(array, dtype=object).reshape(2 ** n_in, 2 ** n_out)
    return [[a[i][o] for i in range(2 ** n_in)] for o in range(2 ** n_out)]


def mat_list(M):
    return [[M[r, c] for c in range(M.shape[1])] for r in range(M.shape[0])]


def dagger_of(m):
    return [[conjugate(sympy.sympify(m[c][r])) for c in range(len(m))] for r in range(len(m[0]))]


def matmul(a, b):
    return [[sum(a[r][k] * b[k][c] for k in range(len(b))) for c in range(len(b[0]))] for r in range(len(a))]


def eval_matrix(circ):
    t = circ.eval()
    return as_matrix(t.array, len(circ.dom), len(circ.cod))


def run(tier):
    suite = Suite()
    rot = {'Rx': Rx, 'Ry': Ry, 'Rz': Rz, 'CU1': CU1, 'CRz': CRz, 'CRx': CRx}
    for name, cls in rot.items():
        g = cls(phi)
        n = len(g.dom)
        fq = 'quantum.gates.%s.array' % name
        M = as_matrix(g.array, n, n)
        want = mat_list(S.ROTATIONS[name](phi))
        wit = numeric_witness(lambda p: as_matrix(cls(p).array, n, n), lambda p: mat_list(S.ROTATIONS[name](p)))
        suite.identity('%s.matrix' % name, M, want, angle=phi, numeric=wit, functions=[fq],
                       what='%s(phi).array is the tket %s(2*phi) matrix for every real phi' % (name, name))
        suite.identity('%s.unitary' % name, matmul(dagger_of(M), M), mat_list(sympy.eye(2 ** n)), angle=phi,
                       functions=[fq], what='%s(phi) is unitary' % name)
        suite.identity('%s.dagger_eval' % name, eval_matrix(g.dagger()), dagger_of(eval_matrix(g)), angle=phi,
                       functions=['quantum.gates.Rotation.dagger', 'tensor.Functor.__call__'],
                       numeric=numeric_witness(lambda p: eval_matrix(cls(p).dagger()),
                                               lambda p: numpy.conjugate(numpy.array(eval_matrix(cls(p)),
                                                                                     dtype=complex)).T),
                       what='evaluating %s(phi).dagger() gives the conjugate transpose' % name)
    named = {'H': gates.H, 'S': gates.S, 'T': gates.T, 'X': gates.X, 'Y': gates.Y, 'Z': gates.Z,
             'CX': gates.CX, 'CZ': gates.CZ, 'SWAP': gates.SWAP}
    for name, g in named.items():
        n = len(g.dom)
        M = eval_matrix(g)
        want = mat_list(S.NAMED[name])
        suite.identity('%s.matrix' % name, M, want, functions=['quantum.gates.GATES'],
                       numeric=numeric_witness(lambda p: M, lambda p: want, phases=(0,)),
                       what='%s evaluates to the standard %s matrix' % (name, name))
        suite.identity('%s.unitary' % name, matmul(dagger_of(M), M), mat_list(sympy.eye(2 ** n)),
                       functions=['quantum.gates.GATES'], what='%s is unitary' % name)
        suite.identity('%s.dagger_eval' % name, eval_matrix(g.dagger()), dagger_of(M),
                       functions=['quantum.gates.QuantumGate.dagger', 'tensor.Functor.__call__'],
                       numeric=numeric_witness(lambda p: eval_matrix(g.dagger()), lambda p: dagger_of(M), (0,)),
                       what='evaluating %s.dagger() gives the conjugate transpose (stored flag / hermitian gate)' % name)
        suite.identity('%s.dagger_dagger_eval' % name, eval_matrix(g.dagger().dagger()), M,
                       functions=['quantum.gates.QuantumGate.dagger'], what='dagger is involutive under evaluation')
    # controlled gates
    # (Controlled stores a numeric complex array: symbolic targets are outside its domain)
    targets = {'X': gates.X, 'Y': gates.Y, 'Z': gates.Z, 'H': gates.H, 'S': gates.S, 'T': gates.T,
               'Rz(1/8)': Rz(0.125), 'Rx(1/4)': Rx(0.25), 'Ry(1/2)': Ry(0.5)}
    for name, g in targets.items():
        cg = Controlled(g)
        U = sympy.Matrix(eval_matrix(g))
        suite.identity('Controlled(%s).block' % name, eval_matrix(cg), mat_list(S.controlled(U)), angle=phi,
                       functions=['quantum.gates.Controlled.__init__'],
                       what='Controlled(U) = |0><0| (x) I + |1><1| (x) U')
        suite.identity('Controlled(%s).dagger_eval' % name, eval_matrix(cg.dagger()),
                       dagger_of(eval_matrix(cg)), angle=phi, functions=['quantum.gates.Controlled.dagger'],
                       what='dagger of a controlled gate evaluates to the conjugate transpose')
    # kets and bras
    for n in range(0, 4):
        for bits in itertools.product((0, 1), repeat=n):
            want = mat_list(S.ket(*bits))
            suite.identity('Ket%s.basis' % (bits,), eval_matrix(Ket(*bits)), want,
                           functions=['quantum.gates.Ket.__init__', 'quantum.gates.Digits.array'],
                           what='Ket(bits) is the basis vector |bits>, leftmost qubit most significant')
            suite.identity('Bra%s.basis' % (bits,), eval_matrix(Bra(*bits)), mat_list(S.ket(*bits).T),
                           functions=['quantum.gates.Bra.__init__'], what='Bra(bits) is <bits|')
            suite.identity('Ket%s.dagger' % (bits,), eval_matrix(Ket(*bits).dagger()), mat_list(S.ket(*bits).T),
                           functions=['quantum.gates.Ket.dagger'], what='Ket.dagger() is the bra')
    # scalars
    a, b = sympy.symbols('a b', real=True)
    z = a + I * b
    suite.identity('scalar.array', eval_matrix(scalar(z)), [[z]], extra=(a, b), functions=['quantum.gates.Scalar.array'])
    suite.identity('scalar.dagger_eval', eval_matrix(scalar(z).dagger()), [[a - I * b]], extra=(a, b),
                   functions=['quantum.gates.Scalar.dagger'], what='dagger of a scalar is its conjugate')
    suite.identity('scalar.real.dagger_eval', eval_matrix(scalar(a).dagger()), [[a]], extra=(a,),
                   functions=['quantum.gates.Scalar.dagger'])
    # user-defined gates on two and three qubits whose matrix changes when the qubit order is reversed: the dagger of the
    # box, and of circuits containing it, evaluates to the conjugate transpose
    from discopy.quantum.gates import QuantumGate
    U2 = QuantumGate('U2', 2, [1, 0, 0, 0, 0, 0, 1j, 0, 0, 0, 0, 1, 0, -1, 0, 0])
    U3 = QuantumGate('U3', 3, [0, 1, 0, 0, 0, 0, 0, 0,  1j, 0, 0, 0, 0, 0, 0, 0,  0, 0, 0, 1, 0, 0, 0, 0,  0, 0, 1, 0, 0, 0, 0, 0,
                               0, 0, 0, 0, 0, 0, 1, 0,  0, 0, 0, 0, 1, 0, 0, 0,  0, 0, 0, 0, 0, 0, 0, -1j,  0, 0, 0, 0, 0, 1, 0, 0])
    for nm, circ in (('U2', circuit.Id(2) >> U2), ('U2.dagger()', circuit.Id(2) >> U2.dagger()), ('U3.dagger()', circuit.Id(3) >> U3.dagger()),
                     ('H@Id>>U2.dagger()>>CX', gates.H @ circuit.Id(1) >> U2.dagger() >> gates.CX),
                     ('U2>>U2.dagger()', U2 >> U2.dagger())):
        suite.identity('user_gate[%s].dagger' % nm, eval_matrix(circ.dagger()), dagger_of(eval_matrix(circ)),
                       functions=['cat.Arrow.dagger', 'tensor.Tensor.dagger', 'tensor.Functor.__call__'],
                       what='the dagger of a circuit with a user-defined multi-qubit gate evaluates to the conjugate transpose')
    suite.identity('user_gate[U2.dagger()].matrix', eval_matrix(circuit.Id(2) >> U2.dagger()),
                   dagger_of([[U2.array.reshape(4, 4).T[r][c] for c in range(4)] for r in range(4)]),
                   functions=['tensor.Tensor.dagger'], what='U.dagger() evaluates to the conjugate transpose of the matrix of U')
    suite.identity('user_gate[U2>>U2.dagger()].identity', eval_matrix(U2 >> U2.dagger()), mat_list(sympy.eye(4)),
                   functions=['tensor.Tensor.dagger'])
    # square roots: sqrt(v) evaluates to a square root of v and its dagger to the conjugate of that number
    for v in (2, -2, 2j, -1 + 1j):
        with suite.guard('sqrt(%s)' % (v,), ['quantum.gates.Sqrt']):
            r = complex(numpy.array(sqrt(v).eval().array).flatten()[0])
            d = complex(numpy.array(sqrt(v).dagger().eval().array).flatten()[0])
            suite.fact('sqrt(%s).squares_to' % (v,), abs(r * r - v) < 1e-12, functions=['quantum.gates.Sqrt.array'],
                       what='sqrt(v).eval() ** 2 == v (got %r)' % (r,))
            suite.fact('sqrt(%s).dagger_eval' % (v,), abs(d - r.conjugate()) < 1e-12, functions=['quantum.gates.Scalar.dagger'],
                       what='the dagger of sqrt(%s) evaluates to the conjugate %r of %r (got %r)' % (v, r.conjugate(), r, d))
    # circuits: ordered product on the stated qubits (samples of the compositional theorem C09)
    Id = circuit.Id
    samples = {
        'Rx(phi)@Id>>CX': (Rx(phi) @ Id(1) >> gates.CX, S.CX * S.kron(S.Rx(phi), sympy.eye(2))),
        'H@Id>>CX>>Id@Rz(phi)': (gates.H @ Id(1) >> gates.CX >> Id(1) @ Rz(phi),
                                 S.kron(sympy.eye(2), S.Rz(phi)) * S.CX * S.kron(S.H, sympy.eye(2))),
        'Id@X>>SWAP>>CRz(phi)': (Id(1) @ gates.X >> gates.SWAP >> CRz(phi),
                                 S.CRz(phi) * S.SWAP * S.kron(sympy.eye(2), S.X)),
        'Ket(1,0)>>CX>>Id@Ry(phi)': (Ket(1, 0) >> gates.CX >> Id(1) @ Ry(phi),
                                     S.kron(sympy.eye(2), S.Ry(phi)) * S.CX * S.ket(1, 0)),
        'Id@Ket(0)@Id>>Id@CX': (Id(1) @ Ket(0) @ Id(1) >> Id(1) @ gates.CX,
                                S.kron(sympy.eye(2), S.CX) * S.kron(sympy.eye(2), S.ket(0), sympy.eye(2))),
        # several ancillas inserted to the LEFT of existing wires, then a gate on the far right qubit
        'Ket(1)@Id(2)>>Ket(0)@Id(3)>>Id(3)@Y': (Ket(1) @ Id(2) >> Ket(0) @ Id(3) >> Id(3) @ gates.Y,
                                                S.kron(sympy.eye(8), S.Y) * S.kron(S.ket(0), sympy.eye(8))
                                                * S.kron(S.ket(1), sympy.eye(4))),
        'Ket(0)@Id(1)>>Ket(1)@Id(2)>>Ket(0)@Id(3)>>Id(2)@CX>>Id(3)@Rx(phi)': (
            Ket(0) @ Id(1) >> Ket(1) @ Id(2) >> Ket(0) @ Id(3) >> Id(2) @ gates.CX >> Id(3) @ Rx(phi),
            S.kron(sympy.eye(8), S.Rx(phi)) * S.kron(sympy.eye(4), S.CX) * S.kron(S.ket(0), sympy.eye(8))
            * S.kron(S.ket(1), sympy.eye(4)) * S.kron(S.ket(0), sympy.eye(2))),
        'Id(1)@Ket(0)>>Ket(1)@Id(2)>>Id(1)@Bra(0)@Id(1)>>Id(1)@Rz(phi)': (
            Id(1) @ Ket(0) >> Ket(1) @ Id(2) >> Id(1) @ Bra(0) @ Id(1) >> Id(1) @ Rz(phi),
            S.kron(sympy.eye(2), S.Rz(phi)) * S.kron(sympy.eye(2), S.ket(0).T, sympy.eye(2))
            * S.kron(S.ket(1), sympy.eye(4)) * S.kron(sympy.eye(2), S.ket(0))),
    }
    for name, (circ, want) in samples.items():
        suite.identity('circuit[%s].product' % name, eval_matrix(circ), mat_list(want), angle=phi,
                       functions=['quantum.circuit.Circuit.eval', 'tensor.Functor.__call__'],
                       what='a circuit evaluates to the ordered product of its gates on the stated qubits')
        suite.identity('circuit[%s].dagger' % name, eval_matrix(circ.dagger()), dagger_of(eval_matrix(circ)),
                       angle=phi, functions=['cat.Arrow.dagger', 'tensor.Functor.__call__'],
                       what='the dagger of a pure circuit evaluates to the conjugate transpose')
    # rewire: a two-qubit gate onto qubits a, b  (bounded in the number of qubits, symbolic in the phase)
    max_n = 3 if tier == 'quick' else 4
    ops = {'CX': (gates.CX, S.CX), 'CRz(phi)': (CRz(phi), S.CRz(phi))}
    for n in range(2, max_n + 1):
        for a_, b_ in itertools.permutations(range(n), 2):
            for oname, (op, U) in ops.items():
                circ = rewire(op, a_, b_, dom=circuit.qubit ** n)
                suite.identity('rewire[%s,a=%d,b=%d,n=%d]' % (oname, a_, b_, n), eval_matrix(circ),
                               mat_list(S.on_qubits(U, a_, b_, n)), angle=phi, functions=['quantum.gates.rewire'],
                               what='rewire(op, a, b) evaluates to op acting on qubits a and b')
    return suite.result()
