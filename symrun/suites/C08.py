"""C08: the real Tensor operations on arrays of *symbolic complex entries*, for every choice of
dimension tuples up to the stated bound: then = matrix product, tensor = Kronecker product,
dagger = conjugate transpose, id, swap = block permutation matrix, both snake equations,
interchange law, naturality of swaps.  (All arrays of each shape at once; shapes are enumerated.)"""
import itertools

import numpy
import sympy
from sympy import I, Matrix

from discopy.tensor import Dim, Tensor
from symrun.harness import Suite

_counter = itertools.count()


def prod(t):
    out = 1
    for x in t:
        out *= x
    return out


def sym_tensor(dom, cod, tag):
    n = prod(dom) * prod(cod)
    entries = [sympy.Symbol('%s%dr' % (tag, k), real=True) + I * sympy.Symbol('%s%di' % (tag, k), real=True)
               for k in range(n)]
    return Tensor(Dim(*dom), Dim(*cod), entries)


def mat(t):
    """matrix from the flattened domain to the flattened codomain, M[out][in]"""
    a = numpy.array(t.array, dtype=object).reshape(prod(t.dom), prod(t.cod))
    return Matrix(a.tolist()).T


def entries(m):
    return [sympy.expand(x) for x in m]


def free(*ts):
    s = set()
    for t in ts:
        for x in numpy.array(t.array, dtype=object).flatten():
            s |= sympy.sympify(x).free_symbols
    return tuple(sorted(s, key=str))


def run(tier):
    suite = Suite()
    dims = [(), (2,), (3,), (2, 3), (2, 2)] if tier == 'quick' else [(), (2,), (3,), (2, 3), (3, 2), (2, 2), (2, 2, 3)]
    fq = 'tensor.Tensor.'
    for a, b in itertools.product(dims, dims):
      with suite.guard('tensor ops %s->%s' % (a, b), [fq + 'then', fq + 'dagger', fq + 'swap', fq + 'id']):
            f = sym_tensor(a, b, 'f')
            # identity / dagger
            suite.identity('id%s' % (a,), entries(mat(Tensor.id(Dim(*a)))), entries(sympy.eye(prod(a))), functions=[fq + 'id'])
            suite.identity('dagger%s->%s' % (a, b), entries(mat(f.dagger())), entries(mat(f).H), extra=free(f),
                           functions=[fq + 'dagger'], what='dagger is the conjugate transpose')
            suite.fact('dagger%s->%s.type' % (a, b), (f.dagger().dom, f.dagger().cod) == (f.cod, f.dom), functions=[fq + 'dagger'])
            for c in dims:
                g = sym_tensor(b, c, 'g')
                suite.identity('then%s->%s->%s' % (a, b, c), entries(mat(f >> g)), entries(mat(g) * mat(f)),
                               extra=free(f, g), functions=[fq + 'then'], what='composition is the matrix product')
            # swaps
            sw = Tensor.swap(Dim(*a), Dim(*b))
            P = sympy.zeros(prod(a) * prod(b), prod(a) * prod(b))
            for i in range(prod(a)):
                for j in range(prod(b)):
                    P[j * prod(a) + i, i * prod(b) + j] = 1
            suite.identity('swap%s,%s' % (a, b), entries(mat(sw)), entries(P), functions=[fq + 'swap'],
                           what='swap is the permutation matrix exchanging the two blocks of wires')
    small = [(), (2,), (3,), (2, 3)] if tier == 'quick' else [(), (2,), (3,), (2, 3), (2, 2)]
    for a, b, c, d in itertools.product(small, small, small[:3], small[:3]):
        if prod(a) * prod(b) * prod(c) * prod(d) > 36:
            continue
        with suite.guard('tensor / interchange / swap %s %s %s %s' % (a, b, c, d), [fq + 'tensor', fq + 'swap']):
            _kron_block(suite, a, b, c, d, fq)
    for a in [(2,), (3,), (2, 3), (3, 2, 2)]:
        with suite.guard('snakes %s' % (a,), [fq + 'cups', fq + 'caps']):
            _snake_block(suite, a, fq)
    # "equalities of tensors": a tensor is a matrix FROM its domain TO its codomain; the same entries split differently
    # between dom and cod are different tensors
    with suite.guard('equality of tensors', [fq + '__eq__']):
        cup, cap, idn = Tensor.cups(Dim(2), Dim(2)), Tensor.caps(Dim(2), Dim(2)), Tensor.id(Dim(2))
        suite.fact('eq.types_matter[cup, cap, id]', not (cup == cap) and not (cup == idn) and not (cap == idn) and cup == Tensor.cups(Dim(2), Dim(2)),
                   functions=[fq + '__eq__'], what='cup, cap and identity on Dim(2) have the same entries and are three different tensors')
        v_ = Tensor(Dim(1), Dim(2, 3), list(range(6)))
        suite.fact('eq.types_matter[state vs effect]', not (v_ == Tensor(Dim(2, 3), Dim(1), list(range(6))))
                   and not (v_ == Tensor(Dim(2), Dim(3), list(range(6)))) and not (v_ == Tensor(Dim(1), Dim(3, 2), list(range(6))))
                   and v_ == Tensor(Dim(1), Dim(2, 3), list(range(6))), functions=[fq + '__eq__'])
        suite.fact('eq.congruence', (idn @ idn == cup @ cup) == (idn == cup), functions=[fq + '__eq__', fq + 'tensor'],
                   what='== is compatible with tensor')
    # naturality of swaps through diagram evaluation (the swap a tensor functor produces), wires of several / no dimensions
    from discopy import tensor as _t, rigid as _r
    with suite.guard('swap naturality through evaluation', ['tensor.Functor.__call__']):
        x_, y_ = _r.Ty('x'), _r.Ty('y')
        bf, bg = _r.Box('f', x_, x_), _r.Box('g', y_, y_)
        for dx, dy in (((2,), (3,)), ((2, 3), (2,)), ((2,), (2, 3)), ((), (2,)), ((2,), ()), ((2, 2), (3, 2))):
            A, B = sym_tensor(dx, dx, 'a'), sym_tensor(dy, dy, 'b')
            F = _t.Functor({x_: Dim(*dx), y_: Dim(*dy)}, {bf: A.array, bg: B.array})
            lhs = F(bf @ bg >> _r.Diagram.swap(x_, y_))
            rhs = F(_r.Diagram.swap(x_, y_) >> bg @ bf)
            suite.identity('swap.natural.evaluated%s%s' % (dx, dy), entries(mat(lhs)), entries(mat(rhs)), extra=free(A, B),
                           functions=['tensor.Functor.__call__', fq + 'swap'], what='(f @ g) ; swap == swap ; (g @ f) after evaluation')
            suite.identity('swap.evaluated%s%s' % (dx, dy), entries(mat(lhs)),
                           entries(mat(A @ B >> Tensor.swap(Dim(*dx), Dim(*dy)))), extra=free(A, B),
                           functions=['tensor.Functor.__call__', fq + 'swap'], what='the evaluated swap is Tensor.swap of the images')
    # cups, caps and the snake equations through diagram evaluation (the cups and caps a tensor functor produces), for
    # object images of one and of several wires with different dimensions
    with suite.guard('snakes through evaluation', ['tensor.Functor.__call__']):
        x_ = _r.Ty('x')
        bf = _r.Box('f', x_, x_)
        for dx in ((2,), (2, 3), (3, 2, 2)):
            A = sym_tensor(dx, dx, 'a')
            F = _t.Functor({x_: Dim(*dx)}, {bf: A.array})
            D = Dim(*dx)
            for nm, d, want in (
                    ('Cap(x, x.l)', _r.Cap(x_, x_.l), Tensor.caps(D, D.l)), ('Cap(x.r, x)', _r.Cap(x_.r, x_), Tensor.caps(D.r, D)),
                    ('Cup(x, x.r)', _r.Cup(x_, x_.r), Tensor.cups(D, D.r)), ('Cup(x.l, x)', _r.Cup(x_.l, x_), Tensor.cups(D.l, D)),
                    ('left snake', _r.Cap(x_, x_.l) @ _r.Id(x_) >> _r.Id(x_) @ _r.Cup(x_.l, x_), Tensor.id(D)),
                    ('right snake', _r.Id(x_) @ _r.Cap(x_.r, x_) >> _r.Cup(x_, x_.r) @ _r.Id(x_), Tensor.id(D)),
                    ('f on a left snake', _r.Cap(x_, x_.l) @ bf >> _r.Id(x_) @ _r.Cup(x_.l, x_), A)):
                suite.fact('snake.evaluated.type[%s]%s' % (nm, dx), (F(d).dom, F(d).cod) == (want.dom, want.cod),
                           functions=['tensor.Functor.__call__'], what='the evaluated cup / cap / snake has the type of its definition')
                suite.identity('snake.evaluated[%s]%s' % (nm, dx), entries(mat(F(d))), entries(mat(want)), extra=free(A),
                               functions=['tensor.Functor.__call__', fq + 'cups', fq + 'caps'],
                               what='cups and caps produced by a tensor functor are Tensor.cups / caps of the images; both snakes evaluate to the identity')
    # the dagger of a box stays the conjugate transpose after its entries were substituted (a tensor box keeps its array and
    # a flag; the flag must survive subs)
    with suite.guard('dagger after substitution', ['tensor.Functor.__call__', 'cat.Box.subs']):
        px, py = sympy.Symbol('px', real=True), sympy.Symbol('py', real=True)
        fb = _t.Box('f', Dim(2), Dim(3), [px, 2, 3 * sympy.I, 4, py, 1 - 2 * sympy.I * px])
        for nm, dg in (('f.dagger().subs', fb.dagger().subs(px, 7)), ('(v >> f).dagger().subs', (_t.Box('v', Dim(1), Dim(2), [1, py]) >> fb).dagger().subs(px, 7)),
                       ('f.dagger().dagger().subs', fb.dagger().dagger().subs(px, 7))):
            ref = {'f.dagger().subs': lambda: fb.subs(px, 7).eval().dagger(),
                   '(v >> f).dagger().subs': lambda: (_t.Box('v', Dim(1), Dim(2), [1, py]) >> fb).subs(px, 7).eval().dagger(),
                   'f.dagger().dagger().subs': lambda: fb.subs(px, 7).eval()}[nm]()
            got = dg.eval()
            suite.fact('dagger.after_subs.type[%s]' % nm, (got.dom, got.cod) == (ref.dom, ref.cod), functions=['cat.Box.subs'])
            suite.identity('dagger.after_subs[%s]' % nm, entries(mat(got)), entries(mat(ref)), extra=(py,), functions=['cat.Box.subs', 'tensor.Functor.__call__'],
                           what='substitution keeps the dagger: the evaluation is the conjugate transpose of the substituted box')
    # a tensor is the matrix FROM its flattened domain TO its flattened codomain however the entries are handed over: flat,
    # nested by wire, or as the row / column / block matrix itself
    with suite.guard('arrays handed over in other shapes', [fq + '__init__']):
        import numpy as _np
        for a_, b_ in (((2, 3), ()), ((), (2, 3)), ((2,), (3,)), ((2, 3), (2,)), ((2, 2), (3,)), ((4,), (2, 3))):
            n_in, n_out = prod(a_), prod(b_)
            flat = [sympy.Integer(7 * k + 1) + sympy.I * (k % 3) for k in range(n_in * n_out)]
            ref = Tensor(Dim(*a_), Dim(*b_), flat)
            shapes = {'matrix': (n_in, n_out), 'column': (n_in * n_out, 1), 'row': (1, n_in * n_out), 'by wire': tuple(a_ + b_) or (1,)}
            for nm, shp in shapes.items():
                t_ = Tensor(Dim(*a_), Dim(*b_), _np.array(flat, dtype=object).reshape(shp))
                suite.fact('init.shape[%s]%s->%s' % (nm, a_, b_), _np.shape(t_.array) == _np.shape(ref.array) and t_ == ref,
                           functions=[fq + '__init__'], what='the same entries in shape %r give the same tensor' % (shp,))
                g_ = sym_tensor(b_, (2,), 'g')
                suite.identity('init.shape.then[%s]%s->%s' % (nm, a_, b_), entries(mat(t_ >> g_)), entries(mat(g_) * mat(ref)), extra=free(g_),
                               functions=[fq + '__init__', fq + 'then'], what='... and composes as the matrix product')
    # adjoints of multi-wire images: a tensor functor sends x.l, x.r, x.l.l, x.r.r ... to the adjoints of the image (reversed
    # for odd winding numbers, as it is for even ones)
    with suite.guard('adjoint types through evaluation', ['tensor.Functor.__call__']):
        x_, y_ = _r.Ty('x'), _r.Ty('y')
        F_ = _t.Functor({x_: Dim(2, 3), y_: Dim(5)}, {})
        for nm, t_ in (('x', x_), ('x.l', x_.l), ('x.r', x_.r), ('x.l.l', x_.l.l), ('x.r.r', x_.r.r), ('x.r.r.r', x_.r.r.r), ('x @ y', x_ @ y_),
                       ('(x @ y).l', (x_ @ y_).l), ('(x @ y).r.r', (x_ @ y_).r.r), ('y.l @ x.l.l', y_.l @ x_.l.l)):
            base_ = {'x': Dim(2, 3), 'x.l': Dim(3, 2), 'x.r': Dim(3, 2), 'x.l.l': Dim(2, 3), 'x.r.r': Dim(2, 3), 'x.r.r.r': Dim(3, 2), 'x @ y': Dim(2, 3, 5),
                     '(x @ y).l': Dim(5, 3, 2), '(x @ y).r.r': Dim(2, 3, 5), 'y.l @ x.l.l': Dim(5, 2, 3)}[nm]
            suite.fact('functor.adjoint_type[%s]' % nm, tuple(F_(t_)) == tuple(base_) and tuple(F_(t_.l)) == tuple(base_)[::-1] and tuple(F_(t_.r)) == tuple(base_)[::-1],
                       functions=['tensor.Functor.__call__'], what='F(%s) = %r, and F of its adjoints is that reversed (got %r, %r, %r)' % (nm, base_, F_(t_), F_(t_.l), F_(t_.r)))
    # wires of dimension one: a box whose image is a scalar although its domain and codomain have different numbers of wires
    # (m : s @ s -> s, cups and caps on s) must not disturb the boxes to its right -- tensor is the Kronecker product and
    # composition the matrix product also around the empty type
    with suite.guard('unit wires beside boxes', ['tensor.Functor.__call__']):
        s_, x_, y_ = _r.Ty('s'), _r.Ty('x'), _r.Ty('y')
        bm, bu = _r.Box('m', s_ @ s_, s_), _r.Box('u', _r.Ty(), s_ @ s_ @ s_)
        bgx, bgy = _r.Box('g', x_, x_), _r.Box('h', y_, x_)
        for dx, dy in (((2,), (2,)), ((2,), (3,)), ((2, 2), (3,))):
            G, H = sym_tensor(dx, dx, 'g'), sym_tensor(dy, dx, 'h')
            F = _t.Functor({s_: Dim(1), x_: Dim(*dx), y_: Dim(*dy)},
                           {bm: [3], bu: [5], bgx: G.array, bgy: H.array})
            for nm, d, want in (
                    ('m @ Id(x) @ g', bm @ _r.Id(x_) @ bgx, Tensor(Dim(1), Dim(1), [3]) @ Tensor.id(Dim(*dx)) @ G),
                    ('m @ h @ g', bm @ bgy @ bgx, Tensor(Dim(1), Dim(1), [3]) @ H @ G),
                    ('u @ Id(y) @ g >> m @ Id(s) @ h @ g', bu @ _r.Id(y_) @ bgx >> bm @ _r.Id(s_) @ bgy @ bgx,
                     Tensor(Dim(1), Dim(1), [15]) @ H @ (G >> G)),
                    ('Cup(s, s.r) @ Id(y) @ g', _r.Cup(s_, s_.r) @ _r.Id(y_) @ bgx, Tensor.id(Dim(*dy)) @ G)):
                suite.identity('unit_wires[%s]%s%s' % (nm, dx, dy), entries(mat(F(d))), entries(mat(want)), extra=free(G, H),
                               functions=['tensor.Functor.__call__'], what='boxes with scalar images leave the wires to their right in place')
    return suite.result()


def _kron_block(suite, a, b, c, d, fq):
    if True:
        f, g = sym_tensor(a, b, 'f'), sym_tensor(c, d, 'g')
        suite.identity('tensor%s->%s (x) %s->%s' % (a, b, c, d), entries(mat(f @ g)),
                       entries(sympy.kronecker_product(mat(f), mat(g))), extra=free(f, g), functions=[fq + 'tensor'],
                       what='tensor is the Kronecker product')
        idb, idc = Tensor.id(Dim(*b)), Tensor.id(Dim(*c))
        ida, idd = Tensor.id(Dim(*a)), Tensor.id(Dim(*d))
        suite.identity('interchange%s%s%s%s' % (a, b, c, d), entries(mat(f @ idc >> idb @ g)),
                       entries(mat(ida @ g >> f @ idd)), extra=free(f, g), functions=[fq + 'tensor', fq + 'then'],
                       what='interchange law as an equality of tensors')
        suite.identity('swap.natural%s%s%s%s' % (a, b, c, d),
                       entries(mat(f @ g >> Tensor.swap(Dim(*b), Dim(*d)))),
                       entries(mat(Tensor.swap(Dim(*a), Dim(*c)) >> g @ f)), extra=free(f, g), functions=[fq + 'swap'],
                       what='naturality of swaps')


def _snake_block(suite, a, fq):
    if True:
        x = Dim(*a)
        idx = Tensor.id(x)
        snake_r = idx @ Tensor.caps(x.r, x) >> Tensor.cups(x, x.r) @ idx
        snake_l = Tensor.caps(x, x.l) @ idx >> idx @ Tensor.cups(x.l, x)
        suite.identity('snake.right%s' % (a,), entries(mat(snake_r)), entries(sympy.eye(prod(a))),
                       functions=[fq + 'cups', fq + 'caps', 'rigid.cups'], what='snake equation')
        suite.identity('snake.left%s' % (a,), entries(mat(snake_l)), entries(sympy.eye(prod(a))),
                       functions=[fq + 'cups', fq + 'caps', 'rigid.cups'], what='snake equation')
        f = sym_tensor(a, a[:1], 'f')
        suite.identity('transpose.via.snakes%s' % (a,),
                       entries(mat(Tensor.caps(Dim(*a[:1]).r, Dim(*a[:1])) @ Tensor.id(x.r)
                                   >> Tensor.id(Dim(*a[:1]).r) @ f.dagger().conjugate() @ Tensor.id(x.r)
                                   >> Tensor.id(Dim(*a[:1]).r) @ Tensor.cups(x, x.r))),
                       entries(mat(f.dagger().conjugate()).T.reshape(prod(a[:1]), prod(a)) if False else
                               mat(Tensor(x.r, Dim(*a[:1]).r, numpy.array(f.dagger().conjugate().array, dtype=object)
                                          .transpose().reshape(-1)))),
                       extra=free(f), functions=[fq + 'cups', fq + 'caps'],
                       what='bending wires with cups and caps transposes (reverses the order of) the axes')

