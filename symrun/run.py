"""symrun/run.py <property> <tier> <out.json>: run the real code on symbolic parameters"""
import importlib
import json
import sys
import time
import traceback


def main():
    pid, tier, out = sys.argv[1:4]
    t0 = time.time()
    try:
        mod = importlib.import_module('symrun.suites.' + pid)
        res = mod.run(tier)
    except Exception as e:
        res = {'status': 'error', 'error': repr(e) + '\n' + traceback.format_exc()}
    res['wall_s'] = round(time.time() - t0, 2)
    with open(out, 'w') as f:
        json.dump(res, f, indent=1, default=str)


if __name__ == '__main__':
    main()
