"""symrun/run.py <property> <tier> <out.json>: run the real code on symbolic parameters"""
import importlib
import json
import sys
import time
import traceback


def main():
    pid, tier, out = sys.argv[1:4]
    t0 = time.time()
    try:
        mod = importlib.import_module('symrun.suites.' + pid)
        res = mod.run(tier)
    except Exception as e:
        from symrun import harness
        frames = traceback.extract_tb(e.__traceback__)
        where = [f for f in frames if '/discopy/' in f.filename]
        if where and harness.CURRENT:
            # the real code raised on an input of its domain: a failed obligation, not a checker error
            suite = harness.CURRENT[-1]
            caller = [f for f in frames if '/symrun/suites/' in f.filename]
            suite.obligations.append({
                'name': 'no_exception[%s line %d]' % (pid, caller[-1].lineno if caller else 0), 'ground': False,
                'zero': [], 'vars': [], 'functions': [],
                'what': 'the real code raised %s: %s at %s:%d in %s; the remaining obligations of the suite were not '
                        'generated' % (type(e).__name__, str(e)[:300], where[-1].filename, where[-1].lineno, where[-1].name)})
            res = suite.result()
            res['aborted'] = True
        else:
            res = {'status': 'error', 'error': repr(e) + '\n' + traceback.format_exc()}
    res['wall_s'] = round(time.time() - t0, 2)
    with open(out, 'w') as f:
        json.dump(res, f, indent=1, default=str)


if __name__ == '__main__':
    main()
