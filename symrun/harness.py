"""Obligation builder for the SYM back end: the real function is executed on a symbolic
parameter, the result is compared entrywise with an independently written spec, and the
difference is shipped as polynomial identities for z3 (symrun/discharge.py)."""
import random

import numpy
import sympy

from symrun import ring


CURRENT = []


class Suite:
    def __init__(self):
        CURRENT.append(self)
        self.obligations = []
        self.errors = []
        self.skipped = []

    def identity(self, name, got, want, angle=None, extra=(), what='', numeric=None, functions=()):
        """got / want: nested lists / arrays of sympy or numeric entries with equal shapes"""
        g = numpy.array(got, dtype=object).flatten()
        w = numpy.array(want, dtype=object).flatten()
        if g.shape != w.shape:
            self.obligations.append({'name': name, 'what': what, 'shape_mismatch': [list(numpy.shape(got)),
                                                                                      list(numpy.shape(want))],
                                     'zero': [], 'vars': [], 'functions': list(functions)})
            return
        zero = []
        try:
            for a, b in zip(g, w):
                re, im = ring.to_poly(sympy.sympify(a) - sympy.sympify(b), angle, extra)
                if re != 0:
                    zero.append(ring.poly_str(re))
                if im != 0:
                    zero.append(ring.poly_str(im))
        except ring.NotPolynomial as e:
            # outside the polynomial fragment: a numeric counterexample still refutes the identity
            cex = numeric_refutation(g, w)
            if cex is not None:
                self.obligations.append({'name': name, 'what': what + ' -- refuted numerically at %s' % cex['at'],
                                         'ground': False, 'zero': [], 'vars': [], 'functions': list(functions),
                                         'numeric': cex})
            else:
                self.obligations.append({'name': name, 'what': what, 'unsupported': str(e), 'zero': [], 'vars': [],
                                         'functions': list(functions)})
            return
        used = set()
        for z in zero:
            used |= {str(x) for x in sympy.sympify(z).free_symbols}
        ob = {'name': name, 'what': what, 'zero': zero, 'vars': sorted(used),
              'entries': int(len(g)), 'functions': list(functions),
              'got_sample': [str(x) for x in g[:4]], 'want_sample': [str(x) for x in w[:4]]}
        if numeric is not None:
            ob['numeric'] = numeric
        self.obligations.append(ob)

    def proportional(self, name, got, want, angle=None, extra=(), what='', functions=()):
        """got = lambda * want for a non-zero lambda, for every parameter value:
        all 2x2 minors of the pair (got, want) vanish, and got is nowhere the zero array
        (want is a non-zero array by its own obligations)"""
        g = [sympy.sympify(x) for x in numpy.array(got, dtype=object).flatten()]
        w = [sympy.sympify(x) for x in numpy.array(want, dtype=object).flatten()]
        if len(g) != len(w):
            self.obligations.append({'name': name, 'what': what, 'shape_mismatch': [len(g), len(w)], 'zero': [],
                                     'vars': [], 'functions': list(functions)})
            return
        minors = []
        for i in range(len(g)):
            for j in range(i + 1, len(g)):
                m = sympy.expand(g[i] * w[j] - g[j] * w[i])
                if m != 0:
                    minors.append(m)
        self.identity(name + '.proportional', minors or [0], [0] * max(1, len(minors)), angle=angle, extra=extra,
                      what=what + ' (all 2x2 minors vanish)', functions=functions)
        self.nonvanishing(name + '.nonzero', g, angle=angle, extra=extra, what=what + ' (the ZX side is never zero)',
                          functions=functions)

    def nonvanishing(self, name, entries, angle=None, extra=(), what='', functions=()):
        """the entries are not all zero, for every parameter value"""
        polys = []
        try:
            for e in entries:
                re, im = ring.to_poly(sympy.sympify(e), angle, extra)
                polys += [ring.poly_str(re), ring.poly_str(im)]
        except ring.NotPolynomial as e:
            self.obligations.append({'name': name, 'what': what, 'unsupported': str(e), 'zero': [], 'vars': [],
                                     'functions': list(functions)})
            return
        used = set()
        for z in polys:
            used |= {str(x) for x in sympy.sympify(z).free_symbols}
        self.obligations.append({'name': name, 'what': what, 'all_zero_unsat': polys, 'zero': [], 'vars': sorted(used),
                                 'functions': list(functions)})

    def fact(self, name, holds, what='', functions=()):
        """a ground (parameter-free, non-numeric) fact decided natively, e.g. a type or arity"""
        self.obligations.append({'name': name, 'what': what, 'ground': bool(holds), 'zero': [], 'vars': [],
                                 'functions': list(functions)})

    def guard(self, name, functions=()):
        """context manager: an exception raised by the real code while an obligation is being built is a
        failed obligation (the function under contract raised on an input of its domain), not a checker error"""
        suite = self

        class _Guard:
            def __enter__(self_):
                return self_

            def __exit__(self_, et, ev, tb):
                if et is None or not issubclass(et, Exception):
                    return False
                import traceback
                frames = traceback.extract_tb(tb)
                where = [f for f in frames if '/discopy/' in f.filename]
                loc = '%s:%d in %s' % (where[-1].filename, where[-1].lineno, where[-1].name) if where else \
                    '%s:%d' % (frames[-1].filename, frames[-1].lineno)
                suite.obligations.append({'name': name + '.no_exception', 'ground': False, 'zero': [], 'vars': [],
                                          'what': 'the real code raised %s: %s (at %s)' % (et.__name__, str(ev)[:300], loc),
                                          'functions': list(functions), 'raised_in_discopy': bool(where)})
                return True
        return _Guard()

    def skip(self, name, reason):
        """an obligation that cannot be stated in this environment (external library), reported"""
        self.skipped.append({'name': name, 'reason': reason})

    def result(self):
        return {'status': 'ok', 'obligations': self.obligations, 'errors': self.errors, 'skipped': self.skipped}


def numeric_refutation(got, want, values=(0.3, -0.77, 1.234, -0.125, 2.25)):
    """try to refute got == want (flat lists of sympy expressions) by evaluating at a few real values of the
    free symbols; returns None or dict(at, got, want)"""
    syms = set()
    for e in list(got) + list(want):
        syms |= sympy.sympify(e).free_symbols
    syms = sorted(syms, key=str)
    for shift in range(len(values)):
        env = {s: values[(k + shift) % len(values)] for k, s in enumerate(syms)}
        try:
            a = [complex(sympy.sympify(e).subs(env).evalf()) for e in got]
            b = [complex(sympy.sympify(e).subs(env).evalf()) for e in want]
        except Exception:
            return None
        if any(abs(x - y) > 1e-8 for x, y in zip(a, b)):
            return {'at': {str(k): v for k, v in env.items()}, 'got': [repr(x) for x in a[:8]],
                    'want': [repr(x) for x in b[:8]]}
    return None


def numeric_witness(fn_got, fn_want, phases=(0.3, -0.77, 1.234)):
    """evaluate both sides natively (floats) at a few phases: the replayable counterexample when the
    identity is refuted.  Returns None or dict(phase, got, want)"""
    for p in phases:
        try:
            g = numpy.array(fn_got(p), dtype=complex).flatten()
            w = numpy.array(fn_want(p), dtype=complex).flatten()
        except Exception as e:     # the native call itself failing is a witness too
            return {'phase': p, 'error': repr(e)}
        if g.shape != w.shape or not numpy.allclose(g, w, atol=1e-9):
            return {'phase': p, 'got': [complex(x).__repr__() for x in g[:16]],
                    'want': [complex(x).__repr__() for x in w[:16]]}
    return None
