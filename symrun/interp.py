"""Exact (sympy) interpretation of ZX diagrams and pure circuits by layer composition:
I (x) U (x) I per layer, U from contracts/spec_quantum.py (independent of discopy's arrays).
Trusted base T1 (about 60 lines)."""
import sympy
from sympy import Matrix, eye

from contracts import spec_quantum as S


def zx_box(box, symmetric=False):
    """symmetric=True: the spider e^{-i pi a}|0..0><0..0| + e^{i pi a}|1..1><1..1| (the standard one times
    the global phase e^{-i pi a}); used only for the gradient rule, which is a derivative in that convention"""
    from discopy.quantum import zx
    n_in, n_out = len(box.dom), len(box.cod)
    if isinstance(box, zx.Z):
        M = S.z_spider(n_in, n_out, box.phase)
        return M * sympy.exp(-sympy.I * sympy.pi * box.phase) if symmetric else M
    if isinstance(box, zx.X):
        M = S.x_spider(n_in, n_out, box.phase)
        return M * sympy.exp(-sympy.I * sympy.pi * box.phase) if symmetric else M
    if isinstance(box, zx.Had):
        return S.H
    if isinstance(box, zx.Swap):
        return S.SWAP
    if isinstance(box, zx.Scalar):
        return Matrix([[box.data]])
    raise KeyError(repr(box))


def layered(diagram, box_matrix):
    width = len(diagram.dom)
    M = eye(2 ** width)
    for box, off in zip(diagram.boxes, diagram.offsets):
        U = box_matrix(box)
        right = width - off - len(box.dom)
        M = S.kron(eye(2 ** off), U, eye(2 ** right)) * M
        width = off + len(box.cod) + right
    return M


def zx_matrix(diagram, symmetric=False):
    return layered(diagram, lambda b: zx_box(b, symmetric))


def mat_list(M):
    return [[M[r, c] for c in range(M.shape[1])] for r in range(M.shape[0])]
