"""Exact (sympy) interpretation of ZX diagrams and pure circuits by layer composition:
I (x) U (x) I per layer, U from contracts/spec_quantum.py (independent of discopy's arrays).
Trusted base T1 (about 60 lines)."""
import sympy
from sympy import Matrix, eye

from contracts import spec_quantum as S


def zx_box(box):
    from discopy.quantum import zx
    n_in, n_out = len(box.dom), len(box.cod)
    if isinstance(box, zx.Z):
        return S.z_spider(n_in, n_out, box.phase)
    if isinstance(box, zx.X):
        return S.x_spider(n_in, n_out, box.phase)
    if isinstance(box, zx.Had):
        return S.H
    if isinstance(box, zx.Swap):
        return S.SWAP
    if isinstance(box, zx.Scalar):
        return Matrix([[box.data]])
    raise KeyError(repr(box))


def layered(diagram, box_matrix):
    width = len(diagram.dom)
    M = eye(2 ** width)
    for box, off in zip(diagram.boxes, diagram.offsets):
        U = box_matrix(box)
        right = width - off - len(box.dom)
        M = S.kron(eye(2 ** off), U, eye(2 ** right)) * M
        width = off + len(box.cod) + right
    return M


def zx_matrix(diagram):
    return layered(diagram, zx_box)


def mat_list(M):
    return [[M[r, c] for c in range(M.shape[1])] for r in range(M.shape[0])]
