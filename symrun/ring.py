"""Normalise exact symbolic results of the real code into polynomials over Q(i)[c, s, r2, ...]
with c = cos(pi*phi), s = sin(pi*phi), r2 = sqrt(2) (runs under /repo's interpreter; sympy).

Floats are read as the reals they approximate (T4): a float literal within 1e-12 of a small rational
multiple of pi, sqrt(2) or of 1 is replaced by that exact constant; anything else is refused."""
import sympy
from sympy import I, pi, sqrt, Rational, Symbol, cos, sin, exp

c, s, r2 = sympy.symbols('c s r2', real=True)
CONSTRAINTS = {'c': 'c**2 + s**2 - 1', 'r2': 'r2**2 - 2'}


class NotPolynomial(Exception):
    pass


def exact_float(x):
    """exact constant for a python / numpy float"""
    x = float(x)
    for q in (x,):
        r = sympy.nsimplify(q, rational=True, tolerance=1e-12)
        if r.q <= 4096 and abs(float(r) - q) < 1e-12:
            return r
    for const in (pi, sqrt(2), sqrt(2) * pi):
        r = sympy.nsimplify(x / float(const), rational=True, tolerance=1e-12)
        if r.q <= 4096 and abs(float(r * const) - x) < 1e-12:
            return r * const
    raise NotPolynomial('float %r is not a recognised constant' % x)


def exactify(e):
    e = sympy.sympify(e)
    if e.is_Float:
        return exact_float(e)
    if e.is_Atom:
        return e
    if e.has(sympy.Float):
        return e.func(*[exactify(a) for a in e.args])
    return e


def angle_symbols(k):
    suf = '' if k == 0 else str(k)
    return sympy.Symbol('c' + suf, real=True), sympy.Symbol('s' + suf, real=True)


def to_poly(expr, angle, extra=()):
    """expr: sympy expression; angle: an expression t (or a list of expressions t_k, most complex
    first) such that c_k = cos(pi*t_k), s_k = sin(pi*t_k).  Distinct angles are treated as independent
    points of the circle (a stronger statement than the one about the related angles, hence sound).
    Returns (re, im) polynomials in c_k, s_k, r2 and the `extra` symbols."""
    e = exactify(expr)
    angles = [] if angle is None else (list(angle) if isinstance(angle, (list, tuple)) else [angle])
    thetas = []
    for k, a in enumerate(angles):
        th = Symbol('theta%d__' % k, real=True)
        thetas.append(th)
        e = e.subs(a, th / pi)
    e = e.rewrite(cos)
    e = sympy.expand(e, complex=False)
    e = sympy.expand_trig(e)
    e = e.rewrite(cos)
    e = sympy.expand_trig(sympy.expand(e))
    allowed = {r2} | set(extra)
    for k, th in enumerate(thetas):
        ck, sk = angle_symbols(k)
        e = e.subs({cos(th): ck, sin(th): sk})
        allowed |= {ck, sk}
    e = e.subs(sqrt(2), r2)
    e = sympy.expand(e)
    bad = e.atoms(sympy.Function) | (e.free_symbols - allowed)
    if bad:
        raise NotPolynomial('cannot normalise %s (left over: %s)' % (expr, bad))
    re, im = e.as_real_imag()
    re, im = sympy.expand(re), sympy.expand(im)
    for part in (re, im):
        if part.atoms(sympy.Function) or part.has(I):
            raise NotPolynomial('real/imaginary split failed for %s' % expr)
        if not part.is_polynomial(*allowed):
            raise NotPolynomial('not a polynomial: %s' % part)
    return re, im


def poly_str(p):
    return sympy.sstr(sympy.expand(p))
