#!/usr/bin/env python3
"""regenerate the machine-written tables of DESIGN.md (between the BEGIN/END markers) from
seeded/*/meta.json, known_findings.json, checks/registry.py and evidence/*.json"""
import glob
import json
import os
import re
import sys

HERE = os.path.dirname(os.path.dirname(os.path.abspath(__file__)))
sys.path.insert(0, HERE)
from checks import registry   # noqa


def seeds_table():
    rows = ['| seeded change | breaks | needs (from the seeding agent) | confirmed (suite 219/10, demo fails with / passes without) | caught by | missed at first; check strengthened by |',
            '|---|---|---|---|---|---|']
    notes = {}
    p = os.path.join(HERE, 'seeded', 'NOTES.json')
    if os.path.exists(p):
        notes = json.load(open(p))
    for f in sorted(glob.glob(os.path.join(HERE, 'seeded', '*', 'meta.json'))):
        m = json.load(open(f))
        caught = []
        for pid, r in (m.get('checks') or {}).items():
            if isinstance(r, dict) and r.get('exit') == 1:
                keys = []
                for l in r['lines']:
                    mm = re.search(r'replay=replays/\w+/(\w+)\.([^ ]+?)\.json', l)
                    if mm:
                        keys.append('%s:%s' % (mm.group(1), mm.group(2)[:60]))
                caught.append('%s (%s)' % (pid, '; '.join(keys[:2])))
        rows.append('| %s | %s | %s | %s | %s | %s |' % (m['id'], m['breaks_property'], notes.get(m['id'], {}).get('needs', ''),
                                                       'yes' if m.get('confirmed') else 'NO', ', '.join(caught) or 'MISSED',
                                                       notes.get(m['id'], {}).get('missed_at_first', '')))
    return '\n'.join(rows)


def findings_table():
    k = json.load(open(os.path.join(HERE, 'known_findings.json')))
    rows = ['**Repaired in /repo (`fix:` commits; each with the unedited suite at 219 passed):**', '']
    for f in k['fixed']:
        rows.append('* ' + f)
    rows += ['', '**Recorded, not repaired (known findings):**', '']
    for f in k['findings']:
        rows.append('* %s (%s): %s *Why not repaired:* %s' % (f['id'], f['property'], f['what'], f['why_not_fixed']))
    return '\n'.join(rows)


def levels_table():
    rows = ['| id | level claimed | functions under a discharged contract / suites | obligations discharged (last quick run; for exploration: the VCs named in the level text, not the property) | bounded stand-in (evaluations) |',
            '|---|---|---|---|---|']
    for pid in sorted(registry.PROPS):
        s = registry.PROPS[pid]
        ev = {}
        p = os.path.join(HERE, 'evidence', pid + '.json')
        if os.path.exists(p):
            ev = json.load(open(p))
        cov = ev.get('coverage', {})
        fns = len(cov.get('functions_under_contract', []))
        sym = cov.get('sym', {})
        what = []
        if s.get('vc'):
            what.append('VC: %d functions/lemmas' % len(s['vc']))
        if s.get('sym'):
            what.append('SYM suite %s (%s identities)' % (','.join(s['sym']), sym.get('obligations', '?')))
        rows.append('| %s | %s | %s | %s/%s | %s |' % (pid, s.get('level'), '; '.join(what) or '-', cov.get('discharged', 0),
                                                   cov.get('obligations', 0),
                                                   cov.get('bounded', {}).get('evaluations', '-')))
    return '\n'.join(rows)


def main():
    path = os.path.join(HERE, 'DESIGN.md')
    s = open(path).read()
    for tag, fn in (('SEEDS', seeds_table), ('FINDINGS', findings_table), ('LEVELS', levels_table)):
        b, e = '<!-- BEGIN %s -->' % tag, '<!-- END %s -->' % tag
        if b in s and e in s:
            i, j = s.index(b) + len(b), s.index(e)
            s = s[:i] + '\n' + fn() + '\n' + s[j:]
    open(path, 'w').write(s)
    print('DESIGN.md tables regenerated')


if __name__ == '__main__':
    main()
