#!/opt/veriftools/pyvenv/bin/python
"""development helper: verify the named contracts only and print every obligation that is not discharged
   python3-vt tools/vc_one.py monoidal.Ty.tensor rigid.Ty.l ..."""
import os
import sys
HERE = os.path.dirname(os.path.dirname(os.path.abspath(__file__)))
sys.path.insert(0, HERE)
os.chdir(HERE)
from checks import runner      # noqa
from pyvc import verify        # noqa
from pyvc.world import World   # noqa

contracts = runner.load_contracts()
names = sys.argv[1:]
world = World(contracts)
for q in names:
    pre = [k for k in contracts if k == q or k.startswith(q + '[')] if q not in contracts else [q]
    for k in pre:
        rep, goals = verify.verify_contract(contracts[k], world, pool='fork')
        verify.discharge(goals, timeout=int(os.environ.get('T', '10')))
        n, d, f, u = rep.counts()
        print('%-45s paths=%d obligations=%d discharged=%d failed=%d unknown=%d %s' % (
            k, rep.paths, n, d, len(f), len(u), '; '.join(rep.undecided + [e[-1500:] for e in rep.errors])))
        for o in (f + u)[:12]:
            print('    %s  %s  [%s]' % (o.verdict, o.name, o.by))
            if os.environ.get('SHOW') and o.model:
                print('      ', str(o.model)[:800])
