#!/usr/bin/env python3
"""Re-run every filed seeded change against the registered quick checks of the *current* /repo and /verif, on scratch
copies (so that /repo and /verif themselves are not touched while other work goes on):

  1. clone /repo's HEAD to <scratch>/repo, copy /verif's working tree to <scratch>/verif
  2. per seed: the demonstration must pass on the clone and fail with the patch (the change still breaks the property
     on today's tree); then ./vcheck <property> --tier quick in the scratch verif with DISCOPY_REPO=<scratch>/repo
  3. meta.json of the seed is updated in /verif/seeded/<id>/ (fields checks, detected_by, rechecked_on)

usage: seeded_recheck_all.py [ids...]   (scratch: $SEED_SCRATCH or /tmp/seedscratch; removed at the end)"""
import json
import os
import shutil
import subprocess
import sys
import time

VERIF = os.path.dirname(os.path.dirname(os.path.abspath(__file__)))
SCRATCH = os.environ.get('SEED_SCRATCH', '/tmp/seedscratch')
PY = '/venv/bin/python'


def sh(cmd, cwd=None, timeout=3600, env=None):
    p = subprocess.run(cmd, shell=True, cwd=cwd, capture_output=True, text=True, timeout=timeout, env=env)
    return p.returncode, p.stdout + p.stderr


def main():
    ids = sys.argv[1:] or sorted(os.listdir(os.path.join(VERIF, 'seeded')))
    ids = [i for i in ids if os.path.isdir(os.path.join(VERIF, 'seeded', i))]
    shutil.rmtree(SCRATCH, ignore_errors=True)
    os.makedirs(SCRATCH)
    repo, verif = os.path.join(SCRATCH, 'repo'), os.path.join(SCRATCH, 'verif')
    rc, out = sh('git clone -q /repo %s' % repo)
    assert rc == 0, out
    head = sh('git -C %s rev-parse --short HEAD' % repo)[1].strip()
    sh('rsync -a --exclude .git --exclude replays %s/ %s/' % (VERIF, verif))
    env = dict(os.environ, DISCOPY_REPO=repo, PYTHONPATH=repo)
    summary = {}
    try:
        for name in ids:
            d = os.path.join(VERIF, 'seeded', name)
            meta = json.load(open(os.path.join(d, 'meta.json')))
            patch, demo = os.path.join(d, 'patch.diff'), os.path.join(d, 'demo.py')
            pid = meta['breaks_property']
            props = sorted(set([pid] + list((meta.get('checks') or {}).keys())))
            rc, out = sh('git -C %s apply --check %s' % (repo, patch))
            if rc != 0:
                # the tree moved under the patch (fix: commits): carry it over with a three-way merge, or with fuzz, and
                # store the rebased patch so that `git -C /repo apply` keeps working on today's tree
                rc, out = sh('git -C %s apply --3way %s' % (repo, patch))
                if rc != 0 or 'with conflicts' in out:
                    sh('git -C %s reset -q --hard HEAD' % repo)
                    rc, out = sh('patch -p1 -F3 --no-backup-if-mismatch < %s' % patch, cwd=repo)
                if rc != 0:
                    sh('git -C %s reset -q --hard HEAD' % repo)
                    sh('git -C %s clean -fdq' % repo)
                    print(name, 'PATCH NO LONGER APPLIES', out[-300:].replace('\n', ' '))
                    summary[name] = 'no-apply'
                    continue
                sh('git -C %s reset -q' % repo)
                _, diff = sh('git -C %s diff' % repo)
                sh('git -C %s reset -q --hard HEAD' % repo)
                sh('git -C %s clean -fdq' % repo)
                open(patch, 'w').write(diff)
                meta['patch_rebased_on'] = head
                rc, out = sh('git -C %s apply --check %s' % (repo, patch))
                assert rc == 0, out
            rc0, _ = sh('%s %s' % (PY, demo), cwd=repo, timeout=900, env=env)
            sh('git -C %s apply %s' % (repo, patch))
            try:
                rc1, _ = sh('%s %s' % (PY, demo), cwd=repo, timeout=900, env=env)
                results = {}
                for p in props:
                    t0 = time.time()
                    rc, out = sh('./vcheck %s --tier quick' % p, cwd=verif, timeout=3600, env=env)
                    lines = [l for l in out.splitlines() if l.startswith(('VIOLATION', 'UNDECIDED', 'CHECKER-ERROR'))
                             or ' HELD ' in l or 'NOT-HELD' in l]
                    results[p] = {'exit': rc, 'wall_s': round(time.time() - t0, 1), 'lines': [l[:300] for l in lines[:12]]}
            finally:
                sh('git -C %s reset -q --hard HEAD' % repo)
            meta['checks'] = results
            meta['detected_by'] = [p for p, r in results.items() if r['exit'] == 1]
            meta['rechecked_on'] = {'repo_head': head, 'demo_exit_without_change': rc0, 'demo_exit_with_change': rc1}
            json.dump(meta, open(os.path.join(d, 'meta.json'), 'w'), indent=1)
            state = 'caught' if pid in meta['detected_by'] else ('caught-elsewhere' if meta['detected_by'] else 'MISSED')
            if not (rc0 == 0 and rc1 != 0):
                state += ' (demo without/with: %d/%d)' % (rc0, rc1)
            summary[name] = state
            print(name, state, {p: r['exit'] for p, r in results.items()}, flush=True)
    finally:
        shutil.rmtree(SCRATCH, ignore_errors=True)
    bad = {k: v for k, v in summary.items() if not v.startswith('caught')}
    print('SUMMARY: %d seeds, %d caught, not caught / not applicable: %s' % (len(summary), len(summary) - len(bad), bad))


if __name__ == '__main__':
    main()
