#!/usr/bin/env python3
"""Confirm a seeded change (from an independent sub-agent) in its scratch worktree, then run the
registered checks against it in /repo (git apply ... ; checks ; git checkout -- .) and file it under
/verif/seeded/<id>/.   usage: seeded_eval.py <worktree> <k> <property> [more properties to run...]"""
import json
import os
import re
import shutil
import subprocess
import sys
import time

VERIF = os.path.dirname(os.path.dirname(os.path.abspath(__file__)))
PY = '/venv/bin/python'


def sh(cmd, cwd=None, timeout=3600):
    p = subprocess.run(cmd, shell=True, cwd=cwd, capture_output=True, text=True, timeout=timeout)
    return p.returncode, (p.stdout + p.stderr)


def recheck(name, props):
    """re-run the registered checks against an already filed seed: seeded_eval.py --recheck <id> [properties]"""
    d = os.path.join(VERIF, 'seeded', name)
    meta = json.load(open(os.path.join(d, 'meta.json')))
    patch = os.path.join(d, 'patch.diff')
    props = props or [meta['breaks_property']]
    rc, out = sh('git -C /repo apply --check %s' % patch)
    if rc != 0:
        print(name, 'patch no longer applies:', out[-200:])
        return 2
    sh('git -C /repo apply %s' % patch)
    results = meta.get('checks') if isinstance(meta.get('checks'), dict) else {}
    try:
        for p in props:
            t0 = time.time()
            rc, out = sh('./vcheck %s --tier quick' % p, cwd=VERIF, timeout=3600)
            lines = [l for l in out.splitlines() if l.startswith(('VIOLATION', 'UNDECIDED', 'CHECKER-ERROR', 'KNOWN-FINDING'))
                     or ' HELD ' in l or 'NOT-HELD' in l]
            results[p] = {'exit': rc, 'wall_s': round(time.time() - t0, 1), 'lines': [l[:300] for l in lines[:12]]}
            print(name, 'vcheck', p, 'exit', rc, '|', '; '.join(l[:150] for l in lines[:3]))
    finally:
        sh('git -C /repo reset -q --hard HEAD')
        sh('git checkout -- evidence', cwd=VERIF)
    meta['checks'] = results
    meta['detected_by'] = [p for p, r in results.items() if r['exit'] == 1]
    json.dump(meta, open(os.path.join(d, 'meta.json'), 'w'), indent=1)
    return 0


def main():
    if sys.argv[1] == '--recheck':
        return recheck(sys.argv[2], sys.argv[3:])
    file_only = False
    if sys.argv[1] == '--file-only':
        # confirm in the worktree and file under seeded/<id>/ without touching /repo: the checks are then run on scratch
        # copies by tools/seeded_recheck_all.py <id>
        file_only = True
        del sys.argv[1]
    wt, k, pid = sys.argv[1:4]
    run_props = [pid] + sys.argv[4:]
    patch = os.path.join(wt, 'patch%s.diff' % k)
    demo = os.path.join(wt, 'demo%s.py' % k)
    name = '%s_%s' % (pid, k)
    meta = {'id': name, 'breaks_property': pid, 'source': 'independent sub-agent given only the property text and a '
            'scratch worktree', 'worktree': wt}
    # 1. confirm in the scratch worktree
    sh('git checkout -- discopy', cwd=wt)
    rc0, out0 = sh('%s %s' % (PY, os.path.basename(demo)), cwd=wt, timeout=900)
    rc, out = sh('git apply %s' % os.path.basename(patch), cwd=wt)
    if rc != 0:
        print('patch does not apply in its worktree', out)
        return 2
    rct, outt = sh('%s -m pytest -q -p no:cacheprovider --timeout=900 --continue-on-collection-errors 2>&1 | tail -3' % PY,
                   cwd=wt, timeout=1800)
    rc1, out1 = sh('%s %s' % (PY, os.path.basename(demo)), cwd=wt, timeout=900)
    sh('git checkout -- discopy', cwd=wt)
    summary = [l for l in outt.splitlines() if 'passed' in l or 'failed' in l]
    meta['suite_with_change'] = summary[-1].strip() if summary else outt[-200:]
    meta['demo_exit_without_change'] = rc0
    meta['demo_exit_with_change'] = rc1
    meta['demo_output_with_change'] = out1[-600:]
    m = re.search(r'(\d+) failed, (\d+) passed', meta['suite_with_change'])
    ok_suite = bool(m) and int(m.group(2)) == 219 and int(m.group(1)) == 10
    meta['confirmed'] = bool(ok_suite and rc0 == 0 and rc1 != 0)
    print(name, 'suite:', meta['suite_with_change'], '| demo without:', rc0, 'with:', rc1, '| confirmed:', meta['confirmed'])
    if file_only:
        meta['checks'] = {}
        return finish(name, patch, demo, meta)
    # 2. run the checks against it in /repo
    rc, out = sh('git -C /repo apply --check %s' % patch)
    if rc != 0:
        rc3, out3 = sh('git -C /repo apply --3way %s' % patch)
        meta['apply_note'] = 'applied with --3way: ' + out3[-200:]
        if rc3 != 0:
            sh('git -C /repo reset -q --hard HEAD')
            print('patch does not apply to the current /repo:', out[-300:])
            meta['checks'] = 'patch no longer applies to /repo HEAD'
            return finish(name, patch, demo, meta)
    else:
        sh('git -C /repo apply %s' % patch)
    results = {}
    try:
        for p in run_props:
            t0 = time.time()
            rc, out = sh('./vcheck %s --tier quick' % p, cwd=VERIF, timeout=3600)
            lines = [l for l in out.splitlines() if l.startswith(('VIOLATION', 'UNDECIDED', 'CHECKER-ERROR', 'KNOWN-FINDING'))
                     or ' HELD ' in l or 'NOT-HELD' in l]
            results[p] = {'exit': rc, 'wall_s': round(time.time() - t0, 1), 'lines': [l[:300] for l in lines[:12]]}
            print('   vcheck', p, 'exit', rc, '|', '; '.join(l[:160] for l in lines[:3]))
    finally:
        sh('git -C /repo reset -q --hard HEAD')
        # evidence and replays written under the seeded change do not describe /repo: restore the committed ones
        sh('git checkout -- evidence', cwd=VERIF)
    meta['checks'] = results
    meta['detected_by'] = [p for p, r in results.items() if r['exit'] == 1]
    return finish(name, patch, demo, meta)


def finish(name, patch, demo, meta):
    d = os.path.join(VERIF, 'seeded', name)
    os.makedirs(d, exist_ok=True)
    shutil.copy(patch, os.path.join(d, 'patch.diff'))
    shutil.copy(demo, os.path.join(d, 'demo.py'))
    with open(os.path.join(d, 'meta.json'), 'w') as f:
        json.dump(meta, f, indent=1)
    return 0


if __name__ == '__main__':
    sys.exit(main())
