#!/bin/bash
# run the current checks of /verif against one filed seed on a scratch clone of /repo:  tools/try_seed.sh C04_7 [property] [vcheck args]
id=$1; prop=${2:-${id%%_*}}; shift; shift
S=/tmp/tryseed_$id
rm -rf $S; git clone -q /repo $S || exit 3
git -C $S apply /verif/seeded/$id/patch.diff || { git -C $S apply --3way /verif/seeded/$id/patch.diff || exit 3; }
cd /verif && DISCOPY_REPO=$S PYTHONPATH=$S ./vcheck $prop "$@" 2>&1 | grep -v "^KNOWN" | tail -4 | cut -c1-220
git -C /verif checkout -q -- evidence 2>/dev/null
rm -rf $S
