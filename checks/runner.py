"""Run the back ends of one property, triage failures, write evidence, print the verdict lines."""
import json
import os
import sys
import tempfile
import time

HERE = os.path.dirname(os.path.dirname(os.path.abspath(__file__)))

from checks import registry           # noqa: E402
from vcheck import run_native, slug, load_known, REPO   # noqa: E402


TRUSTED_BASE = [
    'T1 pyvc (frontend, symbolic executor, LIA abstraction, Ackermannisation) and the solvers z3 5.1.0 / cvc5 1.0.3',
    'T2 contracts of Python built-ins used by the verified functions (list/tuple slicing and concatenation, '
    'range, zip, enumerate, len, isinstance), DESIGN.md 2.3',
    'T4 Python ints are mathematical integers (true); floats read as reals where they occur',
    'L-ext two sequences of equal length that agree at every index are equal',
    'L-ind invariant method: if every producer establishes or preserves wf, every reachable value satisfies wf',
]


def load_contracts():
    import importlib
    from contracts import core
    for name in registry.CONTRACT_MODULES:
        importlib.import_module('contracts.' + name)
    return core.CONTRACTS


def run_vc(pid, spec, tier, verbose):
    from pyvc import verify, frontend
    frontend.clear_cache()
    contracts = load_contracts()
    names = spec.get('vc') or []
    missing = [n for n in names if n not in contracts]
    timeout = 10 if tier == 'quick' else 60
    t0 = time.time()
    from pyvc.world import World
    world = World(contracts)
    reports, pending = [], []
    for q in names:
        if q in missing:
            continue
        c = contracts[q]
        if c.params is None and getattr(c, 'lemma', None) is None:
            continue
        rep, goals = verify.verify_contract(c, world, pool='fork' if os.environ.get('PYVC_EXPLORE') != 'replay' else None)
        rep.canary = bool(getattr(c, 'canary', False))
        reports.append(rep)
        pending.extend(goals)
        if verbose:
            print('  [vc] %-50s paths=%-5d obligations=%-5d %s' % (
                q, rep.paths, len(rep.obligations), '; '.join(rep.undecided + [e[:200] for e in rep.errors])))
    t_explore = time.time() - t0
    t0 = time.time()
    verify.discharge(pending, timeout=timeout, both=(tier == 'thorough'))
    t_solve = time.time() - t0
    out = {'functions': [], 'obligations': 0, 'discharged': 0, 'failed': [], 'unknown': [], 'undecided': [],
           'errors': [], 'missing_contracts': missing, 'explore_s': round(t_explore, 2), 'solve_s': round(t_solve, 2),
           'solver_time_max_s': 0.0, 'solver_time_total_s': 0.0, 'by_solver': {}, 'samples': []}
    out['canaries'] = []
    for rep in reports:
        n, d, f, u = rep.counts()
        if rep.canary:
            # a statement that must be refuted: success here would mean vacuous hypotheses
            out['canaries'].append({'canary': rep.qualname, 'refuted': bool(f)})
            if not f:
                out['errors'].append('canary %s was not refuted (vacuity guard)' % rep.qualname)
            out['errors'].extend('%s: %s' % (rep.qualname, x) for x in rep.errors)
            continue
        out['functions'].append({'function': rep.qualname, 'source_sha256_16': rep.source_hash, 'paths': rep.paths,
                                 'obligations': n, 'discharged': d})
        out.setdefault('used', set()).update(getattr(rep, 'used', set()))
        out['obligations'] += n
        out['discharged'] += d
        out['failed'].extend(f)
        out['unknown'].extend(u)
        out['undecided'].extend('%s: %s' % (rep.qualname, x) for x in rep.undecided)
        out['errors'].extend('%s: %s' % (rep.qualname, x) for x in rep.errors)
        for o in rep.obligations:
            for s, (v, t) in (o.by or {}).items():
                out['solver_time_total_s'] += t
                out['solver_time_max_s'] = max(out['solver_time_max_s'], t)
                if v in ('sat', 'unsat'):
                    out['by_solver'][s] = out['by_solver'].get(s, 0) + 1
            if o.trivial:
                out['by_solver']['syntactic'] = out['by_solver'].get('syntactic', 0) + 1
        for o in rep.obligations[:2]:
            if not o.trivial and len(out['samples']) < 6:
                out['samples'].append({'function': o.fn, 'obligation': o.name, 'verdict': o.verdict,
                                       'smt2_head': o.text[:400]})
    if not reports and names:
        out['errors'].append('no contract could be loaded for ' + ', '.join(names))
    out['solver_time_total_s'] = round(out['solver_time_total_s'], 2)
    out['solver_time_max_s'] = round(out['solver_time_max_s'], 2)
    return out


def run_rtc(pid, tier, seed, timeout):
    fd, path = tempfile.mkstemp(prefix='rtc_%s_' % pid, suffix='.json')
    os.close(fd)
    try:
        rc, out, err, wall = run_native('rtc/run.py', [pid, tier, path, str(seed)], timeout)
        try:
            with open(path) as f:
                res = json.load(f)
        except Exception:
            res = {'status': 'error', 'error': 'driver produced no result (rc=%s): %s' % (rc, (err or out)[-2000:])}
        return res
    finally:
        try:
            os.unlink(path)
        except OSError:
            pass


def run_sym(pid, tier, timeout):
    fd, path = tempfile.mkstemp(prefix='sym_%s_' % pid, suffix='.json')
    os.close(fd)
    try:
        rc, out, err, wall = run_native('symrun/run.py', [pid, tier, path], timeout)
        try:
            with open(path) as f:
                res = json.load(f)
        except Exception:
            return {'status': 'error', 'error': 'symrun produced no result (rc=%s): %s' % (rc, (err or out)[-2000:])}
    finally:
        try:
            os.unlink(path)
        except OSError:
            pass
    if res.get('status') != 'ok':
        return res
    from symrun import discharge
    return discharge.discharge(res, tier)


def write_replay(pid, name, payload):
    d = os.path.join(HERE, 'replays', pid)
    os.makedirs(d, exist_ok=True)
    path = os.path.join(d, slug(name) + '.json')
    with open(path, 'w') as f:
        json.dump(payload, f, indent=1, default=repr)
    return os.path.relpath(path, HERE)


def match_known(pid, key, known):
    import re
    for k in known.get('findings', []):
        if (k.get('property') == pid or pid in k.get('also_reported_by', [])) and re.search(k['match'], key):
            return k
    return None


def run_property(pid, tier, only=None, verbose=False):
    spec = registry.PROPS[pid]
    seed = int(os.environ.get('VERIF_SEED', '0') or 0)
    t0 = time.time()
    backends = set((only or 'vc,sym,rtc').split(','))
    known = load_known()
    vc = sym = rtc = None
    if spec.get('vc') and 'vc' in backends:
        vc = run_vc(pid, spec, tier, verbose)
    if spec.get('sym') and 'sym' in backends:
        sym = run_sym(pid, tier, 900 if tier == 'quick' else 3600)
    need_rtc = spec.get('rtc') and 'rtc' in backends
    if need_rtc:
        rtc = run_rtc(pid, tier, seed, 900 if tier == 'quick' else 7200)

    violations = []     # dict(key, what, replay, found_input)
    undecided, errors = [], []

    # ---- VC failures: the failed obligation is the violation; the native driver supplies the input
    if vc:
        undecided += vc['undecided'] + ['%s: %s undecided by both solvers' % (o.fn, o.name) for o in vc['unknown']]
        errors += vc['errors']
        if vc['missing_contracts']:
            errors.append('contracts missing for ' + ', '.join(vc['missing_contracts']))
        if vc['obligations'] == 0 and not vc['errors'] and not vc['undecided']:
            errors.append('zero obligations generated (vacuity guard)')
        seen = set()
        for o in vc['failed']:
            k = (o.fn, o.name)
            if k in seen:
                continue
            seen.add(k)
            native = [f for f in (rtc or {}).get('failures', [])]
            payload = {'property': pid, 'backend': 'vc', 'function': o.fn, 'obligation': o.name,
                       'verdict': 'refuted (sat)', 'solvers': {s: v for s, v in (o.by or {}).items()},
                       'solver_model': o.model, 'smt2': o.text,
                       'native_failing_inputs': native[:3],
                       'how_to_replay': './vcheck %s --replay <this file>' % pid}
            path = write_replay(pid, 'vc.%s.%s' % (o.fn, o.name), payload)
            violations.append({'key': 'vc:%s:%s' % (o.fn, o.name), 'what': 'obligation %s of %s refuted' % (o.name, o.fn),
                               'replay': path, 'found_input': bool(native)})
    # ---- SYM failures
    if sym:
        if sym.get('status') != 'ok':
            errors.append('symrun: ' + str(sym.get('error'))[:2000])
        else:
            undecided += ['sym %s undecided' % u for u in sym.get('unknown', [])]
            for f in sym.get('failed', []):
                path = write_replay(pid, 'sym.' + f['name'], dict(f, property=pid, backend='sym'))
                violations.append({'key': 'sym:' + f['name'], 'what': f.get('what', f['name']), 'replay': path,
                                   'found_input': f.get('native_confirmed', False)})
    # ---- RTC failures
    if rtc:
        if rtc.get('status') != 'ok':
            errors.append('rtc driver: ' + str(rtc.get('error')) + '\n' + str(rtc.get('traceback', ''))[-1500:])
        else:
            if rtc.get('evaluations', 0) == 0:
                errors.append('rtc driver evaluated zero cases (vacuity guard)')
            seen = set()
            for f in rtc.get('failures', []):
                if f['key'] in seen:
                    continue
                seen.add(f['key'])
                path = write_replay(pid, 'rtc.' + f['key'], dict(f, property=pid, backend='rtc'))
                violations.append({'key': 'rtc:' + f['key'], 'what': f['what'], 'replay': path, 'found_input': True,
                                   'input': f.get('input')})

    # ---- known findings
    real = []
    known_hit = []
    for v in violations:
        k = match_known(pid, v['key'] + ' ' + str(v.get('input', '')), known)
        if k is not None:
            known_hit.append((k, v))
        else:
            real.append(v)
    printed = set()
    for k, v in known_hit:
        if k['id'] not in printed:
            printed.add(k['id'])
            print('KNOWN-FINDING: property=%s %s' % (pid, k['what']))
    # a vc violation whose native twin is a listed finding only: covered by the same finding
    for v in real:
        line = 'VIOLATION property=%s replay=%s' % (pid, v['replay'])
        if not v['found_input']:
            line += ' obligation=%s no-failing-input-found' % slug(v['key'])
        print(line)

    wall = time.time() - t0
    write_evidence(pid, spec, tier, seed, vc, sym, rtc, real, known_hit, undecided, errors, wall)
    for u in undecided[:20]:
        print('UNDECIDED: ' + u[:300])
    for e in errors[:10]:
        print('CHECKER-ERROR: ' + e[:1500])
    summary = []
    if vc:
        summary.append('vc %d/%d obligations over %d functions' % (vc['discharged'], vc['obligations'], len(vc['functions'])))
    if sym and sym.get('status') == 'ok':
        summary.append('sym %d/%d identities' % (sym['discharged'], sym['obligations']))
    if rtc and rtc.get('status') == 'ok':
        summary.append('rtc(bounded) %d evaluations, %d failures' % (rtc['evaluations'], len(rtc['failures'])))
    print('%s %s tier=%s wall=%.1fs %s' % (pid, 'HELD' if not (real or undecided or errors) else 'NOT-HELD', tier, wall,
                                           '; '.join(summary)))
    if real:
        return 1
    if errors:
        return 3
    if undecided:
        return 2
    return 0


def write_evidence(pid, spec, tier, seed, vc, sym, rtc, real, known_hit, undecided, errors, wall):
    from pyvc import frontend
    level = spec.get('level', 'proof')
    cov = {}
    obligations = discharged = 0
    if vc:
        obligations += vc['obligations']
        discharged += vc['discharged']
        cov['functions_under_contract'] = vc['functions']
        cov['vc'] = {k: vc[k] for k in ('obligations', 'discharged', 'explore_s', 'solve_s', 'solver_time_max_s',
                                        'solver_time_total_s', 'by_solver')}
        # mechanical scan: every call-site contract / axiom the verified bodies relied on, split into those whose own
        # body is verified by some registered check and those that are assumed
        from checks import registry as _reg
        verified = set()
        for _p in _reg.PROPS.values():
            for name in _p.get('vc', []):
                verified.add(name.split('[')[0])
                verified.add(name)
        cov['canaries'] = vc.get('canaries', [])        # false statements over the same hypotheses: all must be refuted
        used = sorted(vc.get('used', ()))
        cov['call_site_contracts'] = {
            'verified_by_a_registered_check': [u for u in used if u in verified],
            'assumed': [u for u in used if u not in verified]}
    if sym and sym.get('status') == 'ok':
        obligations += sym['obligations']
        discharged += sym['discharged']
        cov['sym'] = {k: sym[k] for k in sym if k not in ('failed', 'samples')}
    samples = []
    if vc:
        samples += vc['samples'][:4]
    if sym and sym.get('status') == 'ok':
        samples += sym.get('samples', [])[:4]
    if rtc and rtc.get('status') == 'ok':
        cov['bounded'] = {'bound': rtc.get('bound'), 'evaluations': rtc['evaluations'],
                          'distinct_nontrivial': rtc['distinct_nontrivial'], 'counts': rtc.get('counts'),
                          'failures': len(rtc['failures']), 'wall_s': rtc.get('wall_s'),
                          'note': 'bounded stand-in (run-time contracts on enumerated inputs); not counted as proved'}
        samples += [{'rtc_input': s} for s in rtc.get('samples', [])[:3]]
    cov['samples'] = samples or ['(no sample: back end did not run)']
    if level == 'proof':
        cov['obligations'] = obligations
        cov['discharged'] = discharged
        cov['checker_cmd'] = './vcheck %s --tier %s' % (pid, tier)
        cov['trusted_base'] = TRUSTED_BASE + spec.get('trusted', [])
    else:
        cov['obligations'] = obligations
        cov['discharged'] = discharged
    if rtc and rtc.get('status') == 'ok':
        cov['evaluations'] = rtc['evaluations']
        cov['distinct_nontrivial'] = rtc['distinct_nontrivial']
        cov['rule'] = spec.get('rtc_rule', 'exhaustive enumeration up to the stated bound; a case is non-trivial if it '
                               'exercises the operation on in-range arguments; distinct by repr of the input')
        cov['exhaustive'] = True
    elif level != 'proof':
        cov.setdefault('evaluations', obligations)
        cov.setdefault('distinct_nontrivial', discharged)
        cov.setdefault('rule', 'one case per obligation')
    # obligations refuted by a listed known finding are reported apart: they are not part of the proof claim
    # every failed obligation (one per path for VC) whose key a known finding covers
    known_keys = {v['key'] for k, v in known_hit}
    n_known = sum(1 for k, v in known_hit if v['key'].startswith('sym:'))
    if vc:
        n_known += sum(1 for o in vc['failed'] if 'vc:%s:%s' % (o.fn, o.name) in known_keys)
    if n_known and 'obligations' in cov:
        cov['obligations'] -= n_known
        cov['refuted_by_known_findings'] = n_known
    cov['undecided'] = undecided[:50]
    cov['checker_errors'] = [e[:500] for e in errors[:10]]
    cov['known_findings_hit'] = sorted({k['id'] for k, _ in known_hit})
    cov['repo'] = frontend.repo_state()
    ev = {'property_id': pid, 'tier': tier, 'seed': seed, 'level': level, 'coverage': cov,
          'assumptions': spec.get('assumptions', []) + TRUSTED_BASE + [
              'assumed at call sites: ' + u for u in cov.get('call_site_contracts', {}).get('assumed', [])],
          'wall_s': round(wall, 2), 'violations': len(real)}
    os.makedirs(os.path.join(HERE, 'evidence'), exist_ok=True)
    with open(os.path.join(HERE, 'evidence', pid + '.json'), 'w') as f:
        json.dump(ev, f, indent=1, default=repr)


def replay(pid, path):
    with open(path) as f:
        payload = json.load(f)
    print('replaying %s (%s back end)' % (path, payload.get('backend')))
    rc, out, err, _ = run_native('rtc/replay.py', [pid, os.path.abspath(path)], 900)
    sys.stdout.write(out)
    if err.strip():
        sys.stdout.write(err[-2000:])
    return rc
