"""Which back ends decide which property (DESIGN.md section 6).

vc   : qualified names of the real functions whose contracts (contracts/*.py) are discharged by pyvc
sym  : symrun suites (real code on symbolic parameters, identities discharged by z3)
rtc  : bounded run-time-contract driver (stand-in; never counted as proved)"""

PROPS = {
    'C05': dict(
        title='Interchange moves exactly one box past a disconnected neighbour',
        level='proof',
        vc=['cat.Arrow.then', 'cat.Arrow.__getitem__', 'cat.Arrow.__init__', 'cat.Id.__init__',
            'monoidal.Layer.__init__', 'monoidal.Diagram.__init__', 'rewriting.interchange'],
        sym=[], rtc='C05',
        level_text='Proof: the real source of rewriting.interchange (adjacent case: index check, normalisation of (i, j), '
                   'three geometric branches, recomputed offsets and layers) and of the cat/monoidal constructors and '
                   'compositions it calls is re-read from /repo on every run and verified, path by path, against '
                   'functional contracts written from the interchanger axiom; every obligation (result equals the axiom '
                   'instance, frame, offsets, representation invariant, refusal iff connected, IndexError iff out of '
                   'range, no other exception) is discharged by z3/cvc5 for all diagrams, all indices and both flags. '
                   'Distant moves (|i-j|>1) are covered by the bounded stand-in only.',
        level_note='Trusted: pyvc + solvers; built-in list/slice semantics as encoded; L-ichg (an interchanger-axiom '
                   'instance denotes the same morphism under every monoidal functor) is mathematics, assumed; the '
                   'recursion over distant moves is bounded (rtc: all diagrams <= 3/4 boxes, all index pairs).',
        technique='VC generation from the real AST + z3/cvc5 (sequence theory, Ackermannised), functional contracts; '
                  'bounded run-time contracts as stand-in for distant moves'),
}

NOT_APPLICABLE = {}
SOURCE_COMMITS = []


def claimed():
    return sorted(PROPS)

CONTRACT_MODULES = ['core', 'rewriting']
