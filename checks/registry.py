"""Which back ends decide which property (DESIGN.md section 6).

vc   : qualified names of the real functions whose contracts (contracts/*.py) are discharged by pyvc
sym  : symrun suites (real code on symbolic parameters, identities discharged by z3)
rtc  : bounded run-time-contract driver (stand-in; never counted as proved)"""

# the type model as a refinement of the real classes (contracts/types.py)
TYPE_VC = ['cat.Ob.__init__', 'monoidal.Ty.__init__', 'monoidal.Ty.objects', 'monoidal.Ty.tensor', 'monoidal.Ty.__matmul__',
           'monoidal.Ty.__getitem__', 'monoidal.Ty.__len__', 'monoidal.Ty.__eq__', 'monoidal.Ty.upgrade',
           'monoidal.Ty.downgrade', 'monoidal.Ty.__iter__', 'monoidal.Ty.__pow__', 'lemma:type.power.commutes', 'cat.Arrow.upgrade', 'monoidal.Diagram.upgrade',
           'monoidal.Diagram.subclass.<locals>.upgrade']
ADJOINT_VC = ['rigid.Ob.__init__', 'rigid.Ob.l', 'rigid.Ob.r', 'rigid.Ob.z', 'rigid.Ty.__init__', 'rigid.Ty.upgrade',
              'rigid.Ty.l', 'rigid.Ty.r', 'rigid.Ty.z', 'rigid.Ty.__lshift__', 'rigid.Ty.__rshift__',
              'lemma:adjoint.inverse.l', 'lemma:adjoint.inverse.r', 'lemma:adjoint.antihom.l', 'lemma:adjoint.antihom.r']

FUNCTOR_TY_VC = ['monoidal.Functor.__call__[Ty]', 'biclosed.Functor.__call__[Ty]', 'rigid.Functor.__call__[Ty]',
                 'rigid.Functor.__call__.<locals>.adjoint', 'lemma:functor.homomorphism', 'lemma:functor.adjoint.object.l',
                 'lemma:functor.adjoint.object.r', 'lemma:functor.adjoint.type.l', 'lemma:functor.adjoint.type.r',
                 'monoidal.Ty.tensor', 'lemma:canary:type.model']
DAGGER_VC = ['cat.Box.__init__', 'cat.Box.dagger', 'monoidal.Swap.dagger', 'rigid.Cup.dagger', 'rigid.Cap.dagger']

CORE_VC = ['cat.Arrow.__init__', 'cat.Id.__init__', 'cat.Arrow.then', 'cat.Arrow.__getitem__',
           'monoidal.Layer.__init__', 'monoidal.Diagram.__init__', 'monoidal.Id.__init__']

PROPS = {
    'C01': dict(
        title='Every diagram the library hands back is well-typed',
        level='proof',
        vc=CORE_VC + ['cat.Arrow.__init__[scan]', 'monoidal.Diagram.__init__[scan]', 'monoidal.Diagram.then', 'monoidal.Diagram.tensor',
                      'monoidal.Diagram.__getitem__', 'rewriting.interchange', 'rewriting.interchange[far]', 'rewriting.normalize',
                      'rigid.Cup.__init__', 'rigid.Cap.__init__', 'rigid.cups', 'rigid.caps', 'monoidal.Box.__init__',
                      'rigid.Box.__init__', 'monoidal.Diagram.__init__[accepts]', 'monoidal.Diagram.swap', 'rigid.Diagram.swap',
                      'monoidal.Swap.__init__', 'rigid.Swap.__init__', 'lemma:canary:then.len', 'rigid.Diagram.transpose',
                      'monoidal.Functor.__call__[Swap]', 'monoidal.Diagram.permutation', 'lemma:canary:type.model'] + TYPE_VC + ADJOINT_VC + DAGGER_VC,
        sym=[], rtc='C01',
        level_text='Proof of the representation invariant wf (boxes/offsets scan from dom to cod, each box finds its '
                   'domain at its offset, the layer view agrees) for the constructor scan (establishes wf or raises, '
                   'including the offset range that python slice clamping would hide), the fast-path constructor, '
                   'Id, then, tensor, slicing/dagger/indexing, adjacent and distant interchange, the diagrams yielded by '
                   'normalize, the cat.Arrow constructor scan, the acceptance direction of the Diagram constructor, Box / Swap / '
                   'Cup / Cap constructors, nested cups / caps and swap(l, r), and for the classes the model is built from: '
                   'monoidal.Ty / rigid.Ty / rigid.Ob methods (pointwise against the sequence operations), upgrade of arrows, '
                   'diagrams and types, Box.__init__ and the four dagger bodies: the real bodies are re-read '
                   'from /repo on every run, verified against functional contracts, and wf(result) is discharged for '
                   'all well-formed inputs of any length and width. Producers not yet under a discharged contract '
                   '(foliation, flatten, snake removal, rigid functor images of boxes; transposes, permutations and the functor '
                   'image of a swap are under contract) '
                   'are covered by the bounded stand-in only and not counted as proved.',
        level_note='Trusted: pyvc + solvers; L-ind, L-ext, L-box (a box is determined by the fields its __eq__ compares). The '
                   'type model (monoidal.Ty / rigid.Ty / rigid.Ob methods as sequence operations), upgrade and the four '
                   'dagger bodies are verified contracts, not assumptions (contracts/types.py, contracts/daggers.py). '
                   'Bounded part: all diagrams <= 3 (thorough 4) boxes over 8 boxes.',
        technique='VC generation from the real AST + z3/cvc5; loop invariants (closed-form and relational); bounded '
                  'run-time contracts for the remaining producers'),
    'C02': dict(
        title='Diagrams obey the strict dagger-monoidal and sum laws as equalities',
        level='proof',
        vc=['monoidal.Diagram.then', 'monoidal.Diagram.tensor', 'monoidal.Diagram.__getitem__', 'cat.Arrow.then',
            'cat.Arrow.__getitem__', 'monoidal.Id.__init__',
            'lemma:then.assoc', 'lemma:then.unit', 'lemma:tensor.assoc', 'lemma:tensor.unit', 'lemma:tensor.whisker',
            'lemma:tensor.id', 'lemma:slice.recompose', 'lemma:dagger.involutive', 'lemma:dagger.id',
            'lemma:dagger.contravariant', 'lemma:dagger.tensor', 'lemma:canary:tensor.commutes',
            'lemma:canary:then.len'] + DAGGER_VC + ['monoidal.Ty.tensor', 'monoidal.Ty.__matmul__'],
        sym=[], rtc='C02',
        level_text='Proof: associativity and unit laws of then and tensor, tensor = whiskered composite, dagger '
                   'involutive / identity-on-objects / contravariant, slice recomposition at every integer k, as '
                   'record equalities (dom, cod, boxes, offsets and layers) between the values specified by the '
                   'functional contracts that the real then / tensor / __getitem__ bodies are verified against on '
                   'every run; for all diagrams of any length. Sum laws and the semantic subclasses are covered by '
                   'the bounded stand-in only.',
        level_note='Trusted: pyvc + solvers; Box.dagger contract (involutive, swaps dom/cod) assumed for generator '
                   'boxes and checked per class by the bounded driver; L-ext. Known findings F2 (order of terms when '
                   'two multi-term sums are composed) and F3 (Bubble.dagger TypeError) are listed in '
                   'known_findings.json.',
        technique='lemmas over machine-checked functional contracts of the real code (z3/cvc5); bounded run-time '
                  'contracts for sums and subclasses'),
    'C08': dict(
        title='Tensors form a dagger compact-closed category of matrices',
        level='proof',
        vc=[], sym=['C08'], rtc=None,
        level_text='Proof per shape, for ALL arrays of that shape: the real Tensor.then / tensor / dagger / id / swap / cups / '
                   'caps are executed on arrays whose entries are distinct symbolic complex numbers, for every choice of '
                   'dimension tuples in the stated bound (lengths 0-2 over {2,3} incl. Dim(1), repeated and unequal '
                   'dimensions; thorough: up to length 3); the flattened result is compared entrywise with the matrix '
                   'product, Kronecker product, conjugate transpose, identity and block-permutation matrices, both snake '
                   'equations, the interchange law and swap naturality. The identities are multilinear in the entries and '
                   'are discharged by normalisation / z3. The statement for all arities (the axis arithmetic as linear '
                   'integer VCs, DESIGN 6/C08) is not discharged in this build: shapes beyond the bound are not covered.',
        level_note='Trusted: sympy expansion, z3; numpy tensordot/moveaxis/reshape/conjugate are exercised, not assumed, '
                   'inside the bound. Bounded in the dimension tuples, unbounded in the array entries.',
        technique='symbolic execution of the real tensor code on generic arrays per shape + identities discharged by '
                  'normalisation/z3'),
    'C09': dict(
        title='Evaluating a diagram computes its compositional meaning',
        level='proof',
        vc=[], sym=['C09'], rtc=None,
        level_text='Proof per diagram, for ALL box arrays: the real tensor.Functor.__call__ (single-pass contraction with '
                   'axis tracking, swap special case, cups/caps, daggered boxes) is run on every rigid diagram with <= 2 '
                   '(thorough 3) boxes over 11 box kinds on <= 3 wires of unequal dimensions, the box arrays being generic '
                   'symbolic complex arrays; the result equals the layer-by-layer composite identity (x) box (x) identity '
                   'computed independently with Kronecker products, entrywise, for all array values. Objects as ints / Dims, '
                   'dict / callable; sums, spiders, bubbles, Diagram.eval; invariance under normal_form on the same set. '
                   'The loop invariant for diagrams of any length (DESIGN 6/C09) is not discharged in this build.',
        level_note='Trusted: sympy, z3, the independent contractor in symrun/suites/C09.py; L-net. Bounded in the diagram, '
                   'unbounded in the arrays.',
        technique='symbolic execution of the real functor on generic box arrays per diagram + identities discharged by '
                  'normalisation/z3'),
    'C11': dict(
        title='Pure circuits evaluate to the unitary they describe',
        level='proof',
        vc=[], sym=['C11'], rtc='C11',
        level_text='Proof (per generator, for all real phases): the real gate code (Rx/Ry/Rz/CU1/CRz/CRx.array, the GATES '
                   'table, Controlled.__init__, Ket/Bra/Digits.array, Scalar, every dagger method, evaluation through '
                   'the real tensor functor, rewire on <= 3/4 qubits) is executed on a symbolic phase; the result is '
                   'normalised into Q(i)[c,s,sqrt2]/(c^2+s^2-1) and compared entrywise with the tket matrices written '
                   'independently in contracts/spec_quantum.py; matrix, unitarity and dagger identities are discharged '
                   'by z3 (NRA) for every phase. Whole circuits: symbolic samples + the bounded stand-in against an '
                   'independent numpy simulator; the general statement rests on C09.',
        level_note='Trusted: sympy normalisation (rewrite/expand_trig), z3; floats read as the constants they '
                   'approximate (T4); "does not branch on the phase" (Parametrized.modules only). rewire is decided for '
                   'n <= 3 (thorough 4) qubits only: bounded in n, symbolic in the phase.',
        technique='symbolic execution of the real code on a symbolic phase + polynomial identities discharged by z3; '
                  'bounded comparison with an independent simulator'),
    'C16': dict(
        title='Circuits translate to ZX diagrams denoting the same linear map',
        level='proof',
        vc=[], sym=['C16'], rtc=None,
        level_text='Proof (per generator, for all real phases and all bitstrings up to length 3): the real gate2zx is run '
                   'on every gate of the statement with a symbolic phase; the returned ZX diagram is interpreted by an '
                   'independent exact interpreter (spiders, H, swap, scalar; phases in full turns) and shown proportional '
                   'to the standard matrix with a nowhere-vanishing factor (all 2x2 minors vanish identically and the '
                   'entries have no common zero on the circle), by z3. Spider / H / scalar / swap daggers denote '
                   'conjugate transposes for all phases and 0-2 (thorough 0-3) legs. Lifting to whole circuits is by '
                   'functoriality (C04) and is sampled symbolically.',
        level_note='Trusted: sympy normalisation, z3, the 60-line interpreter symrun/interp.py, spec_quantum.py; L-net. '
                   'Spiders with more than 3 legs each side and circuits beyond the samples follow by the per-wire / '
                   'functorial lemmas (assumed).',
        technique='symbolic execution of the real translation + exact ZX interpretation + proportionality identities '
                  'discharged by z3'),
    'C12': dict(
        title='Mixed evaluation agrees with pure evaluation and the Born rule',
        level='proof',
        vc=[], sym=['C12'], rtc='C12',
        level_text='Proof (per generator, for all parameter values and, by linearity, all input states): the CQ map that the '
                   'real cqmap.Functor assigns to every box kind of the statement (pure gates incl. daggered and controlled, '
                   'kets/bras, Measure and Encode in all four variants, Discard, MixedState on bits and qubits, pure and '
                   'mixed scalars, classical gates and their daggers, Bits/Copy/Match, the three kinds of swaps) equals the '
                   'completely positive map written from the textbook definitions in rtc/cqsim.py: entrywise polynomial '
                   'identities discharged by z3; CQMap.pure(u) = conj(u) (x) u for a generic 2x2 array; symbolic sample '
                   'circuits through the real CQMap.then/tensor. Whole circuits, get_counts / measure and trace '
                   'preservation: bounded stand-in (all circuits of depth <= 2/3 over 20 box kinds on <= 3 wires).',
        level_note='Trusted: sympy normalisation, z3, rtc/cqsim.py (independent simulator, 200 lines), spec_quantum.py; '
                   'L-net, L-dbl. Dimensions other than 2 are not covered.',
        technique='symbolic execution of the real CQ functor per generator + polynomial identities (z3); bounded '
                  'comparison of whole circuits with an independent superoperator simulator'),
    'C13': dict(
        title='Translation to and from tket preserves the meaning of circuits',
        level='exploration',
        vc=[], sym=[], rtc='C13',
        level_text='Bounded stand-in (the sentence compares distributions computed on an external C++ circuit object; no '
                   'contract within reach gives pytket circuits a semantics): circuits of depth <= 2 (thorough 3) over the gate '
                   'set of the statement with preparations, post-selections and swaps at every depth are exported; the real '
                   'pytket circuit is run on an independent exact branching simulator (rtc/tksim.py); discopy\'s own '
                   'post-selection / scaling / post-processing code path is driven through a backend object returning exact '
                   'frequencies and compared with the mixed evaluation; counts through the backend; from_tk(to_tk(c)); all '
                   'pytket circuits with <= 2 commands over the supported operations are imported and compared (a refusal of '
                   'such a circuit is a failure). Families added after misses / reports: removal of a qubit then swaps; '
                   'classical bookkeeping (6 ways of measuring 3 qubits incl. Measure(3), then bit swaps, NOT, Bits(0) at every '
                   'offset); post-selection beside measured bits then bit swaps; mixed / negative / pure scalars at both ends; '
                   'batches of circuits with different scalars and post-selections; rotation angles over tket\'s whole range with '
                   'interference; daggered S and T; two-qubit gates between far-apart units.',
        level_note='No obligation proved. Trusted: pytket\'s get_commands / register bookkeeping, rtc/tksim.py. Known findings '
                   'F20 (Discard of a bit not exported), F22 (get_counts(backend) skips post-processing) and F23 (Bits prepared '
                   'beside a live bit; attributed only when the disagreement disappears with add_bit alone repaired).',
        technique='bounded run-time contracts against an independent exact simulator of the exported tket circuit'),
    'C14': dict(
        title='Substituting parameters commutes with evaluation',
        level='proof',
        vc=[], sym=['C14'], rtc=None,
        level_text='Proof (per box class, for all parameter values): subs / lambdify of every parametrised box class '
                   '(rotations, controlled rotations, pure and mixed scalars, classical gates and their daggers, ZX '
                   'spiders and scalars, tensor boxes, Tensor, cat.Box with nested data) are run on symbolic parameters; '
                   'structure preservation (kind, dom, cod, dagger flag, mixedness, name, offsets) is decided on the '
                   'returned objects, array(subs(b)) == subs(array(b)) and lambdify == subs are polynomial identities '
                   'discharged by z3 for all values, free symbols are exact and a fully substituted box evaluates to '
                   'numbers. Whole diagrams: symbolic samples (pure, mixed, tensor, sums); the general statement is '
                   'L-poly (evaluation is polynomial in box entries).',
        level_note='Trusted: sympy normalisation and subs, z3; L-poly assumed. Skipped with reason: lambdify of '
                   'array-valued data (ClassicalGate, Tensor) raises inside the installed sympy 1.14 (external).',
        technique='symbolic execution of the real subs/lambdify code + polynomial identities discharged by z3'),
    'C15': dict(
        title='Diagrammatic gradients evaluate to the gradient of the evaluation',
        level='proof',
        vc=[], sym=['C15'], rtc=None,
        level_text='Proof (per box rule, for an arbitrary differentiable phase f(x), the chain-rule factor f\'(x) a '
                   'free symbol): Rx/Ry/Rz/CU1/CRz/CRx pure rule, Rx/Ry/Rz parameter-shift (mixed) rule through the real '
                   'CQ-map functor, scalars, ZX spiders (symmetric phase convention) and scalars, tensor boxes, polynomial '
                   'bubbles on one wire: eval(grad) - d/dx eval is normalised to polynomials and shown to vanish for all '
                   'values by z3. Product rule, zero gradient, jacobian order and circuits with several symbols occurring '
                   'several times are decided on symbolic samples; the general statement is L-leib.',
        level_note='Trusted: sympy diff / normalisation, z3; L-leib assumed. ZX diagrams have no evaluation inside '
                   'discopy: the spider rule is checked in the convention in which it is a derivative (DESIGN 6/C15). '
                   'Known finding F10 (pure symbolic scalar under the default mixed gradient).',
        technique='symbolic execution of the real grad code on f(x) + polynomial identities discharged by z3'),
    'C03': dict(
        title='Equality is structural, hash-consistent and printable',
        level='proof',
        vc=['lemma:eqhash:cat.Ob', 'lemma:eqhash:cat.Arrow', 'lemma:eqhash:cat.Box', 'lemma:eqhash:cat.Sum',
            'lemma:eqhash:monoidal.Ty', 'lemma:eqhash:monoidal.Diagram', 'lemma:eqhash:rigid.Ob'],
        sym=[], rtc='C03',
        level_text='Proof (congruence): for the seven classes of the anchors the attribute sets compared by __eq__ and read '
                   'by __repr__ / __hash__ are extracted from the current AST on every run; with uninterpreted attribute '
                   'values z3 (EUF) discharges "a == b implies every printed / hashed field agrees" (so equal values print '
                   'and hash alike) and "__eq__ compares exactly the structural fields the property names". Reflexivity, '
                   'symmetry across classes (box vs wrapping diagram, rigid vs cat objects), transitivity, hash equality '
                   'of equal values and eval(repr(v)) == v need Python dispatch and the parser: bounded stand-in over '
                   '~110 values incl. adjoints, daggers, payloads, sums, PRO.',
        level_note='Trusted: the attribute extraction (contracts/eqhash.py), z3. Payload precondition: names and data are '
                   'repr-faithful (p == q iff repr(p) == repr(q)); Ty(1) == Ty(1.0) with different hashes is outside it.',
        technique='congruence obligations read off the real AST (z3 EUF) + bounded run-time contracts'),
    'C04': dict(
        title='Functors are functorial',
        level='proof',
        vc=['monoidal.Functor.__call__', 'monoidal.Diagram.then', 'monoidal.Diagram.tensor', 'monoidal.Id.__init__',
            'rigid.Functor.__call__[Cup]', 'rigid.Functor.__call__[Cap]', 'rigid.cups', 'rigid.caps', 'rigid.Cup.__init__',
            'rigid.Cap.__init__', 'lemma:canary:rigid.functor', 'lemma:canary:adjoint.homomorphic',
            'monoidal.Functor.__call__[Swap]', 'monoidal.Diagram.swap', 'monoidal.Swap.__init__',
            'cat.Arrow.__getitem__', 'monoidal.Diagram.__getitem__'] + FUNCTOR_TY_VC + ADJOINT_VC,
        sym=[], rtc='C04',
        level_text='Proof (type-level clauses, all functors, all diagrams of any length): the real whiskering loop of '
                   'monoidal.Functor.__call__ is verified with a relational loop invariant against the contracts of then / '
                   'tensor / Id, for an arbitrary functor (object map = uninterpreted homomorphism on types incl. empty images, '
                   'box map = arbitrary well-formed diagrams of the right type): no composition in the loop can raise, the '
                   'scanned type is the type after k boxes, the image is well-formed, image.dom = F(dom), image.cod = F(cod). '
                   'Rigid clause for cups and caps: the Cup / Cap branches of rigid.Functor.__call__ hand the nested '
                   'cups / caps constructor an adjoint pair and return a well-formed diagram F(dom) -> F(cod); the real body of '
                   'rigid.cups (both directions: nested cups and, reversed, nested caps) is verified for types of any length '
                   'with a loop invariant (after k steps the result is a well-formed diagram left @ right -> left[:n-k] @ '
                   'right[k:]; each Cup(left[n-k-1], right[k]) is an adjoint pair because adjoints reverse the order; it raises '
                   'AxiomError exactly when the two types are not adjoint), and the constructors of Cup / Cap establish their '
                   'class invariant and refuse exactly the non-adjoint or multi-object pairs. Swap branch: F(Swap(x, y)) is '
                   'the well-formed swap diagram F(x) @ F(y) -> F(y) @ F(x) of the images (contract of Diagram.swap, all image '
                   'lengths). The pregroup facts about adjoints used throughout are lemmas derived from the verified bodies of '
                   'rigid.Ty.l / .r and rigid.Ob.l / .r. '
                   'Object map: the type branches of monoidal / biclosed / rigid Functor.__call__ compute the snoc-recursion over '
                   'the images of one-object types (for rigid functors the z-fold adjoint of the basic image, via the local '
                   'function adjoint and two loop invariants); homomorphism and commutation with adjoints follow as lemmas by '
                   'induction. Functoriality as == between images (then, tensor, id, dagger, slices, sums, bubbles) and the cat '
                   'functor: bounded stand-in.',
        level_note='Trusted: pyvc + solvers; L-ind (induction on sequences / loop counters), L-ext, L-ob. Preconditions: the object '
                   'mapping is defined on every one-object type with types as values; images given by the user for boxes are '
                   'well-typed and deterministic. The object map (homomorphism on types; for rigid functors the z-fold adjoints '
                   'and commutation with .l / .r) is verified on the real type branches and derived by lemmas, not assumed.',
        technique='VC generation from the real AST with a relational loop invariant (z3/cvc5); bounded run-time contracts '
                  'for the equational clauses'),
    'C06': dict(
        title='Monoidal normal form is a sound, idempotent, canonical representative',
        level='proof',
        vc=['rewriting.interchange', 'rewriting.normalize', 'rewriting.normal_form'],
        sym=[], rtc='C06',
        level_text='Proof (per call, all diagrams, both directions): the real body of rewriting.normalize (sweep loop, inner '
                   'loop, guard, yield) is verified with loop invariants against the call-site contract of interchange: every '
                   'yielded diagram is exactly the interchange of its predecessor at (i, i+1) in the requested direction (so the '
                   'flag passed and the guard evaluated select a legal move: InterchangerError / IndexError cannot escape), it is '
                   'well-typed with the input\'s dom, cod and number of boxes, and when the generator is exhausted no adjacent '
                   'pair satisfies the rewrite condition (fixed point, hence idempotence of normal_form). interchange itself is '
                   're-verified (C05). The real body of rewriting.normal_form (cycle detection) is verified over an arbitrary '
                   'finite trace of the normaliser, diagrams abstracted to their identity under ==, the cache to the prefix '
                   'seen so far: it returns only if no diagram was yielded twice, and then the last one (the input if none); it '
                   'raises only NotImplementedError and only at a diagram it has seen before, i.e. at the first repetition: on '
                   'an eventually periodic trace it reports instead of looping. Termination of normalize on connected '
                   'diagrams, canonicity across the interchanger class, NotImplementedError only for disconnected diagrams, '
                   'foliation / flatten / depth: bounded stand-in (whole-history properties: confluence and termination of '
                   'the rewriting system, arXiv:1804.07832).',
        level_note='Trusted: pyvc + solvers; the abstract call-site contract of interchange (fresh well-formed result related to '
                   'the argument by the discharged functional spec); L-ichg; normal_form: == on diagrams is an equivalence '
                   'compatible with hash (C03), set semantics of `in` / `add` (T2). Bounded: all diagrams with <= 3 (thorough 4) boxes '
                   'plus connected frames around ties, interchanger class by BFS under the real interchange.',
        technique='VC generation from the real AST with loop invariants and yield obligations (z3/cvc5); bounded run-time '
                  'contracts for termination and canonicity'),
    'C07': dict(
        title='Snake removal is sound for rigid diagrams',
        level='exploration',
        vc=['rewriting.snake_removal.<locals>.follow_wire', 'rewriting.snake_removal.<locals>.find_snake',
            'rewriting.snake_removal.<locals>.unsnake[adjacent]', 'canary:unsnake.without_type_test',
            'rigid.Diagram.transpose', 'rigid.Cup.__init__', 'rigid.Cap.__init__', 'rigid.Cup.dagger', 'rigid.Cap.dagger',
            'rewriting.interchange', 'rewriting.interchange[far]'],
        sym=[], rtc='C07',
        level_text='Discharged (VC, diagrams of any length and width): three of the local functions of snake_removal. '
                   'follow_wire: with the loop invariant "j is the offset of the followed wire below box i" (the wire position is '
                   'a ghost function defined from the statement: a box wholly left of the wire shifts it by |cod| - |dom|) it '
                   'never leaves the bounds, returns the first box whose domain covers the wire or len(diagram), and leaves the '
                   'offset unchanged with no obstruction when that is the very next box. find_snake: whatever it returns is a Cap '
                   'above a Cup whose straight-through wire has the same type above and below (the snake-equation clause; '
                   'dropping the type comparison, the defect F4 of the pinned tree, fails this obligation) and, when adjacent, '
                   'the cup sits on the opposite leg of the cap; no IndexError. unsnake, adjacent case: for such a pair with '
                   'no obstruction exactly one diagram is yielded, well-formed, with the input dom and cod and two boxes '
                   'fewer; a canary states the same without the type comparison and must be refuted (the layer composition '
                   'raises). Also the producers of its inputs (transposes, Cup / Cap constructors and daggers) and the interchange '
                   'contract (adjacent and distant moves), which unsnake relies on for every obstruction it moves. '
                   'Bounded stand-in for everything else (obstruction removal with its index bookkeeping, the main loop, '
                   'semantic invariance, termination): all rigid diagrams with <= 3 (thorough 4) boxes over 13 box kinds (cups and caps in all '
                   'four orientations incl. non-snake adjacent pairs, adjoint wires, a scalar, daggers) on 5 domains plus '
                   'transposes and obstructed snakes: every yielded step and the normal form are well-typed, keep dom/cod, '
                   'denote the same tensor under a rigid functor into tensors (random integer arrays), no matching cap/cup '
                   'pair is left, only NotImplementedError escapes.',
        level_note='Category exploration: the obstruction-removal loops of unsnake (interchanges with index bookkeeping), the main '
                   'loop, "no yankable pair is left" (the converse direction of find_snake) and the semantic clause are not '
                   'under a discharged contract. Assumed in the VCs: the class invariants of Cup / Cap (two one-object legs; '
                   'proved for their constructors).',
        technique='bounded run-time contracts with an independent wire-tracking oracle and tensor semantics'),
    'C10': dict(
        title='Swaps and permutations realise exactly the requested wire permutation',
        level='exploration',
        vc=['monoidal.Diagram.swap', 'rigid.Diagram.swap', 'monoidal.Swap.__init__', 'rigid.Swap.__init__',
            'monoidal.Diagram.__init__[accepts]', 'lemma:canary:constructors', 'monoidal.Diagram.permutation',
            'monoidal.Functor.__call__[Swap]', 'monoidal.Swap.dagger'],
        sym=[], rtc='C10',
        level_text='The wire map (the clause that gives the property its name) is a bounded stand-in: in each of the five '
                   'classes, swap(l, r) for all types of length <= 2 (thorough 3) over 3 atoms and permutation(perm, dom) for '
                   'all permutations of length <= 4 (thorough 5): type, adjacent swaps only, wire map tracked independently by '
                   'labelling wires, count |l|*|r|, representation invariant; non-permutations and every length mismatch '
                   'refused with ValueError; Tensor.swap on blocks of unequal widths.  Discharged in addition (VC, types of '
                   'any length incl. empty, monoidal and rigid classes): the typing clause of swap. The real body of '
                   'monoidal.Diagram.swap returns a well-formed diagram left @ right -> right @ left made of Swap boxes only: '
                   'empty left side; one wire (the scanning constructor is called on [Swap(left, right[i])] at offsets 0..n-1, '
                   'the layers (right[:i], Swap, right[i+1:]) are exhibited in closed form, their chain conditions are '
                   'discharged pointwise and the acceptance contract of the constructor, proved here, says it computes '
                   'exactly them); recursion on a shorter left side. Swap constructors establish dom = l @ r, cod = r @ l and '
                   'refuse exactly the non-single-object types. The typing and refusal clauses of permutation(perm, dom) for '
                   'lists and types of any length: the real loop is verified with the invariant "the first i entries of perm are '
                   '0..i-1 and every value >= i still occurs at a position >= i" (witness function carried by hand), so '
                   'perm.index(i) exists and is >= i, the four slices are in range, every composition is well typed, the result '
                   'is a well-formed diagram dom -> a type of the same length, and ValueError is raised exactly for '
                   'non-permutations of range(n) or a wrong length (set equality and list.index by their T2 semantics). '
                   'Types being sequences of names, the typing clause tells '
                   'wires of different types apart (so the seeded C10_3 is refuted) but not two wires of the same type.',
        level_note='Category exploration because the wire map (which wire goes where, for swap and for permutation) is not under '
                   'a discharged contract; the VC part is counted as obligations in the evidence, not as a proof of the property.',
        technique='bounded run-time contracts with an independent wire-tracking oracle; VCs from the real AST for the typing '
                  'clause of swap (closed-form layer witness + acceptance contract of the constructor)'),
    'C17': dict(
        title='Export to and import from pyzx graphs preserve the ZX diagram',
        level='exploration',
        vc=[], sym=[], rtc='C17',
        level_text='Bounded stand-in (pyzx\'s tensor semantics is external, and the installed pyzx 0.10 no longer has the API the '
                   'pinned discopy calls, so the real to_pyzx / from_pyzx run against an in-process adapter over the real pyzx '
                   'graph): every ZX diagram with <= 2 (thorough 3) boxes over 16 generators with a simple underlying graph is '
                   'exported, pyzx.tensorfy (scalar preserved) of the real graph is compared with the numeric standard '
                   'interpretation of the diagram, the graph is imported back and compared up to the scalar boxes; simple '
                   'graphs with 1-2 spiders, boundaries attached in every way, both edge types and three vertex numberings are '
                   'imported and compared with pyzx\'s matrix up to a scalar; stray / shared boundaries and non-ZX boxes refused.',
        level_note='No obligation proved. Trusted: rtc/adapters.py (assumed model of the old pyzx API), pyzx.tensorfy, rtc/zxsim.py.',
        technique='bounded run-time contracts through an adapter, against pyzx\'s own tensor semantics'),
    'C18': dict(
        title='Grammar front-ends only produce well-typed, grammatical derivations',
        level='proof',
        vc=['rigid.Diagram.fa', 'rigid.Diagram.ba', 'rigid.Diagram.fc', 'rigid.Diagram.bc', 'rigid.Diagram.fx',
            'rigid.Diagram.bx', 'rigid.Diagram.curry',
            'biclosed.FA.__init__', 'biclosed.BA.__init__', 'biclosed.FC.__init__', 'biclosed.BC.__init__',
            'biclosed.FX.__init__', 'biclosed.BX.__init__', 'biclosed.Curry.__init__',
            'biclosed.Functor.__call__[Over]', 'biclosed.Functor.__call__[Under]', 'biclosed.Functor.__call__[FA]',
            'biclosed.Functor.__call__[BA]', 'biclosed.Functor.__call__[FC]', 'biclosed.Functor.__call__[BC]',
            'biclosed.Functor.__call__[FX]', 'biclosed.Functor.__call__[BX]', 'biclosed.Functor.__call__[Curry]',
            'rigid.cups', 'rigid.caps', 'rigid.Cup.__init__', 'rigid.Cap.__init__', 'rigid.Diagram.swap',
            'monoidal.Diagram.swap', 'lemma:canary:adjoint.homomorphic', 'lemma:canary:slash.functor',
            'lemma:canary:constructors'] + FUNCTOR_TY_VC + ADJOINT_VC,
        sym=[], rtc='C18',
        level_text='Proved (VC, all type lengths and nesting depths): the translation clause, end to end for a single rule. '
                   '(1) The class invariants of the rule boxes: the real constructors of biclosed.FA / BA / FC / BC / FX / BX / '
                   'Curry store the dom / cod of the rule (slash types as one-object types with two sides, uninterpreted). '
                   '(2) The rule dispatch of biclosed.Functor.__call__, branch by branch on the real body: on slash types '
                   'F(a << b) = F(a) @ F(b).l and F(a >> b) = F(a).r @ F(b); on each rule box the arguments handed to the '
                   'rigid rule image satisfy its precondition and the result is a well-formed diagram F(box.dom) -> F(box.cod) '
                   '(for Curry: with the wire count recomputed from the curried side). (3) The rigid images themselves: '
                   'rigid.Diagram.fa / ba / fc / bc / fx / bx / curry on arbitrary symbolic types A, B, C (adjoints as '
                   'uninterpreted functions with the pregroup facts) return a well-formed diagram with exactly the promised '
                   'dom / cod and raise nothing: this is where the wire counting (`-len(right) or len(left)`, '
                   '`-n_wires or len(dom)`) is decided for every nesting depth at once; the call-site form of each rule '
                   'contract is checked against the proved form on every run.  NOT proved, bounded stand-in only: the CCG '
                   'tree walk, composite derivations (the monoidal part is C04), the eager / brute-force pregroup parser and '
                   'CFG.generate: eager_parse on all sentences of <= 3 (sampled 4) words over a 10-word vocabulary incl. '
                   'double adjoints and an empty word (empty domain, requested target, the words in order followed only by cups '
                   'on adjacent adjoint types, re-derived independently by scanning), brute_force; CFG.generate over 40 seeds '
                   'x 3 depth limits; biclosed -> rigid: FA/BA over all pairs and FC/BC/FX/BX over triples of 10 slash types '
                   '(nested, composite sides), Curry for every 1 <= n_wires <= len(dom) on both sides, derivations and CCG trees.',
        level_note='Call-site contracts: rigid cups(l, r) / caps(l, r) return a well-formed diagram l @ r -> Ty() / Ty() -> l @ r '
                   'when l.r == r or r.r == l and raise AxiomError otherwise; swap(l, r) returns a well-formed l @ r -> r @ l '
                   '(both proved: rigid.cups / caps, Diagram.swap, part of this check); the pregroup facts about adjoints are lemmas '
                   'over the verified rigid.Ty.l / .r; the functor is a homomorphism on tensors of types by the verified '
                   '`len(diagram) > 1` branch and the induction lemma (as in C04). Assumed: the functor sends a sub-diagram to a '
                   'well-formed diagram F(dom) -> F(cod) (induction hypothesis at the recursive call in the Curry branch) and is '
                   'applied recursively to the two sides of a slash type. Precondition for Curry: 0 <= n_wires <= '
                   'len(dom) (zero wires and curried sides with an empty image are covered since fix 367f1b2). The parser / '
                   'generator / tree-walk clauses are bounded, not proved.',
        technique='VCs from the real AST of the rule constructors, the functor dispatch and the rule images, discharged by '
                  'z3 / cvc5 over word equations with adjoints and slash types; bounded run-time contracts with independent '
                  're-derivation for the parser, generator and tree walk'),
    'C19': dict(
        title='Cartesian diagrams compute the function they draw',
        level='proof',
        vc=['cartesian.Function.__init__', 'cartesian.Function.__call__', 'cartesian.Function.then', 'cartesian.Function.tensor', 'cartesian.Function.id',
            'monoidal.Functor.__call__[python]', 'lemma:cartesian.Diagram.__call__.quivers', 'cartesian.PythonFunctor.__init__', 'rigid.Functor.__init__', 'monoidal.Functor.__init__', 'cat.Functor.__init__', 'cat.Quiver.__init__', 'lemma:cat.Quiver.wraps', 'lemma:canary:pyfun.identity', 'lemma:canary:pro.model', 'monoidal.Functor.__call__[Ty]', 'lemma:functor.homomorphism', 'monoidal.Ty.tensor'],
        sym=[], rtc='C19',
        level_text='Proved (VC, all diagrams of any length and width, boxes of any arity 0..n -> 0..m): the main clause. Wire '
                   'values are abstract non-tuple values (either truth value), a box function is an arbitrary map from input '
                   'tuples to tuples of `cod` outputs returned by the library convention (bare value for one output, tuple '
                   'otherwise). (1) The real bodies of Function.__call__, then, tensor, id (with tuplify / untuplify and the '
                   'closures they build, executed on a tuple of symbolic length): (f >> g)(*x) carries out_g(out_f(x)), '
                   '(f @ g)(*x) carries out_f(x[:n]) ++ out_g(x[n:]), id(n)(*x) carries x, each returned by the convention for '
                   'every combination of arities; wrong numbers of values / mismatched arities are refused with TypeError / '
                   'AxiomError and nothing else is. (2) The real loop of monoidal.Functor.__call__ run as a PythonFunctor, with '
                   'the loop invariant "the function built after k layers is S(k, .)", where S is the reference semantics of the '
                   'property (S(0, x) = x; S(k+1, x) = S(k, x) with the wires at offset_k replaced by box_k applied to them): '
                   'calling the result on len(dom) values returns S(len(d), x) by the convention, and no composition in the '
                   'loop can raise.  NOT proved, bounded stand-in only: that the box / offset lists built by Swap(l, r), Copy(n), '
                   'Discard(n) realise the permutation / duplication / deletion, the cartesian axioms (naturality), boxes '
                   'returning a 1-tuple for one output, list-valued wires: every cartesian diagram with <= 2 (thorough 3) boxes '
                   'over 14 boxes of arities 0..2 -> 0..2 is called on tuples with falsy, string, list and dict values and '
                   'compared with an independent evaluator; Swap(l, r) for l, r <= 3, Copy(n) / Discard(n) for n <= 5; '
                   'naturality of swap, copy and discard for ten boxes on all inputs over 4 values; arity errors refused.',
        level_note='Contract precondition: wire values are not tuples and a box returns a bare value for one output, a tuple of '
                   'length cod otherwise (tuple-valued wires, F13, are outside it). No longer assumed but verified on every run: the two '
                   'lambdas of Diagram.__call__ (found in the real AST and executed: a type goes to PRO(len), a box to '
                   'Function(len(dom), len(cod), box.function)), the constructors PythonFunctor / rigid / monoidal / cat '
                   'Functor.__init__ and Quiver.__init__, Functor.ob / .ar and Quiver.__getitem__ (the mapping given is the '
                   'one called), and Function.__init__ (stores the function, dom and cod as PRO types); the call-site '
                   'contracts of then / tensor / id are checked against the proved closures on every run. Assumed: the model '
                   'of PRO (PRO(n) is the type of n wires named 1, a function of n alone, PRO(a) @ PRO(b) == PRO(a + b); '
                   'monoidal.PRO.__init__ multiplies a list by a symbolic integer, which the engine does not execute).',
        technique='VCs from the real AST (closures, star-arguments of symbolic length) against a reference semantics as an '
                  'uninterpreted recursive function, z3 / cvc5 over sequences; bounded run-time contracts against an '
                  'independent wire-list evaluator for the structural diagrams and axioms'),
    'C20': dict(
        title='The drawing layout is a faithful planar embedding of the diagram',
        level='exploration',
        vc=['drawing.diagram2nx.<locals>.make_space'], sym=[], rtc='C20',
        level_text='Discharged (VC, linear real arithmetic, scans of any length, boxes of any arity incl. states, effects and '
                   'scalars, every offset at which the box fits): the horizontal padding step make_space, as a closure over the '
                   'position dict (two functions on nodes with functional update; floats read as reals). Its two bulk loops over '
                   'pos.items() carry the for-each invariant "keys visited so far are shifted iff they were on the far side of '
                   'limit, the others are untouched" (keys distinct, insertion order). Proved: the wire left (right) of the box '
                   'ends strictly left (right) of the box and of its outermost output wire; the open wires stay in strictly '
                   'increasing order; nodes with equal x keep equal x (vertical wires stay vertical); no y changes; a box with '
                   'inputs stays centred over its first and last input. Bounded stand-in for the rest (add_box, the main loop, '
                   'the graph census, both back-ends, diagramize): for every diagram with <= 3 (thorough 4) boxes over 14 box kinds of arity 0..3 -> 0..4 '
                   '(scalars, states, effects, a 4-wire state) on 0..3 input wires, the graph and coordinates of diagram2nx are '
                   'replayed against the diagram\'s own scan: exactly one node per input, output, box and port with a position; '
                   'the edge set is the wiring; open wires strictly increasing in x before and after every box; wires into ports '
                   'and outputs vertical (also in the final layout, after later shifts); every edge downwards; every box extent '
                   'strictly between its neighbouring wires. A sample is rendered on both back-ends (Agg, TikZ). Five diagramize '
                   'bodies (planar, wires used out of left-to-right order) against the expected wiring.',
        level_note='Category exploration: of the linear-real-arithmetic invariants of DESIGN 6/C20 only space.post (make_space) is '
                   'discharged; the layout invariant of the main loop and add_box are not. Precondition of the VC: the open '
                   'wires have positions and increase strictly in x (stated for every pair i < j; the postcondition re-establishes '
                   'the adjacent form). matplotlib / TikZ emission and networkx are external.',
        technique='bounded run-time contracts replaying the layout against the diagram wiring'),
    'C05': dict(
        title='Interchange moves exactly one box past a disconnected neighbour',
        level='proof',
        vc=['cat.Arrow.then', 'cat.Arrow.__getitem__', 'cat.Arrow.__init__', 'cat.Id.__init__',
            'monoidal.Layer.__init__', 'monoidal.Diagram.__init__', 'rewriting.interchange', 'rewriting.interchange[far]'],
        sym=[], rtc='C05',
        level_text='Proof: the real source of rewriting.interchange (adjacent case: index check, normalisation of (i, j), '
                   'three geometric branches, recomputed offsets and layers) and of the cat/monoidal constructors and '
                   'compositions it calls is re-read from /repo on every run and verified, path by path, against '
                   'functional contracts written from the interchanger axiom; every obligation (result equals the axiom '
                   'instance, frame, offsets, representation invariant, IndexError iff out of range, no other exception) is '
                   'discharged by z3/cvc5 for all diagrams, all indices and both flags. The refusal clause is stated from the '
                   'property (not from the code): a move past a box that shares a wire with the moving box is refused '
                   '(discharged); a refused pair shares a wire or one box is enclosed by the wires of the other (discharged); '
                   '"refused only if the boxes share a wire" is REFUTED for the enclosed, unwired case: known finding F24. '
                   'Distant moves (|i-j|>1): both recursive loops are verified with a relational invariant against the '
                   'call-site contract of the adjacent move: after k steps the moving box sits at i-/+k, the boxes it passed '
                   'keep their order one place back, every layer outside the interval is untouched, dom / cod / length and the '
                   'representation invariant are kept; the left / right preference is forwarded to every adjacent step; '
                   'IndexError only for out-of-range indices.',
        level_note='Trusted: pyvc + solvers; built-in list/slice semantics as encoded; L-ichg (an interchanger-axiom '
                   'instance denotes the same morphism under every monoidal functor) is mathematics, assumed; the '
                   'refusal clause of a distant move (refused exactly when some box on the way is wired to the moving box) is '
                   'checked by the bounded driver with an independent wire-tracking oracle (all diagrams <= 3/4 boxes, all '
                   'index pairs): a refusal of an unwired move is attributed to F24 only if replaying the move step by step '
                   'ends at an enclosed, unwired adjacent pair.',
        technique='VC generation from the real AST + z3/cvc5 (sequence theory, Ackermannised), functional contracts; '
                  'bounded run-time contracts as stand-in for distant moves'),
}

NOT_APPLICABLE = {}
SOURCE_COMMITS = []
FIX_COMMITS = ['da35a0f fix: Y gate', 'e208434 fix: Ry', '1d0097a fix: Controlled of a daggered gate', '305ef6b fix: gate2zx controlled rotations', '16b45ce fix: refuse out-of-range offsets in the type scan of monoidal.Diagram.__init__']


def claimed():
    return sorted(PROPS)

CONTRACT_MODULES = ['core', 'rewriting', 'lemmas', 'eqhash', 'functors', 'grammar', 'cartesian', 'structural', 'types', 'daggers', 'snakes', 'layout']
