"""accumulator shared by the bounded drivers"""


CURRENT = []


class Report:
    def __init__(self, bound):
        CURRENT.append(self)
        self.bound = bound
        self.evaluations = 0
        self.distinct = set()
        self.failures = []
        self.samples = []
        self.counts = {}
        self._fail_keys = set()

    def case(self, key=None, nontrivial=True):
        self.evaluations += 1
        if key is not None and nontrivial:
            self.distinct.add(key)

    def count(self, name, n=1):
        self.counts[name] = self.counts.get(name, 0) + n

    def sample(self, s, limit=6):
        if len(self.samples) < limit:
            self.samples.append(s)

    def fail(self, key, what, input_repr, replay=None):
        """key identifies the *class* of the failure (used to match known findings)"""
        if key in self._fail_keys and len([f for f in self.failures if f['key'] == key]) >= 3:
            return
        self._fail_keys.add(key)
        self.failures.append({'key': key, 'what': what, 'input': input_repr, 'replay': replay})

    def result(self):
        return {'bound': self.bound, 'evaluations': self.evaluations,
                'distinct_nontrivial': len(self.distinct), 'failures': self.failures,
                'samples': self.samples, 'counts': self.counts}
