"""Independent numpy simulator of pure circuits (oracle for the bounded drivers of C11-C13, C16).

The matrix of every box comes from its *name and parameters* through the textbook / tket
definitions below, never from discopy's stored arrays; layers are composed as
I (x) U (x) I by Kronecker products.  Matrices are M[out][in], leftmost qubit most significant."""
import numpy
from numpy import pi, cos, sin, exp

from discopy.quantum import gates, circuit

I2 = numpy.eye(2)
NAMED = {
    'H': numpy.array([[1, 1], [1, -1]]) / numpy.sqrt(2),
    'S': numpy.diag([1, 1j]), 'T': numpy.diag([1, exp(1j * pi / 4)]),
    'X': numpy.array([[0, 1], [1, 0]]), 'Y': numpy.array([[0, -1j], [1j, 0]]), 'Z': numpy.diag([1, -1]),
    'CZ': numpy.diag([1, 1, 1, -1]),
    'SWAP': numpy.array([[1, 0, 0, 0], [0, 0, 1, 0], [0, 1, 0, 0], [0, 0, 0, 1]]),
}


def controlled(U):
    n = U.shape[0]
    M = numpy.eye(2 * n, dtype=complex)
    M[n:, n:] = U
    return M


def rotation(name, phase):
    t = pi * phase
    if name == 'Rx':
        return numpy.array([[cos(t), -1j * sin(t)], [-1j * sin(t), cos(t)]])
    if name == 'Ry':
        return numpy.array([[cos(t), -sin(t)], [sin(t), cos(t)]])
    if name == 'Rz':
        return numpy.diag([exp(-1j * t), exp(1j * t)])
    if name == 'CRz':
        return controlled(rotation('Rz', phase))
    if name == 'CRx':
        return controlled(rotation('Rx', phase))
    if name == 'CU1':
        return numpy.diag([1, 1, 1, exp(2j * pi * phase)])
    raise KeyError(name)


def basis(bits):
    v = numpy.zeros((2 ** len(bits), 1), dtype=complex)
    v[int(''.join(map(str, bits)) or '0', 2)] = 1
    return v


def box_matrix(box):
    """M[out][in] of a pure box"""
    if isinstance(box, gates.Rotation):
        return rotation(type(box).__name__, float(box.phase))
    if isinstance(box, gates.Controlled):
        return controlled(box_matrix(box.controlled))
    if isinstance(box, gates.Ket):
        return basis(box.bitstring)
    if isinstance(box, gates.Bra):
        return basis(box.bitstring).T
    if isinstance(box, gates.Sqrt):
        return numpy.array([[complex(box.data) ** .5]])
    if isinstance(box, gates.Scalar):
        return numpy.array([[complex(box.data)]])
    if isinstance(box, circuit.Swap):
        return NAMED['SWAP']
    if isinstance(box, gates.QuantumGate):
        name = box._name
        if name == 'CX':
            M = controlled(NAMED['X'])
        elif name in NAMED:
            M = NAMED[name]
        else:
            raise KeyError(name)
        return M.conj().T if box.is_dagger else M
    raise KeyError(repr(box))


def circuit_matrix(c):
    """matrix of a pure circuit from 2**len(dom) to 2**len(cod)"""
    n = len(c.dom)
    M = numpy.eye(2 ** n, dtype=complex)
    width = n
    for box, off in zip(c.boxes, c.offsets):
        U = box_matrix(box)
        right = width - off - len(box.dom)
        layer = numpy.kron(numpy.kron(numpy.eye(2 ** off), U), numpy.eye(2 ** right))
        M = layer @ M
        width = off + len(box.cod) + right
    return M


def eval_matrix(c):
    """discopy's own pure evaluation, as M[out][in]"""
    t = c.eval()
    a = numpy.array(t.array, dtype=complex).reshape(2 ** len(c.dom), 2 ** len(c.cod))
    return a.T
