"""Run-time side of the contracts (runs under /repo's own interpreter, no z3 here).

* the functional specs of contracts/*.py are extracted as text and executed natively with the
  Raw* constructors mapped to discopy's own unchecked constructors: the same text the VC back end
  interprets symbolically;
* `wf` is the native twin of the representation invariant: re-scan boxes/offsets from dom and
  compare with the stored layers;
* exhaustive generators of small diagrams (the stated bounds of every bounded stand-in)."""
import ast
import itertools
import os
import textwrap

from discopy import cat, monoidal, rigid
from discopy.cat import AxiomError
from discopy.rewriting import InterchangerError

HERE = os.path.dirname(os.path.dirname(os.path.abspath(__file__)))


# ------------------------------------------------------------------ spec extraction

def load_specs():
    """qualname -> source text of `def spec(...)`, read from contracts/*.py without importing them"""
    specs = {}
    cdir = os.path.join(HERE, 'contracts')
    for fn in sorted(os.listdir(cdir)):
        if not fn.endswith('.py'):
            continue
        with open(os.path.join(cdir, fn)) as f:
            tree = ast.parse(f.read())
        consts = {}
        for node in tree.body:
            if isinstance(node, ast.Assign) and isinstance(node.value, ast.Constant) \
                    and isinstance(node.value.value, str):
                for t in node.targets:
                    if isinstance(t, ast.Name):
                        consts[t.id] = node.value.value
        for node in ast.walk(tree):
            if isinstance(node, ast.Call) and isinstance(node.func, ast.Name) and node.func.id == 'contract' \
                    and node.args and isinstance(node.args[0], ast.Constant):
                q = node.args[0].value
                for kw in node.keywords:
                    if kw.arg == 'spec':
                        if isinstance(kw.value, ast.Constant) and isinstance(kw.value.value, str):
                            specs[q] = kw.value.value
                        elif isinstance(kw.value, ast.Name) and kw.value.id in consts:
                            specs[q] = consts[kw.value.id]
    return specs


def RawArrow(dom, cod, boxes):
    return cat.Arrow(dom, cod, list(boxes), _scan=False)


def RawDiagram(dom, cod, boxes, offsets, layers):
    return monoidal.Diagram(dom, cod, list(boxes), list(offsets), layers=layers)


def RawLayer(left, box, right):
    return monoidal.Layer(left, box, right)


def interchange_far(self, i, j, left=False):
    """native twin of the abstract far-move contract: iterate the adjacent spec"""
    spec = native_spec('rewriting.interchange')
    result = self
    if j < i:
        for k in range(i - j):
            result = spec(result, i - k, i - k - 1, left)
    else:
        for k in range(j - i):
            result = spec(result, i + k, i + k + 1, left)
    return result


def check_arrow_scan(dom, cod, boxes):
    scan = dom
    for box in boxes:
        if box.dom != scan:
            raise AxiomError
        scan = box.cod
    if scan != cod:
        raise AxiomError


def scan_layers(dom, cod, boxes, offsets):
    """the scan of property C01, written from the statement: each box finds its own domain at its
    offset (0 <= offset, offset + len(box.dom) <= width) and the last row is the codomain"""
    scan, layers = dom, []
    for box, off in zip(boxes, offsets):
        if not isinstance(off, int):
            raise TypeError
        if not (0 <= off and off + len(box.dom) <= len(scan)):
            raise AxiomError
        if scan[off:off + len(box.dom)] != box.dom:
            raise AxiomError
        layers.append(monoidal.Layer(scan[:off], box, scan[off + len(box.dom):]))
        scan = scan[:off] @ box.cod @ scan[off + len(box.dom):]
    if scan != cod:
        raise AxiomError
    return cat.Arrow(dom, cod, layers, _scan=False)


PRELUDE = dict(RawArrow=RawArrow, RawDiagram=RawDiagram, RawLayer=RawLayer, EmptyTy=lambda: monoidal.Ty(),
               AxiomError=AxiomError, InterchangerError=InterchangerError, interchange_far=interchange_far,
               check_arrow_scan=check_arrow_scan, scan_layers=scan_layers,
               as_diagram=lambda d: d)
_specs = None
_compiled = {}


def native_spec(qualname):
    global _specs
    if _specs is None:
        _specs = load_specs()
    if qualname not in _compiled:
        ns = dict(PRELUDE)
        exec(compile(textwrap.dedent(_specs[qualname]), 'spec:' + qualname, 'exec'), ns)
        _compiled[qualname] = ns['spec']
    return _compiled[qualname]


# ------------------------------------------------------------------ predicates

def layers_of(d):
    return [(l._left, l._box, l._right) for l in d.layers.boxes]


def ty_key(t):
    """a type as the list of its wires, each a (name, winding number) pair, plus (class, dimension) for the objects of circuits (bits, digits, qubits, qudits): compared without the library's own `==`"""
    return [(repr(getattr(o, 'name', o)), getattr(o, 'z', 0), (type(o).__name__, o.dim) if hasattr(o, 'dim') else None) for o in t]


def ty_key_any(t):
    """ty_key for types, repr for the objects of cat (which are not iterable)"""
    try:
        return ty_key(t)
    except TypeError:
        return repr(t)


def wf_reason(d):
    """None if the diagram satisfies the representation invariant of C01, else why not.  Types are compared both with the
    library's `==` and wire by wire (name and winding number), so that a too generous `==` cannot hide a mismatch."""
    try:
        boxes, offsets = d.boxes, d.offsets
        if not (len(boxes) == len(offsets) == len(d.layers.boxes)):
            return 'lengths of boxes/offsets/layers differ'
        if d.layers.dom != d.dom or d.layers.cod != d.cod:
            return 'layers.dom/cod differ from dom/cod'
        scan = d.dom
        for k, (box, off) in enumerate(zip(boxes, offsets)):
            if not isinstance(off, int) or not (0 <= off and off + len(box.dom) <= len(scan)):
                return 'offset %r of box %d out of range for width %d' % (off, k, len(scan))
            if scan[off:off + len(box.dom)] != box.dom or ty_key(scan[off:off + len(box.dom)]) != ty_key(box.dom):
                return 'box %d does not find its domain at offset %d' % (k, off)
            left, b, right = d.layers.boxes[k]
            if (left, right) != (scan[:off], scan[off + len(box.dom):]) or b != box \
                    or ty_key(left) != ty_key(scan[:off]) or ty_key(right) != ty_key(scan[off + len(box.dom):]):
                return 'layer %d disagrees with the scan' % k
            scan = scan[:off] @ box.cod @ scan[off + len(box.dom):]
        if scan != d.cod or ty_key(scan) != ty_key(d.cod):
            return 'scan ends at %r, not at cod %r' % (scan, d.cod)
    except Exception as e:   # a value that cannot even be read is not well formed
        return 'exception while scanning: %r' % (e,)
    return None


def same_diagram(a, b):
    return (a.dom, a.cod, a.boxes, a.offsets) == (b.dom, b.cod, b.boxes, b.offsets) \
        and layers_of(a) == layers_of(b)


def outcome(fn, *args, **kwargs):
    try:
        return ('ok', fn(*args, **kwargs))
    except Exception as e:
        return ('exc', type(e))


# ------------------------------------------------------------------ generators

def signature(objects=('x',), arities=((0, 0), (0, 1), (1, 0), (1, 1), (1, 2), (2, 1)), ty=monoidal.Ty,
              box=monoidal.Box, two_typed=False):
    """boxes over one or two objects, one per arity (named by arity)"""
    x = ty(objects[0])
    boxes = []
    for a, b in arities:
        boxes.append(box('f%d%d' % (a, b), x ** a, x ** b))
    if two_typed and len(objects) > 1:
        y = ty(objects[1])
        boxes += [box('g', x, y), box('h', y, x), box('m', x @ y, y), box('s', ty(), y)]
    return boxes


def gen_diagrams(doms, boxes, max_boxes, max_width=4, diagram=monoidal.Diagram):
    """all diagrams with <= max_boxes boxes over `boxes`, starting from each dom, by exhaustive scan"""
    def rec(dom, scan, bs, offs, depth):
        yield diagram(dom, scan, list(bs), list(offs))
        if depth == max_boxes:
            return
        for b in boxes:
            n = len(b.dom)
            for off in range(len(scan) - n + 1):
                if scan[off:off + n] == b.dom:
                    new = scan[:off] @ b.cod @ scan[off + n:]
                    if len(new) > max_width:
                        continue
                    yield from rec(dom, new, bs + [b], offs + [off], depth + 1)
    for dom in doms:
        yield from rec(dom, dom, [], [], 0)


class Hang(BaseException):
    """raised by time_limit: the real code did not return within the budget (BaseException: not swallowed by the
    library's own `except Exception`)"""


class time_limit:
    """with time_limit(s): ...   -- SIGALRM based, main thread of a driver process only.  Budgets are 3-4 orders of
    magnitude above the normal run time of the guarded call, so a loaded machine does not trip them."""
    def __init__(self, seconds):
        self.seconds = seconds

    def __enter__(self):
        import signal

        def handler(signum, frame):
            raise Hang('no result after %d s' % self.seconds)
        self.old = signal.signal(signal.SIGALRM, handler)
        signal.alarm(self.seconds)

    def __exit__(self, *exc):
        import signal
        signal.alarm(0)
        signal.signal(signal.SIGALRM, self.old)
        return False
