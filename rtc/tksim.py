"""Exact simulator of pytket circuits over the operations discopy exports/imports (oracle for C13).

Branching state-vector simulation: a branch = (values of the classical bits, unnormalised state);
gates act by the tket definitions (angles in half-turns); Measure(q, b) splits each branch by the
two projectors.  Returns the exact joint distribution of all classical bits (qubit 0 = most
significant / first tensor factor, as in pytket's ILO-BE convention for our own bookkeeping only)."""
import numpy
from numpy import pi, cos, sin, exp

NAMED = {
    'H': numpy.array([[1, 1], [1, -1]]) / numpy.sqrt(2), 'S': numpy.diag([1, 1j]), 'T': numpy.diag([1, exp(1j * pi / 4)]),
    'X': numpy.array([[0, 1], [1, 0]]), 'Y': numpy.array([[0, -1j], [1j, 0]]), 'Z': numpy.diag([1, -1]),
    'Sdg': numpy.diag([1, -1j]), 'Tdg': numpy.diag([1, exp(-1j * pi / 4)]),
    'CX': numpy.array([[1, 0, 0, 0], [0, 1, 0, 0], [0, 0, 0, 1], [0, 0, 1, 0]]),
    'CZ': numpy.diag([1, 1, 1, -1]),
    'SWAP': numpy.array([[1, 0, 0, 0], [0, 0, 1, 0], [0, 1, 0, 0], [0, 0, 0, 1]]),
}


def _controlled(U):
    out = numpy.eye(4, dtype=complex)
    out[2:, 2:] = U
    return out


for _n in ('Y', 'H', 'S', 'Sdg', 'T', 'Tdg'):      # tket's definitions: control first, CSdg = controlled Sdg
    if 'C' + _n not in NAMED:
        NAMED['C' + _n] = _controlled(NAMED[_n])


def gate_matrix(name, params):
    if name in NAMED:
        return NAMED[name]
    a = float(params[0]) * pi / 2      # tket half-turns: Rx(alpha) = exp(-i pi alpha / 2 X)
    if name == 'Rx':
        return numpy.array([[cos(a), -1j * sin(a)], [-1j * sin(a), cos(a)]])
    if name == 'Ry':
        return numpy.array([[cos(a), -sin(a)], [sin(a), cos(a)]])
    if name == 'Rz':
        return numpy.diag([exp(-1j * a), exp(1j * a)])
    if name == 'CRz':
        return numpy.diag([1, 1, exp(-1j * a), exp(1j * a)])
    raise KeyError(name)


def apply(state, n, U, qs):
    """apply U (2^k x 2^k, M[out][in]) to qubits qs of an n-qubit state tensor"""
    k = len(qs)
    t = state.reshape((2,) * n)
    Ut = U.reshape((2,) * (2 * k))
    t = numpy.tensordot(Ut, t, (list(range(k, 2 * k)), qs))
    # result axes: outs (k) then the remaining axes in order; move outs back to positions qs
    rest = [q for q in range(n) if q not in qs]
    order = [None] * n
    for i, q in enumerate(qs):
        order[q] = i
    for i, q in enumerate(rest):
        order[q] = k + i
    return numpy.transpose(t, order).reshape(-1)


def simulate(tk_circuit):
    """{bit tuple: probability} over all classical bits of the circuit, in register order.
    Branches with the same recorded bit values but different histories are kept apart (a list of
    states per key): they are orthogonal histories, so probabilities add, not amplitudes."""
    qubits = list(tk_circuit.qubits)
    bits = list(tk_circuit.bits)
    qi = {q: k for k, q in enumerate(qubits)}
    bi = {b: k for k, b in enumerate(bits)}
    n = len(qubits)
    state = numpy.zeros(2 ** n, dtype=complex)
    state[0] = 1
    branches = {tuple([0] * len(bits)): [state]}
    for cmd in tk_circuit.get_commands():
        name = cmd.op.type.name
        qs = [qi[q] for q in cmd.qubits]
        if name == 'Measure':
            branches = _merge_incoherent(branches, qs[0], bi[cmd.bits[0]], n)
        elif name in ('Barrier', 'noop'):
            continue
        else:
            branches = apply_all(branches, n, gate_matrix(name, cmd.op.params), qs)
    probs = {}
    for vals, items in branches.items():
        for st in items:
            p = float(numpy.vdot(st, st).real)
            if p > 1e-15:
                probs[vals] = probs.get(vals, 0.0) + p
    return probs


def _merge_incoherent(branches, q, b, n):
    new = {}
    for vals, items in branches.items():
        for st in (items if isinstance(items, list) else [items]):
            t = st.reshape((2,) * n)
            for outcome in (0, 1):
                proj = numpy.zeros_like(t)
                idx = [slice(None)] * n
                idx[q] = outcome
                proj[tuple(idx)] = t[tuple(idx)]
                if numpy.abs(proj).max() < 1e-15:
                    continue
                v = list(vals)
                v[b] = outcome
                new.setdefault(tuple(v), []).append(proj.reshape(-1))
    return new


def apply_all(branches, n, U, qs):
    return {vals: [apply(st, n, U, qs) for st in (items if isinstance(items, list) else [items])]
            for vals, items in branches.items()}


def statevector(tk_circuit):
    """final state of a measurement-free circuit started in |0..0>"""
    qubits = list(tk_circuit.qubits)
    qi = {q: k for k, q in enumerate(qubits)}
    n = len(qubits)
    state = numpy.zeros(2 ** n, dtype=complex)
    state[0] = 1
    for cmd in tk_circuit.get_commands():
        name = cmd.op.type.name
        if name in ('Barrier', 'noop'):
            continue
        state = apply(state, n, gate_matrix(name, cmd.op.params), [qi[q] for q in cmd.qubits])
    return state
