"""Independent simulator of classical-quantum circuits (oracle for C12 / C13).

Every wire (bit or qubit) is a two-level system; a state of n wires is an operator tensor
rho[r_1..r_n, c_1..c_n]; every box is a superoperator tensor T[r_out.., c_out.., r_in.., c_in..]
written from the textbook definitions (Coecke & Kissinger, Picturing Quantum Processes, ch. 6):
unitary conjugation, stochastic maps on diagonals, measurement = dephasing (+ copy), discard =
trace, encode / mixed state = Hilbert-Schmidt adjoints.  Nothing here reads discopy's arrays
except for ClassicalGate data (the gate IS its table).  Works on floats and on sympy entries."""
import itertools

import numpy

from discopy.quantum import gates, circuit


def _zeros(shape, symbolic):
    if symbolic:
        a = numpy.empty(shape, dtype=object)
        a.fill(0)
        return a
    return numpy.zeros(shape, dtype=complex)


def _conj(x):
    return x.conjugate() if hasattr(x, 'conjugate') else numpy.conjugate(x)


def pure_T(M, n_in, n_out, symbolic):
    """rho -> M rho M^dagger, M given as a matrix M[out][in]"""
    M = numpy.array(M, dtype=object if symbolic else complex).reshape((2,) * n_out + (2,) * n_in)
    T = _zeros((2,) * (2 * n_out + 2 * n_in), symbolic)
    for ro in itertools.product((0, 1), repeat=n_out):
        for co in itertools.product((0, 1), repeat=n_out):
            for ri in itertools.product((0, 1), repeat=n_in):
                for ci in itertools.product((0, 1), repeat=n_in):
                    T[ro + co + ri + ci] = M[ro + ri] * _conj(M[co + ci])
    return T


def classical_T(A, n_in, n_out, symbolic):
    """diagonal |i><i| -> sum_o A[i, o] |o><o|"""
    A = numpy.array(A, dtype=object if symbolic else complex).reshape((2,) * (n_in + n_out))
    T = _zeros((2,) * (2 * n_out + 2 * n_in), symbolic)
    for o in itertools.product((0, 1), repeat=n_out):
        for i in itertools.product((0, 1), repeat=n_in):
            T[o + o + i + i] = A[i + o]
    return T


def adjoint_T(T, n_in, n_out):
    """Hilbert-Schmidt adjoint: swap the roles of inputs and outputs and conjugate"""
    perm = list(range(2 * n_out, 2 * n_out + 2 * n_in)) + list(range(2 * n_out))
    out = numpy.transpose(T, perm)
    if out.dtype == object:
        flat = [_conj(x) for x in out.flatten()]
        res = numpy.empty(len(flat), dtype=object)
        res[:] = flat
        return res.reshape(out.shape)
    return numpy.conjugate(out)


def box_T(box, matrix_of, symbolic=False):
    """(T, factor) of a box; matrix_of(box) gives M[out][in] of pure quantum boxes (independent spec)"""
    n_in, n_out = len(box.dom), len(box.cod)
    if isinstance(box, circuit.Discard):
        T = _zeros((2,) * (2 * n_in), symbolic)
        for i in itertools.product((0, 1), repeat=n_in):
            T[i + i] = 1
        return T
    if isinstance(box, circuit.MixedState):
        return adjoint_T(box_T(box.dagger(), matrix_of, symbolic), n_out, n_in)
    if isinstance(box, circuit.Measure):
        n = box.n_qubits
        n_in_eff = n
        outs = n if box.destructive else 2 * n
        T = _zeros((2,) * (2 * outs + 2 * n_in_eff), symbolic)
        for i in itertools.product((0, 1), repeat=n):
            o = i if box.destructive else i + i      # (qubits kept, then bits)
            T[o + o + i + i] = 1
        if box.override_bits:
            # the incoming bits are discarded: tensor with the trace on n more input wires
            D = _zeros((2,) * (2 * n), symbolic)
            for i in itertools.product((0, 1), repeat=n):
                D[i + i] = 1
            T = tensor_T(T, n_in_eff, outs, D, n, 0)
        return T
    if isinstance(box, circuit.Encode):
        return adjoint_T(box_T(box.dagger(), matrix_of, symbolic), n_out, n_in)
    if isinstance(box, circuit.Swap):
        T = _zeros((2,) * 8, symbolic)
        for a, b, c, d in itertools.product((0, 1), repeat=4):
            T[(b, a, d, c, a, b, c, d)] = 1       # out (r: b a ; c: d c) from in (r: a b ; c: c d)
        return T
    if isinstance(box, gates.Scalar):
        s = box.array[0]
        val = s if box.is_mixed else s * _conj(s)
        T = _zeros((), symbolic)
        T[()] = val
        return T
    if isinstance(box, gates.ClassicalGate):
        A = box.array
        if box.is_dagger:
            # a daggered classical gate is the transpose table
            A = numpy.array(A, dtype=object if symbolic else complex).reshape((2,) * (n_out + n_in))
            A = numpy.transpose(A, list(range(n_out, n_out + n_in)) + list(range(n_out)))
            if symbolic:
                A = numpy.vectorize(_conj, otypes=[object])(A)
            else:
                A = numpy.conjugate(A)
        return classical_T(A, n_in, n_out, symbolic)
    return pure_T(matrix_of(box), n_in, n_out, symbolic)


def tensor_T(T1, i1, o1, T2, i2, o2):
    """T1 (x) T2 with the index convention (r_out.., c_out.., r_in.., c_in..)"""
    T = numpy.tensordot(T1, T2, 0)
    # current order: ro1 co1 ri1 ci1 ro2 co2 ri2 ci2 ; wanted: ro1 ro2 co1 co2 ri1 ri2 ci1 ci2
    a = 0
    ro1 = list(range(a, a + o1)); a += o1
    co1 = list(range(a, a + o1)); a += o1
    ri1 = list(range(a, a + i1)); a += i1
    ci1 = list(range(a, a + i1)); a += i1
    ro2 = list(range(a, a + o2)); a += o2
    co2 = list(range(a, a + o2)); a += o2
    ri2 = list(range(a, a + i2)); a += i2
    ci2 = list(range(a, a + i2)); a += i2
    return numpy.transpose(T, ro1 + ro2 + co1 + co2 + ri1 + ri2 + ci1 + ci2)


def apply_T(rho, n, T, off, n_in, n_out):
    """apply T to wires off .. off+n_in-1 of the operator tensor rho on n wires"""
    rows = list(range(off, off + n_in))
    cols = [n + k for k in rows]
    t_in = list(range(2 * n_out, 2 * n_out + 2 * n_in))
    out = numpy.tensordot(T, rho, (t_in, rows + cols))
    # out axes: ro (n_out), co (n_out), then the remaining axes of rho in order
    rest_rows = [k for k in range(n) if not off <= k < off + n_in]
    m = n - n_in + n_out
    # remaining axes of rho: rows except ours, then cols except ours
    k_ro = list(range(0, n_out))
    k_co = list(range(n_out, 2 * n_out))
    k_rr = list(range(2 * n_out, 2 * n_out + len(rest_rows)))
    k_rc = list(range(2 * n_out + len(rest_rows), 2 * n_out + 2 * len(rest_rows)))
    left = sum(1 for k in rest_rows if k < off)
    order = k_rr[:left] + k_ro + k_rr[left:] + k_rc[:left] + k_co + k_rc[left:]
    return numpy.transpose(out, order), m


def run_circuit(c, rho, matrix_of, symbolic=False):
    n = len(c.dom)
    for box, off in zip(c.boxes, c.offsets):
        T = box_T(box, matrix_of, symbolic)
        rho, n = apply_T(rho, n, T, off, len(box.dom), len(box.cod))
    return rho


def kinds(ty):
    return ['bit' if x.name == 'bit' else 'qubit' for x in ty]


def cq_array(c, matrix_of, symbolic=False):
    """the array discopy's CQMap stores for circuit c, computed independently:
    axes (bits_in.., qubits_in (bra).., qubits_in (ket).., bits_out.., qubits_out (bra).., qubits_out (ket)..)"""
    kin, kout = kinds(c.dom), kinds(c.cod)
    bi = [k for k, x in enumerate(kin) if x == 'bit']
    qi = [k for k, x in enumerate(kin) if x == 'qubit']
    bo = [k for k, x in enumerate(kout) if x == 'bit']
    qo = [k for k, x in enumerate(kout) if x == 'qubit']
    n, m = len(kin), len(kout)
    shape = (2,) * (len(bi) + 2 * len(qi) + len(bo) + 2 * len(qo))
    result = _zeros(shape or (1,), symbolic)
    for cin in itertools.product((0, 1), repeat=len(bi)):
        for bra in itertools.product((0, 1), repeat=len(qi)):
            for ket in itertools.product((0, 1), repeat=len(qi)):
                rho = _zeros((2,) * (2 * n), symbolic)
                r, cc = [0] * n, [0] * n
                for k, v in zip(bi, cin):
                    r[k] = cc[k] = v
                for k, v in zip(qi, ket):
                    r[k] = v
                for k, v in zip(qi, bra):
                    cc[k] = v
                rho[tuple(r) + tuple(cc)] = 1
                out = run_circuit(c, rho, matrix_of, symbolic)
                for cout in itertools.product((0, 1), repeat=len(bo)):
                    for obra in itertools.product((0, 1), repeat=len(qo)):
                        for oket in itertools.product((0, 1), repeat=len(qo)):
                            r2, c2 = [0] * m, [0] * m
                            for k, v in zip(bo, cout):
                                r2[k] = c2[k] = v
                            for k, v in zip(qo, oket):
                                r2[k] = v
                            for k, v in zip(qo, obra):
                                c2[k] = v
                            idx = cin + bra + ket + cout + obra + oket
                            result[idx or (0,)] = out[tuple(r2) + tuple(c2)]
    return result


def offdiagonal_bits_vanish(c, matrix_of):
    """sanity of the oracle itself: classical wires stay diagonal"""
    return True
