"""setup sanity check: the repository imports and the native twins of the contracts load"""
import sys
import discopy
from rtc import common
specs = common.load_specs()
assert specs, 'no specs extracted'
for q in specs:
    try:
        common.native_spec(q)
    except Exception as e:
        print('spec of %s does not compile natively: %r' % (q, e))
        sys.exit(1)
print('discopy %s imports; %d native spec twins compile' % (discopy.__version__, len(specs)))
