"""C02 bounded stand-in: the dagger-monoidal and sum laws as `==` on enumerated diagrams, in the
monoidal and rigid classes and (sampled) in the circuit / zx / tensor classes."""
import itertools

from discopy import cat, monoidal, rigid
from rtc import common
from rtc.report import Report

SHARDED = True


def eq(rep, key, lhs, rhs, inp):
    """lhs / rhs are thunks; both must produce == values (or both raise the same exception)"""
    a, b = common.outcome(lhs), common.outcome(rhs)
    rep.count(key)
    if key.startswith('sum.then.right_distrib') and a[0] == b[0] == 'ok' and a[1] != b[1]:
        # classify: same terms in another order (the ordered-list representation of sums) or worse
        ta, tb = getattr(a[1], 'terms', None), getattr(b[1], 'terms', None)
        same_terms = ta is not None and tb is not None and sorted(map(repr, ta)) == sorted(map(repr, tb)) \
            and (a[1].dom, a[1].cod) == (b[1].dom, b[1].cod)
        key += '.order_only' if same_terms else '.terms_differ'
    if key.startswith('bubble.dagger') and a == ('exc', TypeError):
        key += '.TypeError'
    if a[0] != b[0]:
        rep.fail('C02:' + key, 'one side raised: %r vs %r' % (a, b), inp)
    elif a[0] == 'ok' and not (a[1] == b[1] and b[1] == a[1]):
        rep.fail('C02:' + key, '%r != %r' % (a[1], b[1]), inp)
    elif a[0] == 'exc' and a[1] is not b[1]:
        rep.fail('C02:' + key, 'different exceptions %r vs %r' % (a, b), inp)


def laws(rep, D, Id, Ty, shard, tag):
    idx = 0
    for a in D:
        idx += 1
        if idx % shard[1] != shard[0]:
            continue
        ra = repr(a)
        rep.case((tag, ra), nontrivial=len(a) > 0)
        eq(rep, 'then.unit', lambda: Id(a.dom) >> a, lambda: a, ra)
        eq(rep, 'then.unit', lambda: a >> Id(a.cod), lambda: a, ra)
        eq(rep, 'tensor.unit', lambda: Id(Ty()) @ a, lambda: a, ra)
        eq(rep, 'tensor.unit', lambda: a @ Id(Ty()), lambda: a, ra)
        eq(rep, 'dagger.involutive', lambda: a[::-1][::-1], lambda: a, ra)
        eq(rep, 'dagger.dom', lambda: a[::-1].dom, lambda: a.cod, ra)
        eq(rep, 'dagger.id', lambda: Id(a.dom)[::-1], lambda: Id(a.dom), ra)
        for k in range(-len(a) - 2, len(a) + 3):
            eq(rep, 'slice.recompose', lambda: a[:k] >> a[k:], lambda: a, '%s at %d' % (ra, k))
        for b in D[:30]:
            rb = ra + ' ; ' + repr(b)
            eq(rep, 'tensor.whisker', lambda: a @ b, lambda: a @ Id(b.dom) >> Id(a.cod) @ b, rb)
            if a.cod == b.dom:
                eq(rep, 'dagger.contravariant', lambda: (a >> b)[::-1], lambda: b[::-1] >> a[::-1], rb)
            for c in D[:5]:
                rc = rb + ' ; ' + repr(c)
                eq(rep, 'tensor.assoc', lambda: (a @ b) @ c, lambda: a @ (b @ c), rc)
                if a.cod == b.dom and b.cod == c.dom:
                    eq(rep, 'then.assoc', lambda: (a >> b) >> c, lambda: a >> (b >> c), rc)


def sums(rep, D, shard, Sum, tag):
    """bilinearity on parallel diagrams"""
    groups = {}
    for d in D:
        groups.setdefault((d.dom, d.cod), []).append(d)
    idx = 0
    for (dom, cod), fs in groups.items():
        fs = fs[:4]
        unit = Sum([], dom, cod)
        if idx % shard[1] == shard[0]:
            # the empty sum (zero morphism) of every hom-set: absorbing for >> and @, with the composite's type
            zi = '%s: zero=Sum([], %r, %r)' % (tag, dom, cod)
            rep.case((tag, 'zero', repr(dom), repr(cod)))
            eq(rep, 'sum.zero.dagger', lambda: unit[::-1], lambda: Sum([], cod, dom), zi)
            for h in D[:40]:
                ih = zi + ' h=%r' % (h,)
                if h.dom == cod:
                    eq(rep, 'sum.zero.then.left_operand', lambda: unit >> h, lambda: Sum([], dom, h.cod), ih)
                if h.cod == dom:
                    eq(rep, 'sum.zero.then.right_operand', lambda: h >> unit, lambda: Sum([], h.dom, cod), ih)
                eq(rep, 'sum.zero.tensor.left_operand', lambda: unit @ h, lambda: Sum([], dom @ h.dom, cod @ h.cod), ih)
                eq(rep, 'sum.zero.tensor.right_operand', lambda: h @ unit, lambda: Sum([], h.dom @ dom, h.cod @ cod), ih)
        for f, g in itertools.product(fs, fs):
            idx += 1
            if idx % shard[1] != shard[0]:
                continue
            inp = '%s: f=%r g=%r' % (tag, f, g)
            rep.case((tag, 'sum', repr(f), repr(g)))
            eq(rep, 'sum.unit', lambda: (f + g) + unit, lambda: f + g, inp)
            eq(rep, 'sum.unit', lambda: unit + (f + g), lambda: f + g, inp)
            eq(rep, 'sum.dagger', lambda: (f + g)[::-1], lambda: f[::-1] + g[::-1], inp)
            for h in D[:40]:
                ih = inp + ' h=%r' % (h,)
                if h.dom == cod:
                    eq(rep, 'sum.then.left_operand', lambda: (f + g) >> h, lambda: (f >> h) + (g >> h), ih)
                if h.cod == dom:
                    eq(rep, 'sum.then.right_operand', lambda: h >> (f + g), lambda: (h >> f) + (h >> g), ih)
                eq(rep, 'sum.tensor.left_operand', lambda: (f + g) @ h, lambda: (f @ h) + (g @ h), ih)
                eq(rep, 'sum.tensor.right_operand', lambda: h @ (f + g), lambda: (h @ f) + (h @ g), ih)
            # both operands sums: right-distributivity with a multi-term left operand
            for (dom2, cod2), gs in groups.items():
                if dom2 != cod or len(gs) < 2:
                    continue
                g0, g1 = gs[0], gs[1]
                eq(rep, 'sum.then.right_distrib.multi_term_left',
                   lambda: (f + g) >> (g0 + g1), lambda: ((f + g) >> g0) + ((f + g) >> g1),
                   inp + ' g0=%r g1=%r' % (g0, g1))
                eq(rep, 'sum.then.left_distrib.sum_right',
                   lambda: (f + g) >> (g0 + g1), lambda: (f >> (g0 + g1)) + (g >> (g0 + g1)),
                   inp + ' g0=%r g1=%r' % (g0, g1))
                break
            # the same for the tensor of two multi-term sums: it distributes over its LEFT operand term by term
            for (dom2, cod2), gs in list(groups.items())[:3]:
                if len(gs) < 2:
                    continue
                g0, g1 = gs[0], gs[1]
                eq(rep, 'sum.tensor.left_distrib.sum_right',
                   lambda: (f + g) @ (g0 + g1), lambda: (f @ (g0 + g1)) + (g @ (g0 + g1)),
                   inp + ' g0=%r g1=%r' % (g0, g1))


def bubbles(rep, D, tag):
    for d in D[:10]:
        b = d.bubble()
        inp = '%s: (%r).bubble()' % (tag, d)
        rep.case((tag, 'bubble', repr(d)))
        eq(rep, 'bubble.dagger.involutive', lambda: b[::-1][::-1], lambda: b, inp)


def catalogue_daggers(rep):
    """dagger is involutive, identity-on-objects and reverses composition on one instance of every box class of the
    library with every combination of its type-changing flags (semantic subclasses included)"""
    from rtc.drivers.C01 import box_catalogue
    for b in box_catalogue():
        inp = '%s.%s %r' % (type(b).__module__, type(b).__name__, b)
        rep.case(('catalogue', inp))
        eq(rep, 'dagger.involutive.box', lambda: b[::-1][::-1], lambda: b, inp)
        eq(rep, 'dagger.on_objects.dom', lambda: b[::-1].dom, lambda: b.cod, inp)
        eq(rep, 'dagger.on_objects.cod', lambda: b[::-1].cod, lambda: b.dom, inp)
        if len(getattr(b, 'terms', [])) < 2:        # composites of multi-term sums: order of terms, known finding F2
            eq(rep, 'dagger.contravariant.box', lambda: (b >> b[::-1])[::-1], lambda: b[::-1][::-1] >> b[::-1], inp)


def run(tier, seed=0, shard=(0, 1)):
    max_boxes = 2 if tier == 'quick' else 3
    x, y = monoidal.Ty('x'), monoidal.Ty('y')
    boxes = common.signature(('x',), arities=((0, 0), (0, 1), (1, 0), (1, 1), (1, 2), (2, 1)))
    boxes += [monoidal.Box('g', x, y, data=7), monoidal.Box('h', y @ x, x), monoidal.Swap(x, y),
              monoidal.Box('g', x, y, data=7).dagger()]
    doms = [monoidal.Ty(), x, x @ x, y @ x]
    rep = Report({'max_boxes': max_boxes, 'classes': 'monoidal, rigid (all laws); circuit, zx, tensor (sampled)',
                  'pairs': 'every diagram against the first 30, triples against the first 5',
                  'sums': 'pairs of parallel diagrams (<= 4 per hom-set) against 40 diagrams',
                  'slices': 'every k in [-n-2, n+2]'})
    D = list(common.gen_diagrams(doms, boxes, max_boxes))
    laws(rep, D, monoidal.Id, monoidal.Ty, shard, 'monoidal')
    sums(rep, D, shard, monoidal.Sum, 'monoidal')
    rx, ry = rigid.Ty('x'), rigid.Ty('y')
    rboxes = [rigid.Box('f', rx, rx), rigid.Box('m', rx @ rx.l, ry), rigid.Cup(rx, rx.r), rigid.Cap(rx.r, rx),
              rigid.Cup(rx.l, rx), rigid.Cap(rx, rx.l), rigid.Swap(rx, ry), rigid.Box('s', rigid.Ty(), rx)]
    R = list(common.gen_diagrams([rigid.Ty(), rx, rx @ rx.r, rx @ ry], rboxes, max_boxes, diagram=rigid.Diagram))
    laws(rep, R, rigid.Id, rigid.Ty, shard, 'rigid')
    sums(rep, R, shard, monoidal.Sum, 'rigid')
    if shard[0] == 0:
        bubbles(rep, D, 'monoidal')
        semantic(rep)
        tensor_values(rep)
        cqmap_values(rep)
    for d in D[:3] + R[:3]:
        rep.sample(repr(d))
    if shard[0] == 3 % shard[1]:
        catalogue_daggers(rep)
    return rep.result()


def tensor_values(rep):
    """the laws on the VALUES of the tensor class (discopy.tensor.Tensor overrides then / tensor / dagger / id), for shapes
    with different numbers of input and output wires and different dimensions"""
    import numpy
    from discopy.tensor import Tensor, Dim
    shapes = [((2,), (3, 2)), ((3, 2), (5,)), ((5,), (2, 2, 3)), ((), (2, 3)), ((2, 3), ()), ((2,), (2,)), ((3, 2), (2, 3)), ((), ())]
    vals = []
    for k, (a, b) in enumerate(shapes):
        n = int(numpy.prod(a + b)) if a + b else 1
        arr = (numpy.arange(1, n + 1) * (k + 1)) % 7 + 1j * ((numpy.arange(n) * 3 + k) % 5)
        vals.append(Tensor(Dim(*a), Dim(*b), arr))
    for t in vals:
        rt = repr(t)[:120]
        rep.case(('tensor value', rt), nontrivial=True)
        eq(rep, 'tensor_value.dagger.involutive', lambda: t.dagger().dagger(), lambda: t, rt)
        eq(rep, 'tensor_value.dagger.types', lambda: (t.dagger().dom, t.dagger().cod), lambda: (t.cod, t.dom), rt)
        eq(rep, 'tensor_value.then.unit', lambda: Tensor.id(t.dom) >> t, lambda: t, rt)
        eq(rep, 'tensor_value.then.unit', lambda: t >> Tensor.id(t.cod), lambda: t, rt)
        eq(rep, 'tensor_value.tensor.unit', lambda: Tensor.id(Dim(1)) @ t, lambda: t, rt)
        eq(rep, 'tensor_value.dagger.id', lambda: Tensor.id(t.dom).dagger(), lambda: Tensor.id(t.dom), rt)
        for u in vals:
            ru = rt + ' ; ' + repr(u)[:120]
            eq(rep, 'tensor_value.dagger.monoidal', lambda: (t @ u).dagger(), lambda: t.dagger() @ u.dagger(), ru)
            eq(rep, 'tensor_value.tensor.whisker', lambda: t @ u, lambda: t @ Tensor.id(u.dom) >> Tensor.id(t.cod) @ u, ru)
            if t.cod == u.dom:
                eq(rep, 'tensor_value.dagger.contravariant', lambda: (t >> u).dagger(), lambda: u.dagger() >> t.dagger(), ru)
                for w in vals:
                    if u.cod == w.dom:
                        eq(rep, 'tensor_value.then.assoc', lambda: (t >> u) >> w, lambda: t >> (u >> w), ru)


def cqmap_values(rep):
    """the dagger laws on classical-quantum maps (the values mixed circuits evaluate to), with different domain and codomain"""
    from discopy.quantum.cqmap import CQMap, CQ, C, Q
    from discopy.quantum import circuit as qc, gates
    from discopy.tensor import Dim
    vals = [CQMap.measure(Dim(2)), CQMap.encode(Dim(2)), CQMap.discard(Q(Dim(2))), CQMap.discard(C(Dim(2)) @ Q(Dim(2))),
            qc.Measure().eval(), (gates.Ket(0) >> gates.H >> qc.Measure(destructive=False)).eval(),
            (gates.H @ qc.Id(1) >> gates.CX >> qc.Measure() @ qc.Discard()).eval(), CQMap.id(C(Dim(2)) @ Q(Dim(2))),
            qc.Encode().eval()]
    for m in vals:
        rm = repr(m)[:140]
        rep.case(('cqmap value', rm), nontrivial=True)
        eq(rep, 'cqmap_value.dagger.types', lambda: (m.dagger().dom, m.dagger().cod), lambda: (m.cod, m.dom), rm)
        eq(rep, 'cqmap_value.dagger.involutive', lambda: m.dagger().dagger(), lambda: m, rm)
        eq(rep, 'cqmap_value.dagger.involutive.types', lambda: (m.dagger().dagger().dom, m.dagger().dagger().cod), lambda: (m.dom, m.cod), rm)
        for u in vals:
            if m.cod == u.dom:
                ru = rm + ' ; ' + repr(u)[:140]
                eq(rep, 'cqmap_value.dagger.contravariant', lambda: (m >> u).dagger(), lambda: u.dagger() >> m.dagger(), ru)
                eq(rep, 'cqmap_value.dagger.contravariant.types', lambda: ((m >> u).dagger().dom, (m >> u).dagger().cod), lambda: (u.cod, m.dom), ru)


def semantic(rep):
    """in the semantic subclasses a bare box is compared through the one-box diagram wrapping it"""
    from discopy.quantum import gates, circuit, zx
    from discopy import tensor
    H, X, CX, Rz = gates.H, gates.X, gates.CX, gates.Rz(0.25)
    C = [circuit.Id(1) >> H, circuit.Id(1) >> X, circuit.Id(1) >> Rz, circuit.Id(2) >> CX,
         gates.Ket(0) >> circuit.Id(1), H @ X, CX >> H @ X, gates.Bra(1) @ circuit.Id(0)]
    laws(rep, C, circuit.Id, circuit.Ty, (0, 1), 'circuit')
    Z = [zx.Id(1) >> zx.Z(1, 1, 0.25), zx.Id(1) >> zx.H, zx.Id(2) >> zx.SWAP, zx.Id(1) >> zx.X(1, 2),
         zx.Z(1, 2) >> zx.H @ zx.X(1, 1, 0.5)]
    laws(rep, Z, zx.Id, zx.PRO, (0, 1), 'zx')
    v = tensor.Box('v', tensor.Dim(1), tensor.Dim(2), [0, 1])
    m = tensor.Box('m', tensor.Dim(2), tensor.Dim(2), [0, 1, 1, 0])
    Tn = [tensor.Id(tensor.Dim(2)) >> m, tensor.Id(tensor.Dim(1)) >> v, v >> m, v @ v, m @ m]
    laws(rep, Tn, tensor.Id, tensor.Dim, (0, 1), 'tensor')
    # sums in the semantic classes: the laws hold and the result stays a sum of that class (it can still be evaluated)
    w = tensor.Box('w', tensor.Dim(1), tensor.Dim(2), [2, 3])
    for tag, f, g, h, k in (('tensor', v, w, m, v), ('circuit', circuit.Id(1) >> H, circuit.Id(1) >> X, circuit.Id(1) >> Rz, H),
                            ('zx', zx.Id(1) >> zx.Z(1, 1, 0.25), zx.Id(1) >> zx.H, zx.Id(1) >> zx.X(1, 1, 0.5), zx.H)):
        inp = '%s: %r + %r, %r, %r' % (tag, f, g, h, k)
        rep.case((tag, 'sum', inp))
        kind = type(f + g)
        eq(rep, 'sum.dagger', lambda: (f + g)[::-1], lambda: f[::-1] + g[::-1], inp)
        eq(rep, 'sum.then.left_operand', lambda: (f + g) >> h, lambda: (f >> h) + (g >> h), inp)
        eq(rep, 'sum.tensor.left_operand', lambda: (f + g) @ k, lambda: (f @ k) + (g @ k), inp)
        eq(rep, 'sum.tensor.right_operand', lambda: k @ (f + g), lambda: (k @ f) + (k @ g), inp)
        for nm, th in (('dagger', lambda: (f + g)[::-1]), ('then', lambda: (f + g) >> h), ('tensor', lambda: (f + g) @ k),
                       ('tensor.right', lambda: k @ (f + g)), ('zero.then', lambda: kind([], f.dom, f.cod) >> h)):
            eq(rep, 'sum.closed.' + nm, lambda: type(th()).__module__ + '.' + type(th()).__name__,
               lambda: kind.__module__ + '.' + kind.__name__, inp)
