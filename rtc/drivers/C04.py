"""C04 bounded stand-in: functoriality of cat / monoidal / rigid functors as `==` on enumerated
diagrams, with object images of length 0, 1 and 2 and box images that are composite diagrams,
given as dicts and as callables; rigid functors on adjoints, cups, caps and swaps."""
import itertools

from discopy import cat, monoidal, rigid
from rtc import common
from rtc.report import Report

SHARDED = True


def eq(rep, key, a, b, inp):
    rep.count(key)
    x, y = common.outcome(a), common.outcome(b)
    if x[0] != y[0] or (x[0] == 'ok' and not (x[1] == y[1])) or (x[0] == 'exc' and x[1] is not y[1]):
        rep.fail('C04:' + key, '%r vs %r' % (x, y), inp)


def monoidal_functors():
    from discopy.monoidal import Ty, Box, Id, Functor, Swap
    x, y = Ty('x'), Ty('y')
    obs = [{x: x @ y, y: Ty()}, {x: y, y: x @ x}, {x: x, y: y}]
    out = []
    for ob in obs:
        F0 = Functor(ob, {})

        def image(b, F0=F0):
            base = b.dagger() if b.is_dagger else b
            dom, cod = F0(base.dom), F0(base.cod)
            u = Box('u' + str(base.name), dom, x @ cod)
            v = Box('v' + str(base.name), x, Ty())
            return u >> v @ Id(cod)       # a composite image, two boxes
        ar = Functor(ob, image)       # callable
        out.append(('callable', ob, image))
    return out


def check_monoidal(rep, D, shard):
    from discopy.monoidal import Ty, Box, Id, Functor, Swap
    for kind, ob, image in monoidal_functors():
        gens = {b if not b.is_dagger else b.dagger() for d in D for b in d.boxes if not isinstance(b, Swap)}
        table = {b: image(b) for b in gens}
        for F, tag in ((Functor(ob, image), 'callable'), (Functor(ob, table), 'dict'),
                       (Functor(lambda t: ob[t], image), 'callable-ob')):
            for idx, d in enumerate(D):
                if idx % shard[1] != shard[0]:
                    continue
                inp = 'monoidal %s ob=%r: %r' % (tag, ob, d)
                rep.case((tag, repr(ob), repr(d)), nontrivial=len(d) > 0)
                img = common.outcome(F, d)
                if img[0] != 'ok':
                    rep.fail('C04:functor.raises', 'F(d) raised %r' % (img[1],), inp)
                    continue
                img = img[1]
                why = common.wf_reason(img)
                if why:
                    rep.fail('C01:functor.wf', why, inp)
                if (img.dom, img.cod) != (F(d.dom), F(d.cod)):
                    rep.fail('C04:dom_cod', 'image has type %r -> %r' % (img.dom, img.cod), inp)
                eq(rep, 'dagger', lambda: F(d[::-1]), lambda: F(d)[::-1], inp)
                eq(rep, 'id', lambda: F(Id(d.dom)), lambda: Id(F(d.dom)), inp)
                # the empty formal sum (zero morphism) of d's hom-set is sent to the zero of the image hom-set
                from discopy.monoidal import Sum as _Sum
                eq(rep, 'sum.zero', lambda: F(_Sum([], d.dom, d.cod)), lambda: _Sum([], F(d.dom), F(d.cod)), inp)
                eq(rep, 'sum.zero.dom', lambda: F(_Sum([], d.dom, d.cod)).dom, lambda: F(d.dom), inp)
                eq(rep, 'sum.zero.cod', lambda: F(_Sum([], d.dom, d.cod)).cod, lambda: F(d.cod), inp)
                # sums of one, two and three terms: the image is the formal sum of the images (a Sum, term by term)
                for nterms in (1, 2, 3):
                    want_terms = [img] * nterms
                    got = common.outcome(lambda: F(_Sum([d] * nterms)))
                    rep.count('sum.terms')
                    if got[0] != 'ok' or not isinstance(got[1], _Sum) or list(got[1].terms) != want_terms \
                            or (got[1].dom, got[1].cod) != (img.dom, img.cod):
                        rep.fail('C04:sum.terms', 'image of a %d-term sum is %r' % (nterms, got[1],), inp)
                # a bubble with declared types: the image is the bubble of the image, typed by the images of the types
                # (also when such an image is the empty type)
                if idx < 12:
                    for bdom, bcod in ((d.dom, d.cod), (d.cod, d.dom), (d.dom @ d.dom, Ty()), (Ty('y'), d.cod)):
                        bub = d.bubble(dom=bdom, cod=bcod)
                        got = common.outcome(lambda: F(bub))
                        rep.count('bubble.types')
                        if got[0] != 'ok':
                            rep.fail('C04:bubble.raises', 'F(bubble) raised %r' % (got[1],), inp + ' bubble %r -> %r' % (bdom, bcod))
                        elif (got[1].dom, got[1].cod) != (F(bdom), F(bcod)) or getattr(got[1], 'inside', None) != img:
                            rep.fail('C04:bubble.types', 'F(bubble : %r -> %r) is %r : %r -> %r' % (
                                bdom, bcod, got[1], got[1].dom, got[1].cod), inp)
                for k in range(len(d) + 1):
                    eq(rep, 'slice', lambda: F(d[:k]) >> F(d[k:]), lambda: img, inp + ' at %d' % k)
                # reversed slices with bounds: the image of d[i:j:-1] is the dagger of the image of the forward slice
                for i_ in range(len(d)):
                    for j_ in [None] + list(range(-1, i_)):
                        if j_ == -1:
                            continue        # a stop of -1 means "one before the end" in Python: another slice
                        lo = 0 if j_ is None else j_ + 1
                        eq(rep, 'slice.reversed', lambda: F(d[i_:j_:-1]), lambda: F(d[lo:i_ + 1])[::-1], inp + ' [%r:%r:-1]' % (i_, j_))
                for e in D[:25]:
                    eq(rep, 'tensor', lambda: F(d @ e), lambda: F(d) @ F(e), inp + ' ; %r' % (e,))
                    if d.cod == e.dom:
                        eq(rep, 'then', lambda: F(d >> e), lambda: F(d) >> F(e), inp + ' ; %r' % (e,))
                    if (d.dom, d.cod) == (e.dom, e.cod):
                        eq(rep, 'sum', lambda: F(d + e), lambda: F(d) + F(e), inp + ' ; %r' % (e,))
        rep.sample('monoidal functor ob=%r on %d diagrams' % (ob, len(D)))


def check_swap_dagger(rep):
    """F(Swap(x, y)[::-1]) == F(Swap(x, y))[::-1] for object images of every pair of lengths 0..3 (monoidal and rigid)"""
    from discopy import monoidal, rigid
    for mod in (monoidal, rigid):
        Ty, Swap, Functor = mod.Ty, mod.Swap, mod.Functor
        x, y = Ty('x'), Ty('y')
        atoms = [Ty(n) for n in 'abcdef']
        for lx in range(4):
            for ly in range(4):
                ix = Ty().tensor(*atoms[:lx]) if lx else Ty()
                iy = Ty().tensor(*atoms[3:3 + ly]) if ly else Ty()
                F = Functor({x: ix, y: iy}, {})
                s_ = Swap(x, y)
                inp = '%s: Functor({x: %r, y: %r}, {}) on Swap(x, y)' % (mod.__name__.split('.')[-1], ix, iy)
                rep.case(inp)
                a, b = common.outcome(lambda: F(s_[::-1])), common.outcome(lambda: F(s_)[::-1])
                rep.count('swap.dagger')
                if a[0] != 'ok' or b[0] != 'ok':
                    rep.fail('C04:swap.dagger.raises', '%r / %r' % (a, b), inp)
                elif a[1] != b[1]:
                    # known finding F27 when both images have >= 2 wires (the two sides then differ by interchangers)
                    same_up_to = (a[1].dom, a[1].cod, sorted(map(repr, a[1].boxes))) == (b[1].dom, b[1].cod, sorted(map(repr, b[1].boxes)))
                    key = 'C04:swap.dagger.long_images' if lx >= 2 and ly >= 2 and same_up_to else 'C04:swap.dagger'
                    rep.fail(key, 'F(s[::-1]) = %r but F(s)[::-1] = %r' % (a[1], b[1]), inp)


def check_cat(rep):
    x, y, z = cat.Ob('x'), cat.Ob('y'), cat.Ob('z')
    f, g, h = cat.Box('f', x, y), cat.Box('g', y, z), cat.Box('h', z, x)
    ob = {x: z, y: y, z: x}
    ar = {f: g[::-1], g: f[::-1], h: h[::-1] >> h >> h[::-1]}
    arrows = [cat.Id(x), f, f >> g, f >> g >> h, (f >> g)[::-1], f >> f[::-1], h >> f]
    for F, tag in ((cat.Functor(ob, ar), 'dict'), (cat.Functor(lambda o: ob[o], lambda b: ar[b]), 'callable')):
        for a in arrows:
            inp = 'cat %s: %r' % (tag, a)
            rep.case(inp)
            eq(rep, 'cat.dom', lambda: F(a).dom, lambda: F(a.dom), inp)
            eq(rep, 'cat.cod', lambda: F(a).cod, lambda: F(a.cod), inp)
            eq(rep, 'cat.dagger', lambda: F(a[::-1]), lambda: F(a)[::-1], inp)
            for b in arrows:
                if a.cod == b.dom:
                    eq(rep, 'cat.then', lambda: F(a >> b), lambda: F(a) >> F(b), inp + ' ; %r' % (b,))
                if (a.dom, a.cod) == (b.dom, b.cod):
                    eq(rep, 'cat.sum', lambda: F(a + b), lambda: F(a) + F(b), inp + ' ; %r' % (b,))
            eq(rep, 'cat.bubble', lambda: F(a.bubble()), lambda: F(a).bubble(), inp)
            eq(rep, 'cat.sum.zero', lambda: F(cat.Sum([], a.dom, a.cod)), lambda: cat.Sum([], F(a.dom), F(a.cod)), inp)


def check_rigid(rep, shard):
    from discopy.rigid import Ty, Box, Id, Cup, Cap, Swap, Functor, Diagram
    x, y = Ty('x'), Ty('y')
    obs = [{x: x @ y, y: Ty()}, {x: y.l, y: x @ y.r}, {x: Ty(), y: y @ y}]
    types = [Ty(), x, x.l, x.r, x.r.r, x.l.l, x @ y, x.l @ y.r, (x @ y).l, (x @ y.r).r.r]
    f = Box('f', x @ y.l, y)
    for ob in obs:
        F0 = Functor(ob, {})
        img_f = Box('Ff', F0(f.dom), F0(f.cod))
        F = Functor(ob, {f: img_f})
        for t in types:
            inp = 'rigid ob=%r: %r' % (ob, t)
            rep.case(inp)
            eq(rep, 'rigid.adjoint.l', lambda: F(t.l), lambda: F(t).l, inp)
            eq(rep, 'rigid.adjoint.r', lambda: F(t.r), lambda: F(t).r, inp)
            for u in types[:6]:
                eq(rep, 'rigid.ty_hom', lambda: F(t @ u), lambda: F(t) @ F(u), inp + ' @ %r' % (u,))
        for t in [x, y, x.l, y.r, x.r.r]:
            inp = 'rigid ob=%r: cups/caps on %r' % (ob, t)
            rep.case(inp)
            eq(rep, 'rigid.cup', lambda: F(Cup(t, t.r)), lambda: Diagram.cups(F(t), F(t.r)), inp)
            eq(rep, 'rigid.cup.l', lambda: F(Cup(t.l, t)), lambda: Diagram.cups(F(t.l), F(t)), inp)
            eq(rep, 'rigid.cap', lambda: F(Cap(t, t.l)), lambda: Diagram.caps(F(t), F(t.l)), inp)
            eq(rep, 'rigid.cap.r', lambda: F(Cap(t.r, t)), lambda: Diagram.caps(F(t.r), F(t)), inp)
            for u in [x, y.l]:
                eq(rep, 'rigid.swap', lambda: F(Swap(t, u)), lambda: Diagram.swap(F(t), F(u)), inp + ' swap %r' % (u,))
        diagrams = [f, f.dagger(), Id(x.r) @ f, f.transpose(), f.transpose(left=True),
                    Cap(x, x.l) @ Id(x) >> Id(x) @ Cup(x.l, x), Id(x @ y.l).transpose()]
        for d in diagrams:
            inp = 'rigid ob=%r: %r' % (ob, d)
            rep.case(inp)
            img = common.outcome(F, d)
            if img[0] != 'ok':
                rep.fail('C04:rigid.raises', 'F(d) raised %r' % (img[1],), inp)
                continue
            why = common.wf_reason(img[1])
            if why:
                rep.fail('C01:rigid.functor.wf', why, inp)
            eq(rep, 'rigid.dom', lambda: img[1].dom, lambda: F(d.dom), inp)
            eq(rep, 'rigid.cod', lambda: img[1].cod, lambda: F(d.cod), inp)
            eq(rep, 'rigid.dagger', lambda: F(d[::-1]), lambda: img[1][::-1], inp)
            from discopy.monoidal import Sum as _Sum
            eq(rep, 'rigid.sum.zero', lambda: F(_Sum([], d.dom, d.cod)), lambda: _Sum([], F(d.dom), F(d.cod)), inp)
            eq(rep, 'rigid.sum', lambda: F(d + d), lambda: F(d) + F(d), inp)
            for e in diagrams:
                eq(rep, 'rigid.tensor', lambda: F(d @ e), lambda: F(d) @ F(e), inp + ' ; %r' % (e,))
                if d.cod == e.dom:
                    eq(rep, 'rigid.then', lambda: F(d >> e), lambda: F(d) >> F(e), inp + ' ; %r' % (e,))


def check_tensor_functor_types(rep):
    """the rigid functors of the tensor class (objects to lists of dimensions): adjoint types go to the adjoints of the
    images (the reversed list) for every winding number, tensors of types to the concatenation"""
    from discopy import tensor
    Dim = tensor.Dim
    x, y = rigid.Ty('x'), rigid.Ty('y')
    for images in ({x: Dim(2, 3), y: Dim(5)}, {x: Dim(2, 3, 4), y: Dim(3, 2)}, {x: Dim(2), y: Dim()}):
        F = tensor.Functor(images, {})
        for t in (x, y, x @ y, y @ x @ x):
            want = [n for o in t for n in images[rigid.Ty(o)]]
            variants = {'t': (t, want), 't.l': (t.l, want[::-1]), 't.r': (t.r, want[::-1]), 't.l.l': (t.l.l, want), 't.r.r': (t.r.r, want),
                        't.l.l.l': (t.l.l.l, want[::-1]), 't.r.r.r': (t.r.r.r, want[::-1]), 't.l.r': (t.l.r, want), 't @ t.r.r': (t @ t.r.r, want + want),
                        't.l @ t.r.r': (t.l @ t.r.r, want[::-1] + want)}
            for nm, (ty, dims) in variants.items():
                inp = 'tensor.Functor(%r) on %s with t = %r' % (images, nm, t)
                rep.case(('tensor functor type', inp))
                got = common.outcome(lambda: list(F(ty)))
                if got != ('ok', dims):
                    rep.fail('C04:tensor.adjoint_types', 'F(%s) = %r, expected the dimensions %r' % (nm, got, dims), inp)


def run(tier, seed=0, shard=(0, 1)):
    from discopy.monoidal import Ty, Box, Swap
    max_boxes = 2 if tier == 'quick' else 3
    x, y = Ty('x'), Ty('y')
    f, g, s, e = Box('f', x, y @ x), Box('g', y, x), Box('s', Ty(), y), Box('e', x @ y, Ty())
    boxes = [f, g, s, e, f.dagger(), g.dagger(), Swap(x, y)]
    D = list(common.gen_diagrams([Ty(), x, x @ y], boxes, max_boxes))
    rep = Report({'monoidal': 'all diagrams <= %d boxes over 7 boxes (daggers, a swap) x 3 object maps (images of length '
                              '0, 1, 2) x (dict, callable, callable objects); pairs against the first 25' % max_boxes,
                  'rigid': '3 object maps on 10 types with adjoints |z| <= 2, cups/caps/swaps on 5 atomic types, 7 diagrams',
                  'cat': '7 arrows, dict and callable'})
    check_monoidal(rep, D, shard)
    if shard[0] == 0:
        check_cat(rep)
    if shard[0] == 1 % shard[1]:
        check_rigid(rep, shard)
    if shard[0] == 2 % shard[1]:
        check_swap_dagger(rep)
    if shard[0] == 3 % shard[1]:
        check_tensor_functor_types(rep)
    return rep.result()
