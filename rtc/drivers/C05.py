"""C05 bounded stand-in / replay: the real interchange against the native twin of its contract,
the representation invariant, an independent connectedness oracle and a tensor-functor semantics."""
import random

import numpy

from discopy import monoidal, tensor
from discopy.rewriting import InterchangerError
from rtc import common
from rtc.report import Report


def spans(d, i):
    off0, off1 = d.offsets[i], d.offsets[i + 1]
    b0, b1 = d.boxes[i], d.boxes[i + 1]
    return set(range(off0, off0 + len(b0.cod))), set(range(off1, off1 + len(b1.dom))), off0, off1, b0, b1


def wired_adjacent(d, i):
    """boxes i and i+1 share a wire (independent oracle, from the scan)"""
    out0, in1, *_ = spans(d, i)
    return bool(out0 & in1)


def enclosed_adjacent(d, i):
    """no shared wire, yet the boxes cannot pass each other in the plane: a box without outputs strictly between the
    inputs of the next one, or a box without inputs strictly between the outputs of the previous one"""
    out0, in1, off0, off1, b0, b1 = spans(d, i)
    if out0 & in1:
        return False
    return (not out0 and off1 < off0 < off1 + len(b1.dom)) or (not in1 and off0 < off1 < off0 + len(b0.cod))


def wire_sets(d):
    """global wire identities: for every box the sets of wires it consumes and produces"""
    scan = list(range(len(d.dom)))
    fresh = len(scan)
    ins, outs = [], []
    for box, off in zip(d.boxes, d.offsets):
        ins.append(set(scan[off:off + len(box.dom)]))
        new = list(range(fresh, fresh + len(box.cod)))
        fresh += len(box.cod)
        outs.append(set(new))
        scan = scan[:off] + new + scan[off + len(box.dom):]
    return ins, outs


def wired_on_the_way(d, i, j):
    """some box strictly on the way from position i to position j (j included) shares a wire with box i"""
    ins, outs = wire_sets(d)
    way = range(i + 1, j + 1) if j > i else range(j, i)
    return any((outs[i] & ins[k]) or (ins[i] & outs[k]) for k in way)


def trapped_step(d, i, j, left):
    """replay a refused distant move one adjacent step at a time: True iff the step that is refused is a pair of boxes that
    share no wire but enclose one another (the planar obstruction of known finding F24)"""
    cur, pos = d, i
    step = 1 if j > i else -1
    while pos != j:
        lo = min(pos, pos + step)
        got = common.outcome(cur.interchange, pos, pos + step, left=left)
        if got[0] != 'ok':
            return got == ('exc', InterchangerError) and enclosed_adjacent(cur, lo)
        cur, pos = got[1], pos + step
    return False


def make_functor(boxes, seed):
    rng = numpy.random.RandomState(seed)
    ar = {}
    for b in boxes:
        shape = (2,) * (len(b.dom) + len(b.cod))
        ar[b] = rng.randint(-3, 4, size=shape or (1,)).astype(float)
    obs = {o for b in boxes for o in list(b.dom) + list(b.cod)}
    F = tensor.Functor({monoidal.Ty(o): 2 for o in obs}, ar)
    cache = {}

    def cached(d):
        k = id(d)
        if k not in cache:
            cache.clear()
            cache[k] = (d, F(d).array)
        return cache[k][1]
    F.cached = cached
    return F


def check_one(rep, d, i, j, left, spec, F):
    key_in = (repr(d), i, j, left)
    n = len(d)
    real = common.outcome(d.interchange, i, j, left=left)
    want = common.outcome(spec, d, i, j, left)
    rep.case(key_in, nontrivial=(0 <= i < n and 0 <= j < n and i != j))
    inp = 'd=%r; d.interchange(%d, %d, left=%r)' % (d, i, j, left)
    if not (0 <= i < n and 0 <= j < n):
        if real != ('exc', IndexError):
            rep.fail('C05:index_error', 'out-of-range indices must raise IndexError, got %r' % (real,), inp)
        return
    if real[0] == 'exc' and real[1] is not InterchangerError:
        rep.fail('C05:refusal.kind', 'inside the range the only refusal is InterchangerError, got %r' % (real[1],), inp)
        return
    if real[0] != want[0] or (real[0] == 'exc' and real[1] is not want[1]):
        rep.fail('C05:contract.outcome', 'real %r vs contract %r' % (real, want), inp)
        return
    # from the property statement: refused with an interchanger error exactly when some box on the way is wired to the
    # moving box (independent wire-tracking oracle)
    if i != j:
        refused = real == ('exc', InterchangerError)
        wired = wired_on_the_way(d, i, j)
        if wired and not refused:
            rep.fail('C05:accepted.wired', 'the move was performed although a box on the way is wired to the moving box', inp)
        if refused and not wired:
            planar = enclosed_adjacent(d, min(i, j)) if abs(i - j) == 1 else trapped_step(d, i, j, left)
            # known finding F24 when the refusal is the planar obstruction and nothing else
            rep.fail('C05:refused.unwired.enclosed' if planar else 'C05:refused.unwired',
                     'refused although no box on the way shares a wire with the moving box', inp)
    if real[0] == 'exc':
        rep.count('refused')
        return
    r = real[1]
    why = common.wf_reason(r)
    if why:
        rep.fail('C01:interchange.wf', why, inp)
    if (r.dom, r.cod) != (d.dom, d.cod):
        rep.fail('C05:dom_cod', 'dom/cod changed', inp)
    if not common.same_diagram(r, want[1]):
        rep.fail('C05:contract.result', 'result differs from the contract: %r vs %r' % (r, want[1]), inp)
    expected = list(d.boxes)
    expected.insert(j, expected.pop(i))
    if r.boxes != expected:
        rep.fail('C05:box_order', 'boxes %r, expected %r' % (r.boxes, expected), inp)
    if F is not None and abs(i - j) == 1 and not numpy.allclose(F(r).array, F.cached(d)):
        rep.fail('C05:semantics', 'tensor functor distinguishes the result from the input', inp)
    rep.count('moved')


SHARDED = True


def run(tier, seed=0, shard=(0, 1)):
    max_boxes = 3 if tier == 'quick' else 4
    x, y = monoidal.Ty('x'), monoidal.Ty('y')
    boxes = common.signature(('x',), arities=((0, 0), (0, 1), (1, 0), (1, 1), (1, 2), (2, 1)))
    boxes += [monoidal.Box('g', x, y), monoidal.Box('h', y @ x, x)]
    doms = [monoidal.Ty(), x, x @ x] if tier == 'quick' else [monoidal.Ty(), x, x @ x, x @ y]
    rep = Report({'max_boxes': max_boxes, 'max_width': 4, 'boxes': [repr(b) for b in boxes],
                  'doms': [repr(t) for t in doms], 'indices': 'all i, j in [-1, n]', 'left': [False, True]})
    spec = common.native_spec('rewriting.interchange')
    F = make_functor(boxes, seed)
    for idx, d in enumerate(common.gen_diagrams(doms, boxes, max_boxes)):
        n = len(d)
        if n < 2 or idx % shard[1] != shard[0]:
            continue
        for i in range(-1, n + 1):
            for j in range(-1, n + 1):
                for left in (False, True):
                    check_one(rep, d, i, j, left, spec, F)
        rep.sample('%r: all (i, j, left)' % (d,))
    if shard[0] == 0:
        check_special_receivers(rep, spec)
    return rep.result()


def check_special_receivers(rep, spec):
    """"for all diagrams": receivers whose boxes are themselves diagrams (foliations) and instances of diagram subclasses
    with their own constructors; every (i, j, left): the outcome is a diagram of the same dom / cod with the moved box in
    place, or InterchangerError exactly when the contract (verified for all diagrams) refuses, or IndexError out of range"""
    from discopy import cartesian, rigid
    from discopy.quantum import circuit as qc, gates
    x, y = monoidal.Ty('x'), monoidal.Ty('y')
    f, g = monoidal.Box('f', x, x @ x), monoidal.Box('g', x @ x, x)
    s_, e_ = monoidal.Box('s', monoidal.Ty(), y), monoidal.Box('e', y, monoidal.Ty())
    layered = [(f @ s_ >> g @ monoidal.Id(y) >> monoidal.Id(x) @ e_).foliation(),
               (s_ @ f >> monoidal.Id(y) @ g >> e_ @ monoidal.Id(x) >> f).foliation(),
               (f @ f >> g @ g >> f @ s_ @ monoidal.Id(x)).foliation()]
    add = cartesian.Box('add', 2, 1, lambda a, b: a + b)
    special = [cartesian.Copy(2), cartesian.Copy(3), cartesian.Swap(2, 1), cartesian.Discard(2),
               cartesian.Copy(2) >> add @ add, qc.IQPansatz(3, [[0.1, 0.2]]), qc.IQPansatz(2, [[0.3], [0.4]]),
               rigid.Diagram.cups(rigid.Ty('a', 'b'), rigid.Ty('a', 'b').r), gates.Ket(0, 1) >> gates.CX >> gates.H @ gates.X]
    # receivers obtained by slicing and by dagger (their lists of boxes are built differently from those of >> and @)
    base = f @ s_ >> g @ monoidal.Id(y) >> monoidal.Id(x) @ e_ >> f
    wide = f @ f @ monoidal.Box('k', y, y)
    derived = [wide[::-1], wide[:2], wide[1:], (wide >> wide[::-1])[1:5], base[::-1], base[1:3], base[::-1][1:], wide[2:0:-1]]
    # receivers that went through downgrade (boxes of a semantic class rebuilt as plain boxes: the layers must hold the
    # rebuilt boxes too), as whole diagrams and box by box
    from discopy import tensor as _tensor
    D2 = _tensor.Dim(2)
    ta, tb_, tc = _tensor.Box('a', _tensor.Dim(1), D2, [1, 2]), _tensor.Box('b', D2, D2 @ D2, list(range(8))), \
        _tensor.Box('c', D2, _tensor.Dim(1), [3, 4])
    tsc = _tensor.Box('s', _tensor.Dim(1), _tensor.Dim(1), [5])
    tdiag = ta @ tsc @ ta >> tb_ @ tc
    cdiag = gates.Ket(0) @ gates.Ket(1) >> gates.H @ gates.X >> gates.Bra(0) @ qc.Id(1)
    downgraded = [tdiag.downgrade(), cdiag.downgrade(), tdiag.downgrade()[::-1], tdiag.downgrade()[1:],
                  ta.downgrade() @ tsc.downgrade() @ ta.downgrade() >> tb_.downgrade() @ tc.downgrade(),
                  gates.Ket(0).downgrade() @ gates.Ket(1).downgrade() >> gates.H.downgrade() @ gates.X.downgrade()]
    for d in layered + special + derived + downgraded:
        n = len(d)
        for i in range(-1, n + 1):
            for j in range(-1, n + 1):
                for left in (False, True):
                    inp = 'd=%r (%s); d.interchange(%d, %d, left=%r)' % (d, type(d).__name__, i, j, left)
                    rep.case(('special', repr(d), i, j, left), nontrivial=(0 <= i < n and 0 <= j < n and i != j))
                    real = common.outcome(d.interchange, i, j, left=left)
                    if not (0 <= i < n and 0 <= j < n):
                        if real != ('exc', IndexError):
                            rep.fail('C05:index_error', 'out-of-range indices must raise IndexError, got %r' % (real,), inp)
                        continue
                    if real[0] == 'exc' and real[1] is not InterchangerError:
                        rep.fail('C05:refusal.kind', 'inside the range the only refusal is InterchangerError, got %r' % (real[1],), inp)
                        continue
                    want = common.outcome(spec, d, i, j, left)
                    if real[0] != want[0] or (real[0] == 'exc' and real[1] is not want[1]):
                        rep.fail('C05:contract.outcome', 'real %r vs contract %r' % (real, want), inp)
                        continue
                    if real[0] == 'exc':
                        continue
                    r = real[1]
                    why = common.wf_reason(r)
                    if why:
                        rep.fail('C01:interchange.wf', why, inp)
                    expected = list(d.boxes)
                    expected.insert(j, expected.pop(i))
                    if (r.dom, r.cod) != (d.dom, d.cod) or r.boxes != expected or [type(b) for b in r.boxes] != [type(b) for b in expected] \
                            or [type(tuple(l)[1]) for l in r.layers.boxes] != [type(b) for b in expected]:
                        rep.fail('C05:box_order', 'dom / cod / boxes of the result: %r' % (r,), inp)
