"""C06 bounded stand-in: normal_form / normalize / foliation on every diagram up to a size bound,
against the interchanger-equivalence class computed by breadth-first closure under the REAL
single-step interchange (both flags): soundness, legality of each yielded step, idempotence,
canonicity on connected diagrams, NotImplementedError only for disconnected diagrams."""
import itertools

from discopy import monoidal
from discopy.rewriting import InterchangerError
from rtc import common
from rtc.report import Report

SHARDED = True


def key(d):
    return (tuple(repr(b) for b in d.boxes), tuple(d.offsets))


def neighbours(d):
    out = {}
    for i in range(len(d) - 1):
        for left in (False, True):
            try:
                e = d.interchange(i, i + 1, left=left)
            except InterchangerError:
                continue
            out[key(e)] = e
    return out


def eq_class(d, limit=400):
    seen = {key(d): d}
    todo = [d]
    while todo and len(seen) < limit:
        cur = todo.pop()
        for k, e in neighbours(cur).items():
            if k not in seen:
                seen[k] = e
                todo.append(e)
    return seen


def connected(d):
    """all boxes connected to one another through wires (boundary wires do not connect)"""
    n = len(d)
    if n <= 1:
        return True
    parent = list(range(n))

    def find(a):
        while parent[a] != a:
            parent[a] = parent[parent[a]]
            a = parent[a]
        return a
    scan = [None] * len(d.dom)
    for k, (box, off) in enumerate(zip(d.boxes, d.offsets)):
        for w in scan[off:off + len(box.dom)]:
            if w is not None:
                parent[find(w)] = find(k)
        scan = scan[:off] + [k] * len(box.cod) + scan[off + len(box.dom):]
    return len({find(a) for a in range(n)}) == 1


class StopShard(Exception):
    """a hang was observed and reported: the rest of this shard is not explored (every further disconnected diagram
    would cost the full budget again)"""


def nf(d, left):
    """normal_form with a 30 s budget (a diagram of this size takes well under a millisecond)"""
    try:
        with common.time_limit(30):
            return ('ok', monoidal.Diagram.normal_form(d, left=left))
    except NotImplementedError:
        return ('notimpl', None)
    except common.Hang:
        return ('hang', None)


def check(rep, d):
    r = repr(d)
    rep.case(r, nontrivial=len(d) >= 2)
    cls = eq_class(d)
    conn = connected(d)
    for left in (False, True):
        tag = 'left' if left else 'right'
        res = nf(d, left)
        if res[0] == 'hang':
            rep.fail('C06:normal_form.terminates', 'normal_form(left=%r) neither returned nor raised NotImplementedError '
                     'within 30 s (%s diagram); the rest of this shard was not explored'
                     % (left, 'connected' if conn else 'disconnected'), r)
            raise StopShard()
        if res[0] == 'notimpl':
            rep.count('notimplemented')
            if conn:
                rep.fail('C06:terminates_on_connected', 'NotImplementedError on a connected diagram (%s)' % tag, r)
            continue
        n = res[1]
        if common.wf_reason(n):
            rep.fail('C01:normal_form.wf', common.wf_reason(n), r)
        if key(n) not in cls:
            rep.fail('C06:nf.reachable', '%s normal form is not reachable by interchanges' % tag, r)
        again = nf(n, left)
        if again[0] != 'ok' or again[1] != n:
            rep.fail('C06:nf.idempotent', '%s normal form is not a fixed point' % tag, r)
        # every yielded step is one legal interchange of its predecessor
        prev = d
        try:
            k = -1
            for k, step in enumerate(monoidal.Diagram.normalize(d, left=left)):
                if key(step) not in neighbours(prev):
                    rep.fail('C06:normalize.step_legal', 'step %d is not a single interchange of its predecessor' % k, r)
                    break
                prev = step
                if k > 60:
                    break
            else:
                # the trace is finite: it ends at the normal form, and the normal form has no move left in this direction
                if prev != n:
                    rep.fail('C06:nf.is_end_of_trace', 'normal_form(left=%r) is not the last diagram yielded by '
                             'normalize(left=%r)' % (left, left), r)
                if list(itertools.islice(monoidal.Diagram.normalize(n, left=left), 1)):
                    rep.fail('C06:nf.no_move_left', 'normalize(left=%r) still rewrites the %s normal form' % (left, tag), r)
        except InterchangerError:
            rep.fail('C06:normalize.no_interchanger_error', 'normalize raised InterchangerError', r)
        if conn:
            for k2, e in list(cls.items())[:12]:
                other = nf(e, left)
                if other[0] != 'ok' or other[1] != n:
                    rep.fail('C06:nf.canonical', '%s normal form differs inside the interchanger class' % tag,
                             r + ' vs %r' % (e,))
                    break
    # foliation: flattening gives a member of the class; slices compose back
    try:
        *_, last = list(d.foliate()) or [d]
        if key(last) not in cls:
            rep.fail('C06:foliate.reachable', 'last foliation step is not in the interchanger class', r)
        fol = d.foliation()
        if fol.flatten() != last:
            rep.fail('C06:foliation.flatten', 'foliation().flatten() differs from the last foliate step', r)
        if d.depth() != len(fol):
            rep.fail('C06:depth', 'depth differs from the number of slices', r)
    except InterchangerError:
        rep.fail('C06:foliate.no_interchanger_error', 'foliate raised InterchangerError', r)


def check_rigid(rep):
    """rigid diagrams: with the interchanger-only normaliser passed explicitly the normal form is reached by interchanges
    alone (caps and cups stay); with the default one (snake removal first, C07) the result is a fixed point for the
    requested side and is the normal form of the same diagram written without the snake"""
    from discopy import rigid
    from collections import Counter
    Ty, Box, Id, Cup, Cap = rigid.Ty, rigid.Box, rigid.Id, rigid.Cup, rigid.Cap
    n = Ty('n')
    snakes = {'left snake': Cap(n, n.l) @ Id(n) >> Id(n) @ Cup(n.l, n), 'right snake': Id(n) @ Cap(n.r, n) >> Cup(n, n.r) @ Id(n),
              'none': Id(n)}
    a, h = Box('a', Ty(), n @ n), Box('h', n @ n, Ty())
    f, g, k = Box('f', n, n), Box('g', n, n), Box('k', n, n @ n)
    members = {}
    for name, sn in snakes.items():
        members[name] = [a >> sn @ Id(n) >> f @ g >> h, a >> Id(n) @ sn >> Id(n) @ g >> f @ Id(n) >> h,
                         a >> f @ Id(n) >> sn @ g >> h, a >> sn @ sn >> Id(n) @ g >> f @ Id(n) >> Id(n) @ f >> h,
                         a >> f @ g >> sn @ Id(n) >> Id(n) @ g >> h]
    for name, ds in members.items():
        for idx, d in enumerate(ds):
            r = '%s: %r' % (name, d)
            rep.case(('rigid', r))
            for left in (False, True):
                tag = 'left' if left else 'right'
                # (1) interchanges alone when asked for
                try:
                    with common.time_limit(30):
                        got = d.normal_form(normalizer=monoidal.Diagram.normalize, left=left)
                        want = monoidal.Diagram.normal_form(d, left=left)
                except Exception as e:      # noqa
                    rep.fail('C06:rigid.no_exception', 'normal_form(normalizer=monoidal.Diagram.normalize) raised %r' % (e,), r)
                    continue
                if Counter(map(repr, got.boxes)) != Counter(map(repr, d.boxes)):
                    rep.fail('C06:rigid.same_boxes', '%s normal form with the interchanger-only normaliser has other boxes: %r' % (tag, got), r)
                elif got != want or (len(d) <= 7 and key(got) not in eq_class(d, limit=4000)):
                    rep.fail('C06:rigid.reachable', '%s normal form with the interchanger-only normaliser is not the monoidal normal form' % tag, r)
                # (2) default normaliser: fixed point on the requested side, equal to the normal form without the snake
                try:
                    with common.time_limit(30):
                        nfd = d.normal_form(left=left)
                        again = nfd.normal_form(left=left)
                        plain = members['none'][idx].normal_form(left=left)
                        plain_m = monoidal.Diagram.normal_form(members['none'][idx], left=left)
                except Exception as e:      # noqa
                    rep.fail('C06:rigid.no_exception', 'normal_form(left=%r) raised %r' % (left, e), r)
                    continue
                if again != nfd:
                    rep.fail('C06:nf.idempotent', '%s normal form of a rigid diagram is not a fixed point' % tag, r)
                if list(itertools.islice(monoidal.Diagram.normalize(nfd, left=left), 1)):
                    rep.fail('C06:nf.no_move_left', 'normalize(left=%r) still rewrites the %s normal form of a rigid diagram' % (left, tag), r)
                if nfd != plain or plain != plain_m:
                    rep.fail('C06:nf.canonical', '%s normal form differs from that of the same diagram without the snake' % tag, r)


def check_loops(rep):
    """rigid diagrams over a self-adjoint wire type (PRO(1)): a cap closed by a cup on the same two wires is a loop, not a
    snake; the normal form is reached by interchanges alone, so it keeps every box"""
    from discopy import rigid
    from collections import Counter
    p = rigid.PRO(1)
    Box, Id, Cup, Cap = rigid.Box, rigid.Id, rigid.Cup, rigid.Cap
    a, e = Box('a', p, p), Box('e', p, rigid.PRO(0))
    loops = [Cap(p, p) >> Cup(p, p), a @ Cap(p, p) >> a @ Cup(p, p) >> a, Cap(p, p) >> a @ Id(p) >> Cup(p, p),
             Cap(p, p) >> Id(p) @ a >> Cup(p, p), a @ Cap(p, p) >> Id(p) @ a @ Id(p) >> a @ Cup(p, p)]
    for d in loops:
        r = 'loop: %r' % (d,)
        rep.case(('rigid loop', r))
        for left in (False, True):
            try:
                with common.time_limit(30):
                    n_ = d.normal_form(left=left)
                    again = n_.normal_form(left=left)
            except NotImplementedError:
                continue            # a closed loop beside a wire is disconnected
            except Exception as e_:      # noqa
                rep.fail('C06:rigid.no_exception', 'normal_form(left=%r) raised %r' % (left, e_), r)
                continue
            if (n_.dom, n_.cod) != (d.dom, d.cod):
                rep.fail('C06:rigid.types', 'normal form has type %r -> %r' % (n_.dom, n_.cod), r)
            elif Counter(map(repr, n_.boxes)) != Counter(map(repr, d.boxes)):
                rep.fail('C06:rigid.same_boxes', 'the normal form of a diagram without snakes lost / gained boxes: %r' % (n_,), r)
            elif again != n_:
                rep.fail('C06:nf.idempotent', 'normal form of a rigid diagram with a loop is not a fixed point', r)


def spiral(n, mirror=False):
    Ty, Box, Id = monoidal.Ty, monoidal.Box, monoidal.Id
    x = Ty('x')
    unit, counit = Box('unit', Ty(), x), Box('counit', x, Ty())
    cup, cap = Box('cup', x @ x, Ty()), Box('cap', Ty(), x @ x)

    def w(left, box, right):
        return (Id(x ** right) @ box @ Id(x ** left)) if mirror else (Id(x ** left) @ box @ Id(x ** right))
    d = unit
    for i in range(n):
        d = d >> w(i, cap, i + 1)
    d = d >> w(n, counit, n)
    for i in range(n):
        d = d >> w(n - i - 1, cup, n - i - 1)
    return d


def check_long(rep, d):
    """normal forms of a long connected diagram: terminates (no NotImplementedError), well-typed, same boxes, a fixed
    point, every step of the trace one legal interchange, the same normal form from the middle of the trace"""
    r = 'spiral with %d boxes: %r' % (len(d), d)
    rep.case(r, nontrivial=True)
    for left in (False, True):
        res = nf(d, left)
        if res[0] == 'hang':
            rep.fail('C06:normal_form.terminates', 'normal_form(left=%r) of a connected diagram did not return within 30 s' % left, r)
            continue
        if res[0] == 'notimpl':
            rep.fail('C06:terminates_on_connected', 'NotImplementedError on a connected diagram (left=%r)' % left, r)
            continue
        n = res[1]
        if common.wf_reason(n):
            rep.fail('C01:normal_form.wf', common.wf_reason(n), r)
        if (n.dom, n.cod) != (d.dom, d.cod) or sorted(map(repr, n.boxes)) != sorted(map(repr, d.boxes)):
            rep.fail('C06:nf.reachable', 'the normal form has another type or other boxes', r)
        again = nf(n, left)
        if again[0] != 'ok' or again[1] != n:
            rep.fail('C06:nf.idempotent', 'the normal form of a long diagram is not a fixed point (left=%r)' % left, r)
        prev, steps = d, []
        try:
            for step in monoidal.Diagram.normalize(d, left=left):
                if key(step) not in neighbours(prev):
                    rep.fail('C06:normalize.step_legal', 'step %d is not a single interchange of its predecessor' % len(steps), r)
                    break
                steps.append(step)
                prev = step
                if len(steps) > 2000:
                    break
            else:
                if prev != n:
                    rep.fail('C06:nf.is_end_of_trace', 'normal_form is not the last diagram yielded by normalize', r)
                if steps:
                    mid = nf(steps[len(steps) // 2], left)
                    if mid[0] != 'ok' or mid[1] != n:
                        rep.fail('C06:nf.canonical', 'the middle of the trace has another normal form (left=%r)' % left, r)
        except InterchangerError:
            rep.fail('C06:normalize.no_interchanger_error', 'normalize raised InterchangerError', r)


def run(tier, seed=0, shard=(0, 1)):
    rep_box = []
    try:
        return _run(tier, seed, shard, rep_box)
    except StopShard:
        return rep_box[0].result()


def _run(tier, seed, shard, rep_box):
    max_boxes = 3 if tier == 'quick' else 4
    x, y = monoidal.Ty('x'), monoidal.Ty('y')
    boxes = common.signature(('x',), arities=((0, 0), (0, 1), (1, 0), (1, 1), (1, 2), (2, 1), (0, 2), (2, 0)))
    boxes += [monoidal.Box('g', x, y), monoidal.Box('h', y, x)]
    doms = [monoidal.Ty(), x, x @ x]
    rep = Report({'max_boxes': max_boxes, 'max_width': 4, 'boxes': [repr(b) for b in boxes],
                  'class': 'BFS under the real adjacent interchange, both flags, <= 400 members',
                  'canonicity': 'normal form compared on <= 12 members of the class, left and right',
                  'frames': 'state on 2-3 wires >> 2 (thorough 3) boxes among unit, counit, endo, copy, merge at every offset >> effect',
                  'disconnected': '4 diagrams with pending interchanges x 3 scalar groups x 4 placements; 30 s budget per normal_form call'})
    rep_box.append(rep)
    for idx, d in enumerate(common.gen_diagrams(doms, boxes, max_boxes)):
        if idx % shard[1] != shard[0] or len(d) < 2:
            continue
        check(rep, d)
        rep.sample(repr(d))
    # connected frames around ties: a state on k wires, two or three small boxes in the middle (units, counits,
    # endomorphisms at every offset), an effect on the remaining wires -- the smallest connected diagrams in which
    # both interchange directions are legal for a pair of adjacent boxes
    Ty, Box, Id = monoidal.Ty, monoidal.Box, monoidal.Id
    mids = [Box('counit', x, Ty()), Box('unit', Ty(), x), Box('f', x, x), Box('copy', x, x @ x), Box('merge', x @ x, x)]
    n_mid = 2 if tier == 'quick' else 3
    idx = 0
    for k in (2, 3):
        a = Box('a', Ty(), x ** k)
        for d in common.gen_diagrams([x ** k], mids, n_mid, max_width=4):
            if len(d) < 2:
                continue
            idx += 1
            if idx % shard[1] != shard[0]:
                continue
            b = Box('b', d.cod, Ty())
            check(rep, a >> d >> b)
    # connected diagrams handed over as the direct result of a dagger or of a slice (their box lists are built by another
    # route than those of >> and @)
    if shard[0] == 3 % shard[1]:
        a2, b2 = Box('a', Ty(), x ** 2), Box('b', x ** 2, Ty())
        base = a2 >> Box('f', x, x) @ Box('unit', Ty(), x) @ Box('f', x, x) >> Box('copy', x, x @ x) @ Box('merge', x @ x, x) \
            >> Box('merge', x @ x, x) @ Id(x) >> b2
        for d in (base[::-1], base.dagger(), base[1:], base[:-1], base[::-1][1:], (base >> base[::-1])[2:9], base[4:1:-1]):
            check(rep, d)
    if shard[0] == 4 % shard[1]:
        check_rigid(rep)
        check_loops(rep)
    # long connected diagrams (spirals and their mirror images): the number of interchanges grows cubically with the number of
    # boxes (4, 20, 56, 120, 220 moves for 1..5 cups), far beyond what the enumerated diagrams need
    if shard[0] == 2 % shard[1]:
        for n_cups in ((2, 3, 4) if tier == 'quick' else (2, 3, 4, 5)):
            for mirror in (False, True):
                check_long(rep, spiral(n_cups, mirror))
    # disconnected diagrams with real normalisation work besides their floating scalars: the trace is eventually
    # periodic but need not come back to the input; non-termination must be reported as NotImplementedError
    s0, s1 = Box('s0', Ty(), Ty()), Box('s1', Ty(), Ty())
    f0, f1, g2 = Box('f0', x, y), Box('f1', x, x), Box('g2', x @ x, x)
    work = [monoidal.Id(x) @ f1 >> f0 @ monoidal.Id(x), f1 @ monoidal.Id(x) >> monoidal.Id(x) @ f1,
            monoidal.Id(x) @ f1 >> f1 @ monoidal.Id(x) >> g2, f1 @ f1 @ f1]
    idx = 0
    for w in work:
        for scal in (s0 @ s1, s0 >> s1, s0 @ s1 @ s0):
            for d in (w >> scal @ monoidal.Id(w.cod), scal @ monoidal.Id(w.dom) >> w, w >> monoidal.Id(w.cod) @ scal,
                      w[:1] >> scal @ monoidal.Id(w[:1].cod) >> w[1:]):
                idx += 1
                if idx % shard[1] != shard[0]:
                    continue
                r = repr(d)
                rep.case(r)
                for left in (False, True):
                    res = nf(d, left)
                    rep.count('disconnected')
                    if res[0] == 'hang':
                        rep.fail('C06:normal_form.terminates', 'normal_form(left=%r) of a disconnected diagram neither '
                                 'returned nor raised NotImplementedError within 30 s' % left, r)
                        raise StopShard()
                    elif res[0] == 'ok':
                        again = nf(res[1], left)
                        if again[0] != 'ok' or again[1] != res[1]:
                            rep.fail('C06:nf.idempotent', 'normal form of a disconnected diagram is not a fixed point', r)
    return rep.result()
