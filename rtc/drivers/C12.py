"""C12 bounded stand-in: whole circuits mixing bits and qubits (enumerated layers) evaluated by
discopy's CQ functor against the independent simulator rtc/cqsim.py; pure circuits doubled;
get_counts() / measure() are probability distributions equal to the one read off the evaluation;
trace preservation of circuits of preparations, unitaries, measurements, discards, stochastic gates."""
import itertools

import numpy

from discopy.quantum import gates, circuit
from discopy.quantum.circuit import Measure, Encode, Discard, MixedState, bit, qubit, Id
from discopy.quantum.gates import Rx, Ry, Rz, ClassicalGate, Bits, Ket, scalar
from rtc import qsim, cqsim, common
from rtc.report import Report

SHARDED = True


def matrix_of(box):
    return qsim.box_matrix(box)


def layer_choices(ty):
    """boxes that fit somewhere on a type made of bits and qubits"""
    out = []
    n = len(ty)
    NOT = ClassicalGate('NOT', 1, 1, [0, 1, 1, 0])
    NOISE = ClassicalGate('noise', 1, 1, [0.75, 0.25, 0.1, 0.9])
    for off in range(n):
        left, right = ty[:off], ty[off + 1:]
        if ty[off:off + 1] == qubit:
            for g in (gates.H, Ry(0.3), Rz(0.77), gates.S, Measure(), Measure(destructive=False), Discard()):
                out.append(Id(left) @ g @ Id(right))
        else:
            for g in (NOT, NOISE, Encode(), Discard(bit), gates.Copy()):
                out.append(Id(left) @ g @ Id(right))
        if off + 1 < n:
            pair, right2 = ty[off:off + 2], ty[off + 2:]
            if pair == qubit @ qubit:
                out.append(Id(left) @ gates.CX @ Id(right2))
            if pair == qubit @ bit:
                out.append(Id(left) @ Measure(override_bits=True) @ Id(right2))
            if pair == bit @ bit:
                out.append(Id(left) @ gates.Match() @ Id(right2))
            out.append(Id(left) @ circuit.Swap(pair[:1], pair[1:]) @ Id(right2))
    out.append(Id(ty) @ Ket(1))
    out.append(Id(ty) @ Bits(0))
    out.append(Id(ty) @ MixedState())
    return out


def gen(dom, depth, max_width=3):
    def rec(c, d):
        yield c
        if d == depth:
            return
        for l in layer_choices(c.cod):
            if len(l.cod) <= max_width:
                yield from rec(c >> l, d + 1)
    yield from rec(Id(dom), 0)


def trace_preserving_kind(c):
    """circuits made only of state preparations, unitaries, measurements, discards, stochastic gates"""
    for b in c.boxes:
        if isinstance(b, (Encode, MixedState, gates.Bra)) or isinstance(b, gates.Match) \
                or (isinstance(b, gates.Scalar)):
            return False
    return True


def check(rep, c):
    r = repr(c)
    rep.case(r, nontrivial=len(c) > 0)
    got = numpy.array(c.eval(mixed=True).array, dtype=complex)
    want = cqsim.cq_array(c, matrix_of)
    if got.size != want.size or not numpy.allclose(got.reshape(want.shape), want, atol=1e-9):
        rep.fail('C12:circuit.cq', 'mixed evaluation differs from the independent simulation', r)
        return
    if not c.is_mixed and not c.dom.count(bit) and not any(b.dom.count(bit) or b.cod.count(bit) for b in c.boxes):
        t = c.eval()
        if not numpy.allclose(numpy.array((t.conjugate() @ t).array, dtype=complex).flatten(), got.flatten(), atol=1e-9):
            rep.fail('C12:pure.doubled', 'mixed evaluation of a pure circuit is not the doubled pure evaluation', r)
    if trace_preserving_kind(c):
        closed = c.init_and_discard()
        probs = numpy.array(closed.eval(mixed=True).array, dtype=complex).real
        if abs(probs.sum() - 1) > 1e-9 or (probs < -1e-12).any():
            rep.fail('C12:trace_preserving', 'outcome weights sum to %r' % probs.sum(), r)
        counts = c.get_counts()
        rep.count('get_counts')
        if abs(sum(counts.values()) - 1) > 1e-9:
            rep.fail('C12:get_counts.distribution', 'counts sum to %r' % sum(counts.values()), r)
        for bits, p in counts.items():
            if abs(probs[bits] - p) > 1e-9:
                rep.fail('C12:get_counts.readoff', 'count of %r differs from the evaluation' % (bits,), r)
        m = numpy.array(c.measure(), dtype=float) if not c.dom else None
        if m is not None and m.shape == probs.shape and not numpy.allclose(m, probs, atol=1e-9):
            rep.fail('C12:measure.readoff', 'measure() differs from the distribution of the evaluation', r)
    # "measuring gives the squared magnitudes of the amplitudes": a closed pure circuit ending on qubits only
    if not c.dom and not c.is_mixed and c.cod and c.cod == qubit ** len(c.cod):
        amps = numpy.array(c.eval().array, dtype=complex)
        got_m = common.outcome(lambda: numpy.array(c.measure(), dtype=complex))
        rep.count('measure.pure')
        if got_m[0] != 'ok' or got_m[1].shape != amps.shape or not numpy.allclose(got_m[1], abs(amps) ** 2, atol=1e-9):
            rep.fail('C12:measure.born', 'measure() of a pure circuit is not the squared magnitudes of its amplitudes: %r vs %r'
                     % (got_m[1] if got_m[0] == 'ok' else got_m, abs(amps) ** 2), r)
        via = common.outcome(lambda: numpy.array((c >> circuit.Measure(len(c.cod))).eval().array, dtype=complex))
        if via[0] == 'ok' and via[1].shape == amps.shape and not numpy.allclose(via[1], abs(amps) ** 2, atol=1e-9):
            rep.fail('C12:measure.born', 'c >> Measure evaluates to something else than the squared magnitudes', r)


def run(tier, seed=0, shard=(0, 1)):
    depth = 2 if tier == 'quick' else 3
    doms = [qubit, bit, qubit @ qubit, qubit @ bit, circuit.Ty()]
    rep = Report({'depth': depth, 'max_width': 3, 'doms': [repr(d) for d in doms],
                  'boxes': 'H, Ry(.3), Rz(.77), S, CX, Measure (all 4 variants), Encode, Discard, MixedState, '
                           'NOT, a stochastic gate, Copy, Match, swaps of every kind, Ket(1), Bits(0)'})
    idx = 0
    for dom in doms:
        for c in gen(dom, depth):
            idx += 1
            if idx % shard[1] != shard[0]:
                continue
            check(rep, c)
            rep.sample(repr(c))
    return rep.result()
