"""C10 bounded stand-in: swaps and permutations in every class that offers them; the wire map is
tracked independently by labelling the wires and applying each adjacent swap at its offset."""
import itertools

from discopy import monoidal, rigid, tensor
from discopy.quantum import circuit, zx
from rtc import common
from rtc.report import Report

SHARDED = True


def trace_wires(d):
    """positions of the input wires at the output; None if some box is not an adjacent swap"""
    order = list(range(len(d.dom)))
    for box, off in zip(d.boxes, d.offsets):
        if not isinstance(box, monoidal.Swap) or len(box.dom) != 2:
            return None
        order[off], order[off + 1] = order[off + 1], order[off]
    return order      # order[p] = input wire now at position p


def classes():
    x, y, z = 'x', 'y', 'z'
    return {
        'monoidal': (monoidal.Diagram, lambda *n: monoidal.Ty(*n), [x, y, z]),
        'rigid': (rigid.Diagram, lambda *n: rigid.Ty(*n), [x, y, z]),
        'tensor': (tensor.Diagram, lambda *n: tensor.Dim(*n), [2, 3, 4]),
        'circuit': (circuit.Circuit, lambda *n: circuit.Ty(*n), [circuit.Digit(2), circuit.Qudit(2), circuit.Qudit(3)]),
        'zx': (zx.Diagram, lambda *n: zx.PRO(len(n)), [1, 1, 1]),
    }


def types(mk, atoms, max_len):
    out = []
    for n in range(max_len + 1):
        for combo in itertools.product(atoms, repeat=n):
            out.append(mk(*combo))
    # dedupe by repr
    seen, res = set(), []
    for t in out:
        if repr(t) not in seen:
            seen.add(repr(t))
            res.append(t)
    return res


def run(tier, seed=0, shard=(0, 1)):
    max_len = 2 if tier == 'quick' else 3
    max_perm = 4 if tier == 'quick' else 5
    rep = Report({'classes': list(classes()), 'swap': 'all pairs of types of length <= %d over 3 atoms' % max_len,
                  'permutation': 'all permutations of length <= %d on domains of distinct and of repeated atoms' % max_perm,
                  'refusals': 'duplicates, out-of-range entries, length mismatch'})
    idx = 0
    for cname, (cls, mk, atoms) in classes().items():
        tys = types(mk, atoms, max_len)
        for l, r in itertools.product(tys, tys):
            idx += 1
            if idx % shard[1] != shard[0]:
                continue
            inp = '%s: swap(%r, %r)' % (cname, l, r)
            rep.case(inp, nontrivial=len(l) > 0 and len(r) > 0)
            try:
                s = cls.swap(l, r)
            except Exception as e:
                rep.fail('C10:swap.raises', 'swap raised %r' % (e,), inp)
                continue
            why = common.wf_reason(s)
            if why:
                rep.fail('C01:swap.wf', why, inp)
            if (s.dom, s.cod) != (l @ r, r @ l):
                rep.fail('C10:swap.type', 'swap has type %r -> %r' % (s.dom, s.cod), inp)
            order = trace_wires(s)
            want = list(range(len(l), len(l) + len(r))) + list(range(len(l)))
            if order is None:
                rep.fail('C10:swap.only_swaps', 'a box of the swap diagram is not an adjacent swap', inp)
            elif order != want:
                rep.fail('C10:swap.wiremap', 'wires end at %r, expected %r' % (order, want), inp)
            if len(s.boxes) != len(l) * len(r):
                rep.fail('C10:swap.count', '%d swaps for |l|=%d, |r|=%d' % (len(s.boxes), len(l), len(r)), inp)
        for n in range(0, max_perm + 1):
            doms = [mk(*[atoms[k % len(atoms)] for k in range(n)]), mk(*([atoms[0]] * n))]
            for perm in itertools.permutations(range(n)):
                for dom in doms[:1] if n > 3 else doms:
                    idx += 1
                    if idx % shard[1] != shard[0]:
                        continue
                    inp = '%s: permutation(%r, %r)' % (cname, list(perm), dom)
                    rep.case(inp, nontrivial=n > 1)
                    try:
                        arg = list(perm)
                        p = cls.permutation(arg, dom)
                        if arg != list(perm):
                            # frame condition: the caller's list is an input, it must not be modified
                            rep.fail('C10:perm.frame', 'permutation modified its argument: %r -> %r' % (list(perm), arg), inp)
                            continue
                    except Exception as e:
                        rep.fail('C10:perm.raises', 'permutation raised %r' % (e,), inp)
                        continue
                    why = common.wf_reason(p)
                    if why:
                        rep.fail('C01:permutation.wf', why, inp)
                    order = trace_wires(p)
                    if order is None:
                        rep.fail('C10:perm.only_swaps', 'a box is not an adjacent swap', inp)
                        continue
                    # input wire i must end at position perm[i]
                    pos = {w: k for k, w in enumerate(order)}
                    if any(pos[i] != perm[i] for i in range(n)):
                        rep.fail('C10:perm.wiremap', 'wire i ends at %r, requested %r' % ([pos[i] for i in range(n)],
                                                                                          list(perm)), inp)
                    nm = lambda o: getattr(o, 'name', o)
                    if p.dom != dom or any(nm(p.cod.objects[perm[i]]) != nm(dom.objects[i]) for i in range(n)) \
                            or len(p.cod) != n:
                        rep.fail('C10:perm.cod', 'codomain %r is not the permuted domain' % (p.cod,), inp)
                    # "the same holds in every diagram class that offers swaps": the permutation is a diagram of that class
                    if not isinstance(p, cls):
                        rep.fail('C10:perm.class', 'permutation in the %s class returns a %s.%s' % (
                            cname, type(p).__module__, type(p).__name__), inp)
                    if n and cname in ('monoidal', 'rigid'):
                        q = cls.id(dom).permute(*perm)
                        if q != p:
                            rep.fail('C10:permute', 'permute differs from permutation', inp)
                        # permute on a diagram whose codomain is not its domain: the OUTPUT wires are permuted
                        if n >= 2:
                            mk_box = monoidal.Box if cname == 'monoidal' else rigid.Box
                            b = mk_box('f', dom[::-1] if dom[::-1] != dom else dom[:1], dom)
                            try:
                                r = b.permute(*perm)
                                if r.dom != b.dom or r.cod != p.cod or r != (b >> p):
                                    rep.fail('C10:permute.cod', 'box.permute(*perm) is not box >> permutation(perm, box.cod)', inp)
                            except Exception as e:
                                rep.fail('C10:permute.cod', 'box.permute(*perm) raised %s: %s on a box %r -> %r' % (
                                    type(e).__name__, e, b.dom, b.cod), inp)
        # Tensor.swap itself (the array the tensor class interprets swaps by), blocks of unequal widths
        if cname == 'tensor' and shard[0] == 0:
            import numpy
            from discopy.tensor import Tensor, Dim
            for a, b in itertools.product([(), (2,), (3,), (2, 3), (2, 2, 3)], repeat=2):
                A, B = Dim(*a), Dim(*b)
                sw = Tensor.swap(A, B)
                rep.case(('Tensor.swap', a, b), nontrivial=bool(a and b))
                u = numpy.arange(1, 1 + int(numpy.prod(a or (1,)))).reshape(a or (1,)).astype(float)
                v = numpy.arange(10, 10 + int(numpy.prod(b or (1,)))).reshape(b or (1,)).astype(float) ** 2
                state = Tensor(Dim(1), A, u) @ Tensor(Dim(1), B, v)
                want = Tensor(Dim(1), B, v) @ Tensor(Dim(1), A, u)
                got = state >> sw
                if (got.dom, got.cod) != (want.dom, want.cod) or not numpy.allclose(got.array, want.array):
                    rep.fail('C10:Tensor.swap', 'Tensor.swap(%r, %r) does not move the left block past the right one' % (A, B),
                             'tensor: Tensor.swap(%r, %r)' % (A, B))
            # the swap / permutation DIAGRAMS as a tensor functor evaluates them: wires whose images have different numbers
            # of dimensions (none, one, several); the states on the wires must come out in the permuted order
            from discopy import rigid as _rigid
            from discopy.tensor import Functor as _TF
            names = ['x', 'y', 'z']
            for dims in itertools.product([(), (2,), (3,), (2, 3), (5,)], repeat=3):
                tys = [_rigid.Ty(nm) for nm in names]
                F = _TF({t: Dim(*dm) for t, dm in zip(tys, dims)}, {})
                vecs = [Tensor(Dim(1), Dim(*dm), (numpy.arange(1, 1 + int(numpy.prod(dm or (1,)))) * (k + 2.0)) ** (k + 1))
                        for k, dm in enumerate(dims)]
                for perm in itertools.permutations(range(3)):
                    dom = tys[0] @ tys[1] @ tys[2]
                    d = _rigid.Diagram.permutation(list(perm), dom) if perm != (1, 2, 0) else \
                        _rigid.Diagram.swap(tys[0], tys[1] @ tys[2]) >> _rigid.Diagram.swap(tys[1] @ tys[2], tys[0]) \
                        >> _rigid.Diagram.permutation(list(perm), dom)
                    rep.case(('tensor functor swap', dims, perm), nontrivial=True)
                    got = common.outcome(lambda: vecs[0] @ vecs[1] @ vecs[2] >> F(d))
                    out = [None] * 3
                    for i in range(3):
                        out[perm[i]] = vecs[i]
                    want = out[0] @ out[1] @ out[2]
                    if got[0] != 'ok' or (got[1].dom, got[1].cod) != (want.dom, want.cod) \
                            or not numpy.allclose(got[1].array, want.array):
                        rep.fail('C10:tensor.functor.swap', 'evaluated permutation %r of wires of dimensions %r does not send '
                                 'wire i to position perm[i]: %r' % (perm, dims, got[0] if got[0] != 'ok' else 'wrong tensor'),
                                 'tensor functor %r on permutation(%r)' % (dims, list(perm)))
        # the swap / permutation CIRCUITS as the classical-quantum functor evaluates them: bits, digits, qubits and qudits of
        # different dimensions side by side; the (mixed) states on the wires must come out in the permuted order
        if cname == 'circuit' and shard[0] == 0:
            import numpy
            from discopy.quantum.cqmap import CQMap, CQ, C, Q
            from discopy.tensor import Dim

            def wire_state(ob, k):
                n = ob.dim
                if isinstance(ob, circuit.Digit):
                    return CQMap(CQ(), C(Dim(n)), (numpy.arange(1, n + 1) * (k + 2.0)) ** (k + 1))
                rho = numpy.diag(numpy.arange(1, n + 1) * (k + 1.0)).astype(complex)
                rho[0, n - 1], rho[n - 1, 0] = (k + 1) * 1j, -(k + 1) * 1j
                return CQMap(CQ(), Q(Dim(n)), rho)

            obs = [circuit.Digit(2), circuit.Qudit(2), circuit.Qudit(3), circuit.Digit(3)]
            for width in (2, 3):
                for combo in itertools.product(obs, repeat=width):
                    if width == 3 and len(set(map(repr, combo))) < 2:
                        continue
                    dom = circuit.Ty(*combo)
                    states = [wire_state(ob, k) for k, ob in enumerate(combo)]
                    for perm in itertools.permutations(range(width)):
                        builders = [('permutation', lambda: cls.permutation(list(perm), dom))]
                        if list(perm) == [width - 1] + list(range(width - 1)):      # wire 0 goes last, the others move up
                            builders.append(('swap', lambda: cls.swap(dom[:1], dom[1:])))
                        for nm, build in builders:
                            inp = 'circuit: %s(%r, %r).eval(mixed=True)' % (nm, list(perm), dom)
                            rep.case(inp, nontrivial=True)
                            out = [None] * width
                            for i in range(width):
                                out[perm[i]] = states[i]
                            src, want = states[0], out[0]
                            for st in states[1:]:
                                src = src @ st
                            for st in out[1:]:
                                want = want @ st
                            got = common.outcome(lambda: src >> build().eval(mixed=True))
                            if got[0] != 'ok' or (got[1].dom, got[1].cod) != (want.dom, want.cod) \
                                    or not numpy.allclose(got[1].array, want.array):
                                rep.fail('C10:circuit.swap.evaluated', 'the evaluated %s does not send the state on wire i to '
                                         'position perm[i]: %r' % (nm, got[0] if got[0] != 'ok' else 'wrong map'), inp)
        # the zx class also takes widths as plain ints: same diagram as with PRO types
        if cname == 'zx' and shard[0] == 0:
            for l, r_ in itertools.product(range(4), repeat=2):
                for al, ar in ((l, r_), (zx.PRO(l), r_), (l, zx.PRO(r_))):
                    inp = 'zx: swap(%r, %r)' % (al, ar)
                    rep.case(inp)
                    got = common.outcome(cls.swap, al, ar)
                    want = common.outcome(cls.swap, zx.PRO(l), zx.PRO(r_))
                    if got[0] != 'ok' or want[0] != 'ok' or got[1] != want[1] \
                            or (got[1].dom, got[1].cod) != (zx.PRO(l + r_), zx.PRO(l + r_)):
                        rep.fail('C10:swap.int_widths', 'swap(%r, %r) = %r, expected %r' % (al, ar, got, want), inp)
        # refusals
        if shard[0] == 0:
            dom3 = mk(*[atoms[k % len(atoms)] for k in range(3)])
            for bad in ([0, 0, 1], [0, 1, 3], [1, 2, 3], [0, 1], [0, 1, 2, 3], [-1, 0, 1]):
                got = common.outcome(cls.permutation, list(bad), dom3)
                rep.case('%s refusal %r' % (cname, bad))
                if got != ('exc', ValueError):
                    rep.fail('C10:perm.refuses', 'non-permutation / length mismatch %r gave %r' % (bad, got),
                             '%s: permutation(%r, %r)' % (cname, bad, dom3))
            # every (permutation length, explicit domain width) mismatch, including the empty domain / empty permutation
            for n in range(0, 4):
                for w in range(0, 5):
                    if n == w:
                        continue
                    dom_w = mk(*[atoms[k % len(atoms)] for k in range(w)])
                    got = common.outcome(cls.permutation, list(range(n)), dom_w)
                    rep.case('%s mismatch perm length %d, domain width %d' % (cname, n, w))
                    if got != ('exc', ValueError):
                        rep.fail('C10:perm.refuses', 'identity permutation of length %d on an explicit domain of %d '
                                 'wires gave %r' % (n, w, got), '%s: permutation(%r, %r)' % (cname, list(range(n)), dom_w))
        rep.sample('%s: all swaps / permutations' % cname)
    return rep.result()
