"""C20 bounded stand-in: the layout computed by drawing.diagram2nx for every diagram up to a size
bound is replayed against the diagram's own wiring: node census, edges reproduce the wiring, open
wires strictly increasing at every height, wires between boxes vertical, every edge downwards, every
box strictly between its neighbouring wires; both back-ends render; diagramize wiring."""
import os
import tempfile

from discopy import monoidal, drawing
from discopy.drawing import Node, diagram2nx, diagramize
from discopy.monoidal import Ty, Box, Id
from rtc import common
from rtc.report import Report

SHARDED = True
EPS = 1e-9


def check_layout(rep, d):
    r = repr(d)
    rep.case(r, nontrivial=len(d) > 0)
    graph, pos = diagram2nx(d)
    n = len(d)
    nodes = set(graph.nodes)
    expected = {Node('input', obj=o, i=i) for i, o in enumerate(d.dom)} \
        | {Node('output', obj=o, i=i) for i, o in enumerate(d.cod)}
    for depth, box in enumerate(d.boxes):
        expected.add(Node('box', box=box, depth=depth))
        expected |= {Node('dom', obj=o, i=i, depth=depth) for i, o in enumerate(box.dom)}
        expected |= {Node('cod', obj=o, i=i, depth=depth) for i, o in enumerate(box.cod)}
    if nodes != expected:
        rep.fail('C20:census', 'nodes differ from one per input, output, box and box port: missing %r extra %r' % (
            list(expected - nodes)[:2], list(nodes - expected)[:2]), r)
        return
    if any(k not in pos for k in nodes):
        rep.fail('C20:census.positions', 'a node has no position', r)
        return
    edges = set(graph.edges)
    want_edges = set()
    scan = [Node('input', obj=o, i=i) for i, o in enumerate(d.dom)]

    def increasing(tag, depth):
        xs = [pos[w][0] for w in scan]
        if any(b - a <= EPS for a, b in zip(xs, xs[1:])):
            rep.fail('C20:order', 'open wires are not strictly increasing %s box %d: %r' % (tag, depth, xs), r)
            return False
        return True
    if not increasing('before', 0):
        return
    for depth, (box, off) in enumerate(zip(d.boxes, d.offsets)):
        bnode = Node('box', box=box, depth=depth)
        doms = [Node('dom', obj=o, i=i, depth=depth) for i, o in enumerate(box.dom)]
        cods = [Node('cod', obj=o, i=i, depth=depth) for i, o in enumerate(box.cod)]
        for i, dn in enumerate(doms):
            want_edges |= {(scan[off + i], dn), (dn, bnode)}
            if abs(pos[scan[off + i]][0] - pos[dn][0]) > EPS:
                rep.fail('C20:vertical', 'the wire into port %d of box %d is not vertical: %r -> %r' % (
                    i, depth, pos[scan[off + i]], pos[dn]), r)
                return
        for cn in cods:
            want_edges.add((bnode, cn))
        # the box sits strictly between its neighbouring wires (at the height of the box)
        xs = [pos[k][0] for k in doms + cods + [bnode]]
        lo, hi = min(xs), max(xs)
        if off > 0 and not pos[scan[off - 1]][0] < lo - EPS:
            rep.fail('C20:box_clear.left', 'box %d (x in [%g, %g]) is not strictly right of the wire at %g' % (
                depth, lo, hi, pos[scan[off - 1]][0]), r)
            return
        if off + len(box.dom) < len(scan) and not pos[scan[off + len(box.dom)]][0] > hi + EPS:
            rep.fail('C20:box_clear.right', 'box %d (x in [%g, %g]) is not strictly left of the wire at %g' % (
                depth, lo, hi, pos[scan[off + len(box.dom)]][0]), r)
            return
        scan = scan[:off] + cods + scan[off + len(box.dom):]
        if not increasing('after', depth):
            return
    for i, o in enumerate(d.cod):
        out = Node('output', obj=o, i=i)
        want_edges.add((scan[i], out))
        if abs(pos[scan[i]][0] - pos[out][0]) > EPS:
            rep.fail('C20:vertical', 'output wire %d is not vertical' % i, r)
            return
    if edges != want_edges:
        rep.fail('C20:wiring', 'edges differ from the wiring of the diagram: missing %r extra %r' % (
            list(want_edges - edges)[:2], list(edges - want_edges)[:2]), r)
        return
    for a, b in edges:
        if not pos[a][1] > pos[b][1] + EPS:
            rep.fail('C20:downwards', 'edge %r -> %r does not point downwards (%r -> %r)' % (a, b, pos[a], pos[b]), r)
            return
    # final positions: vertical wires must still be vertical after all the later shifts
    for a, b in edges:
        if a.kind in ('input', 'cod') and b.kind in ('dom', 'output') and abs(pos[a][0] - pos[b][0]) > EPS:
            rep.fail('C20:vertical.final', 'wire %r -> %r is not vertical in the final layout' % (a, b), r)
            return


def check_redraw(rep, tmp):
    """rendering twice: a diagram is drawn, a drawing attribute of one of its boxes is then set by the user, and it is drawn
    again on both back-ends -- every rendering must succeed (drawing works on copies, not on the user's boxes)"""
    from discopy.monoidal import Ty, Box, Id
    x, y = Ty('x'), Ty('y')
    for attr, value in (('draw_as_spider', True), ('color', 'red'), ('shape', 'circle'), ('draw_as_wires', True)):
        f, g, h = Box('f', x, x @ y), Box('g', y, y), Box('h', x @ y, x)
        d = f >> Id(x) @ g >> h
        rep.case(('redraw', attr))
        before = set(vars(f))
        for kind, kw in (('matplotlib', dict(path=os.path.join(tmp, 'r.png'))), ('tikz', dict(path=os.path.join(tmp, 'r.tikz'), to_tikz=True))):
            got = common.outcome(lambda: d.draw(show=False, **kw))
            if got[0] != 'ok':
                rep.fail('C20:render.' + kind, 'the %s back-end raised %r' % (kind, got[1]), repr(d))
        if attr == 'draw_as_wires':
            target = g
        else:
            target = f
        setattr(target, attr, value)
        if attr in ('shape',):
            target.draw_as_spider = True
        for kind, kw in (('matplotlib', dict(path=os.path.join(tmp, 'r2.png'))), ('tikz', dict(path=os.path.join(tmp, 'r2.tikz'), to_tikz=True))):
            got = common.outcome(lambda: d.draw(show=False, **kw))
            if got[0] != 'ok':
                rep.fail('C20:render.second.' + kind, 'after drawing once and setting %s on a box, the %s back-end raised %r'
                         % (attr, kind, got[1]), repr(d))
    import matplotlib.pyplot as plt
    plt.close('all')


def check_render(rep, d, tmp):
    r = repr(d)
    if not (len(d) or len(d.dom)):
        return
    for kind, kw in (('matplotlib', dict(path=os.path.join(tmp, 'd.png'))),
                     ('tikz', dict(path=os.path.join(tmp, 'd.tikz'), to_tikz=True))):
        rep.count('render.' + kind)
        got = common.outcome(lambda: d.draw(show=False, **kw))
        if got[0] != 'ok':
            rep.fail('C20:render.' + kind, 'the %s back-end raised %r' % (kind, got[1]), r)
    import matplotlib.pyplot as plt
    plt.close('all')


def quantum_circuits():
    """circuits with the boxes that have their own drawing code in discopy.quantum.drawing (measurements, discards, mixed
    states, encodings, kets, bras, controlled gates, swaps of bits and qubits), on wires of both kinds"""
    from discopy.quantum import circuit as qc, gates
    bit, qubit, Id = qc.bit, qc.qubit, qc.Id
    return [qc.Discard(qubit @ bit), qc.Discard(bit @ qubit) @ Id(bit), qc.MixedState(bit @ qubit @ qubit).dagger(),
            Id(bit) @ qc.MixedState(qubit @ bit) >> qc.Discard(bit @ qubit) @ Id(bit), qc.MixedState(qubit @ bit),
            gates.Ket(0, 1) >> gates.H @ gates.X >> gates.CX >> qc.Measure() @ qc.Discard(),
            gates.Ket(0) >> gates.Rx(0.25) >> qc.Measure(destructive=False) >> gates.X @ Id(bit) >> qc.Discard() @ Id(bit),
            qc.Measure(2) >> qc.Swap(bit, bit) >> qc.Encode(2) >> gates.CZ >> gates.Bra(0, 1),
            gates.Bits(1) @ gates.Ket(0) >> qc.Swap(bit, qubit) >> qc.Measure(override_bits=True, destructive=False),
            gates.CRz(0.5) >> gates.SWAP >> gates.Controlled(gates.S) >> qc.Measure() @ qc.Measure(),
            qc.Encode(constructive=False) >> qc.Measure(destructive=False)]


def check_render_options(rep, d, tmp):
    """the documented drawing parameters passed explicitly (they are forwarded to the box-drawing helpers)"""
    r = repr(d)
    for opts in (dict(draw_box_labels=True), dict(draw_box_labels=False), dict(draw_type_labels=False), dict(draw_box_labels=False, draw_type_labels=False),
                 dict(figsize=(3, 3), fontsize=8, margins=(.1, .1)), dict(color='red'), dict(aspect='equal', nodesize=.5)):
        for kind, kw in (('matplotlib', dict(path=os.path.join(tmp, 'o.png'))), ('tikz', dict(path=os.path.join(tmp, 'o.tikz'), to_tikz=True))):
            rep.count('render.options.' + kind)
            got = common.outcome(lambda: d.draw(show=False, **dict(kw, **opts)))
            if got[0] != 'ok':
                rep.fail('C20:render.options.' + kind, 'the %s back-end raised %r with %r' % (kind, got[1], opts), r)
    import matplotlib.pyplot as plt
    plt.close('all')


def check_ports(rep, d):
    """graph-level sanity for diagrams with special boxes (spiders, wires drawn as boxes, bubbles): every node has
    coordinates, every wire ends somewhere (no port without its incoming / outgoing edge), every edge points downwards"""
    r = repr(d)
    rep.case(('special', r))
    got = common.outcome(lambda: diagram2nx(d))
    if got[0] != 'ok':
        rep.fail('C20:special.graph', 'diagram2nx raised %r' % (got[1],), r)
        return
    graph, pos = got[1]
    for k in graph.nodes:
        if k not in pos:
            rep.fail('C20:special.positions', 'node %r has no coordinates' % (k,), r)
            return
    for k in graph.nodes:
        ins, outs = graph.in_degree(k), graph.out_degree(k)
        if k.kind in ('dom', 'output') and ins != 1:
            rep.fail('C20:special.dangling', 'port %r has %d incoming wires' % (k, ins), r)
            return
        if k.kind in ('cod', 'input') and outs != 1:
            rep.fail('C20:special.dangling', 'wire from %r ends nowhere (%d outgoing edges)' % (k, outs), r)
            return
    # exactly one input node per wire of the domain and one output node per wire of the codomain, carrying that wire's object
    ins_ = sorted((k for k in graph.nodes if k.kind == 'input'), key=lambda k: k.i)
    outs_ = sorted((k for k in graph.nodes if k.kind == 'output'), key=lambda k: k.i)
    if [k.i for k in ins_] != list(range(len(d.dom))) or [k.i for k in outs_] != list(range(len(d.cod))):
        rep.fail('C20:special.boundary', '%d input / %d output nodes for a diagram %d -> %d' % (len(ins_), len(outs_), len(d.dom), len(d.cod)), r)
        return
    if [getattr(k, 'obj', None) for k in ins_] != list(d.dom) or [getattr(k, 'obj', None) for k in outs_] != list(d.cod):
        rep.fail('C20:special.boundary', 'the input / output nodes do not carry the objects of dom / cod', r)
        return
    for a, b in graph.edges:
        if not pos[a][1] > pos[b][1] - EPS:
            rep.fail('C20:special.downwards', 'edge %r -> %r points upwards' % (a, b), r)
            return
    # census of the boxes: every box of the diagram, at every depth of nesting inside bubbles, has exactly one node, and no
    # bubble is left as one opaque node (a bubble is drawn as an opening box, its inside, a closing box)
    from discopy import monoidal as _m

    def leaves(dd):
        out = []
        for b in dd.boxes:
            if isinstance(b, _m.Bubble):
                out += ['<open>'] + leaves(b.inside) + ['<close>']
            else:
                out.append(str(getattr(b, 'name', b)))
        return out
    want = leaves(d)
    drawn = [k.box for k in graph.nodes if k.kind == 'box']
    if any(isinstance(b, _m.Bubble) for b in drawn):
        rep.fail('C20:special.bubble_unopened', 'a bubble is drawn as a single opaque box', r)
        return
    # (the opening / closing boxes of a bubble are flagged only when the bubble keeps the number of wires of its inside, so
    # only the total is compared)
    if len(drawn) != len(want):
        rep.fail('C20:special.census', '%d box nodes for the boxes %r' % (len(drawn), want), r)


def specials():
    """diagrams with the boxes that have their own drawing code: spiders of several shapes and colours, swaps / cups /
    caps drawn as wires, bubbles with default and explicit types"""
    from discopy import rigid
    from discopy.quantum import zx
    x, y = Ty('x'), Ty('y')
    f, g = Box('f', x, y @ y), Box('g', y, x)
    copy = Box('copy', x, x @ x, draw_as_spider=True, color='black')
    merge = Box('merge', x @ x, x, draw_as_spider=True, color='red', shape='plus')
    rect = Box('G', x, x, draw_as_spider=True, shape='rectangle', color='yellow')
    out = [copy >> rect @ Id(x) >> merge, copy @ rect >> Id(x) @ merge, rect >> copy >> rect @ merge.dagger() >> merge @ Id(x)]
    out += [zx.Z(1, 2, 0.25) >> zx.H @ zx.X(1, 1, 0.5), zx.X(0, 2) >> zx.SWAP >> zx.H @ zx.Z(1, 0), zx.H >> zx.H]
    n = rigid.Ty('n')
    out += [rigid.Cap(n, n.l) @ rigid.Id(n) >> rigid.Id(n) @ rigid.Cup(n.l, n),
            rigid.Id(n) @ rigid.Cap(n.r, n) >> rigid.Swap(n, n.r) @ rigid.Id(n) @ rigid.Box('h', rigid.Ty(), n),
            rigid.Cap(n.r, n) >> rigid.Swap(n.r, n) >> rigid.Cup(n, n.r)]
    out += [f.bubble(), (f >> g @ g).bubble(), f.bubble() >> g @ g, Id(x) @ g.bubble() @ Id(y),
            f.bubble(dom=x @ x, cod=y), g.bubble(dom=y, cod=x @ x), Box('s', Ty(), x).bubble(), Box('e', x, Ty()).bubble(),
            # bubbles inside bubbles
            f.bubble().bubble(), (f.bubble() >> g @ g).bubble(), (Id(x) @ g.bubble()).bubble() @ Id(y),
            f.bubble().bubble().bubble() >> g.bubble() @ g]
    return out


def check_diagramize(rep):
    x, y = Ty('x'), Ty('y')
    f, g, h = Box('f', x, y), Box('g', y, x), Box('h', x @ y, x)
    cases = []

    @diagramize(x @ y, y @ x, [f, g, h])
    def d1(a, b):
        return f(a), g(b)
    cases.append((d1, [f @ g, f @ Id(y) >> Id(y) @ g, Id(x) @ g >> f @ Id(x)]))

    @diagramize(x @ y, y @ x, [f, g, h])
    def d2(a, b):
        v = g(b)
        u = f(a)
        return u, v
    cases.append((d2, [f @ g, f @ Id(y) >> Id(y) @ g, Id(x) @ g >> f @ Id(x)]))

    @diagramize(x @ y, x, [f, g, h])
    def d3(a, b):
        return h(a, b)
    cases.append((d3, [Id(x @ y) >> h]))

    @diagramize(x @ y @ y, x @ x, [f, g, h])
    def d4(a, b, c):
        return h(a, b), g(c)
    cases.append((d4, [h @ g, h @ Id(y) >> Id(x) @ g, Id(x @ y) @ g >> h @ Id(x)]))

    @diagramize(x, x, [f, g, h])
    def d5(a):
        return g(f(a))
    cases.append((d5, [f >> g]))
    for k, (got, accepted) in enumerate(cases):
        rep.case(('diagramize', k))
        if not any(got == w for w in accepted):
            rep.fail('C20:diagramize.wiring', 'diagramize case %d gave %s' % (k, got), 'diagramize case %d' % k)
    # states, scalars and effects inside a body: with an explicit offset, and without one (leftmost)
    s, c, e = Box('s', Ty(), x), Box('c', Ty(), Ty()), Box('e', y, Ty())
    bodies = [
        ('state without offset', Ty(), x, lambda: s(), [s]),
        ('state with offset', x, x @ x, lambda a: (a, s(offset=1)), [Id(x) @ s]),
        ('state at offset 0 by default', x, x @ x, lambda a: (s(), a), [s @ Id(x)]),
        ('scalar without offset', x, x, lambda a: (c(), a)[1], [c @ Id(x)]),
        ('effect then state', y, x, lambda b: (e(b), s())[1], [e >> s]),
        ('state feeding a box', Ty(), y, lambda: f(s()), [s >> f]),
    ]
    for name, dom, cod, body, accepted in bodies:
        rep.case(('diagramize', name))
        got = common.outcome(lambda: diagramize(dom, cod, [f, g, h, s, c, e])(body))
        if got[0] != 'ok':
            rep.fail('C20:diagramize.arity0', 'diagramize raised %r (%s)' % (got[1], name), name)
        elif not any(got[1] == w for w in accepted):
            rep.fail('C20:diagramize.arity0', '%s gave %s, expected %s' % (name, got[1], accepted[0]), name)


def run(tier, seed=0, shard=(0, 1)):
    max_boxes = 3 if tier == 'quick' else 4
    x, y = Ty('x'), Ty('y')
    boxes = common.signature(('x',), arities=((0, 0), (0, 1), (1, 0), (1, 1), (1, 2), (2, 1), (0, 2), (2, 0), (1, 3), (3, 1),
                                              (0, 3), (2, 2)))
    boxes += [Box('g', x, y), Box('w', Ty(), x ** 4)]
    doms = [Ty(), x, x @ x, x @ x @ x]
    rep = Report({'max_boxes': max_boxes, 'max_width': 5, 'boxes': [repr(b) for b in boxes], 'doms': [repr(t) for t in doms],
                  'render': 'every %dth diagram on both back-ends (Agg, TikZ to a scratch file)' % (120 if tier == 'quick' else 25),
                  'special_boxes': 'spiders of three shapes / colours, ZX diagrams, cups / caps / swaps drawn as wires, bubbles with '
                                   'default and explicit types: coordinates for every node, no dangling port, edges downwards, rendered',
                  'mixed_types': 'boxes of every arity 0..3 -> 0..3 over three wire types, alone / between wires / followed by their dagger, laid out and rendered'})
    tmp = tempfile.mkdtemp(prefix='c20_')
    try:
        for idx, d in enumerate(common.gen_diagrams(doms, boxes, max_boxes, max_width=5)):
            if idx % shard[1] != shard[0]:
                continue
            check_layout(rep, d)
            if (idx // shard[1]) % (120 if tier == 'quick' else 25) == 0:
                check_render(rep, d, tmp)
            rep.sample(repr(d))
        if shard[0] == 0:
            check_diagramize(rep)
            # wide states next to wires, on both sides, after earlier boxes
            f, s4 = Box('f', x, x), Box('s', Ty(), x ** 4)
            extra = [f @ Id(x @ x) >> Id(x @ x) @ s4 @ Id(x), Id(x @ x) @ f >> Id(x) @ s4 @ Id(x @ x),
                     Id(x) @ f @ Id(x) >> s4 @ Id(x ** 3) >> Id(x ** 7) @ s4, f @ f >> Id(x) @ s4 @ Id(x) >> f @ Id(x ** 5)]
            for d in extra:
                check_layout(rep, d)
                check_render(rep, d, tmp)
        if shard[0] == 2 % shard[1]:
            for d in specials():
                check_ports(rep, d)
                check_render(rep, d, tmp)
            check_redraw(rep, tmp)
        if shard[0] == 3 % shard[1]:
            for d in quantum_circuits():
                rep.case(('quantum circuit', repr(d)))
                check_render(rep, d, tmp)
                check_render_options(rep, d, tmp)
            for d in specials()[:6]:
                check_render_options(rep, d, tmp)
        # boxes of every arity 0..3 -> 0..3 whose wires all have different types (scalars, states, effects included),
        # alone and between two wires: laid out and rendered on both back-ends
        z = Ty('z')
        kinds = [(n, m) for n in range(4) for m in range(4)]
        for k, (n, m) in enumerate(kinds):
            if k % shard[1] != shard[0]:
                continue
            b = Box('b%d%d' % (n, m), (x @ y @ z)[:n], (z @ x @ y)[:m])
            for d in (b, Id(y) @ b @ Id(x), Id(y) @ b @ Id(x) >> Id(y) @ b.dagger() @ Id(x)):
                check_layout(rep, d)
                check_render(rep, d, tmp)
    finally:
        import shutil
        shutil.rmtree(tmp, ignore_errors=True)
    return rep.result()
