"""C17 bounded stand-in (the sentence refers to pyzx's own tensor semantics, an external library):
export of ZX diagrams with a simple underlying graph to the installed pyzx through an adapter for
the API discopy 0.3.5 was written against, pyzx.tensorfy of the exported graph against the numeric
standard interpretation of the diagram; import back; import of small pyzx graphs built directly
(several vertex numberings, Hadamard edges everywhere); refusals."""
import itertools
from fractions import Fraction

import numpy
import pyzx

from rtc import adapters, zxsim, common
from rtc.report import Report

pyzx.Graph = adapters.OldGraph      # discopy's to_pyzx does `from pyzx import Graph`

from discopy.quantum import zx      # noqa: E402
from discopy.quantum.zx import Z, X, H, Id, SWAP, scalar      # noqa: E402

SHARDED = True


def simple(d):
    """no two spiders joined by more than one wire, no self-loop, no wire from a boundary to a boundary only"""
    scan = [('in', i) for i in range(len(d.dom))]
    edges = set()
    for k, (box, off) in enumerate(zip(d.boxes, d.offsets)):
        if isinstance(box, zx.Spider):
            for w in scan[off:off + len(box.dom)]:
                e = (w, ('s', k))
                if e in edges or w == ('s', k):
                    return False
                edges.add(e)
            scan = scan[:off] + [('s', k)] * len(box.cod) + scan[off + len(box.dom):]
        elif isinstance(box, zx.Swap):
            scan = scan[:off] + [scan[off + 1], scan[off]] + scan[off + 2:]
    # outputs: each output is a fresh boundary, fine; but an input wired straight to an output twice is fine too
    # a spider feeding the same output twice cannot happen
    return True


def gen(max_boxes, max_width=3):
    gens = [Z(1, 1, 0.25), Z(1, 2), Z(2, 1, 0.5), Z(0, 1, -0.125), Z(1, 0), X(1, 1, -0.25), X(1, 2, 1.25), X(2, 1), X(0, 1),   # phases of any sign / size
            X(1, 0, 0.5), Z(0, 2), X(2, 0), H, SWAP, scalar(0.5 + 0.5j), Z(2, 2, 0.375)]

    def rec(dom, width, bs, offs, depth):
        yield zx.Diagram(zx.PRO(dom), zx.PRO(width), list(bs), list(offs))
        if depth == max_boxes:
            return
        for b in gens:
            n, m = len(b.dom), len(b.cod)
            for off in range(width - n + 1):
                if width - n + m <= max_width:
                    yield from rec(dom, width - n + m, bs + [b], offs + [off], depth + 1)
    for dom in (0, 1, 2):
        yield from rec(dom, dom, [], [], 0)


def scalars(d):
    out = 1
    for b in d.boxes:
        if isinstance(b, zx.Scalar):
            out *= complex(b.data)
    return out


def not_zx(d):
    """why an imported diagram is not a ZX diagram (None if it is): every box must be a ZX generator"""
    alien = [bx for bx in d.boxes if not isinstance(bx, (zx.Z, zx.X, zx.Had, zx.Swap, zx.Scalar))]
    if alien:
        return 'box %r of class %s.%s' % (alien[0], type(alien[0]).__module__, type(alien[0]).__name__)
    if not isinstance(d, zx.Diagram):
        return 'class %s.%s' % (type(d).__module__, type(d).__name__)
    return None


def check_export(rep, d):
    r = repr(d)
    rep.case(r, nontrivial=len(d) > 0)
    want = zxsim.matrix(d)
    got_g = common.outcome(d.to_pyzx)
    if got_g[0] != 'ok':
        rep.fail('C17:to_pyzx.raises', 'to_pyzx raised %r' % (got_g[1],), r)
        return
    g = got_g[1]
    real = g.finish()
    if (len(real.inputs()), len(real.outputs())) != (len(d.dom), len(d.cod)):
        rep.fail('C17:export.arity', 'graph has %d inputs / %d outputs' % (len(real.inputs()), len(real.outputs())), r)
        return
    m = adapters.matrix_of_graph(real)
    if m.shape != want.shape or not numpy.allclose(m, want, atol=1e-9):
        rep.fail('C17:export.matrix', 'pyzx.tensorfy of the exported graph differs from the matrix the diagram denotes', r)
        return
    handed = adapters.OldGraph(real)
    decl = (list(handed.inputs), list(handed.outputs))
    back = common.outcome(zx.Diagram.from_pyzx, handed)
    if back[0] != 'ok':
        rep.fail('C17:import.raises', 'from_pyzx(to_pyzx(d)) raised %r' % (back[1],), r)
        return
    # the import reads the graph: the graph still declares the same inputs and outputs afterwards, still denotes the same
    # matrix, and importing it a second time gives the same diagram
    if (list(handed.inputs), list(handed.outputs)) != decl:
        rep.fail('C17:import.keeps_graph', 'after from_pyzx the graph declares inputs %r / outputs %r, before %r / %r' % (
            handed.inputs, handed.outputs, decl[0], decl[1]), r)
        return
    again = common.outcome(zx.Diagram.from_pyzx, handed)
    if again[0] != 'ok' or again[1] != back[1]:
        rep.fail('C17:import.twice', 'importing the same graph a second time gave %r' % (again[1] if again[0] != 'ok' else 'another diagram',), r)
        return
    b = back[1]
    why = common.wf_reason(b)
    if why:
        rep.fail('C01:from_pyzx.wf', why, r)
        return
    if (len(b.dom), len(b.cod)) != (len(d.dom), len(d.cod)):
        rep.fail('C17:import.arity', 'imported diagram has type %d -> %d' % (len(b.dom), len(b.cod)), r)
        return
    alien = [bx for bx in b.boxes if not isinstance(bx, (zx.Z, zx.X, zx.Had, zx.Swap, zx.Scalar))]
    if alien or not isinstance(b, zx.Diagram):
        rep.fail('C17:import.zx_diagram', 'the imported diagram is not a ZX diagram: %s' % (
            'box %r of class %s.%s' % (alien[0], type(alien[0]).__module__, type(alien[0]).__name__) if alien
            else 'class %s.%s' % (type(b).__module__, type(b).__name__)), r)
        return
    if not numpy.allclose(zxsim.matrix(b) * scalars(d), want, atol=1e-9):
        rep.fail('C17:roundtrip.matrix', 'from_pyzx(to_pyzx(d)) = %r denotes another matrix (scalar boxes apart)' % (b,), r)


def graphs(tier):
    """small simple graphs built directly: k spiders, inputs/outputs attached to chosen spiders, spider-spider edges
    with either edge type, in two vertex numberings (boundaries first / outputs before spiders / interleaved)"""
    VT, ET = pyzx.VertexType, pyzx.EdgeType
    specs = []
    kinds = [VT.Z, VT.X]
    phases = [Fraction(0), Fraction(1, 2), Fraction(1, 4)]
    for n_sp in (1, 2):
        for types in itertools.product(kinds, repeat=n_sp):
            for n_in, n_out in ((1, 1), (2, 1), (1, 2), (0, 2), (2, 0), (2, 2)):
                for attach_in in itertools.product(range(n_sp), repeat=n_in):
                    for attach_out in itertools.product(range(n_sp), repeat=n_out):
                        for etypes in itertools.product((ET.SIMPLE, ET.HADAMARD), repeat=min(n_in + n_out, 3)):
                            for inner in ([None] if n_sp == 1 else [None, ET.SIMPLE, ET.HADAMARD]):
                                specs.append((types, n_in, n_out, attach_in, attach_out, etypes, inner))
    return specs


def build(spec, order):
    VT, ET = pyzx.VertexType, pyzx.EdgeType
    types, n_in, n_out, attach_in, attach_out, etypes, inner = spec
    g = adapters.OldGraph()
    ids = {}
    plan = {'std': ['in', 'sp', 'out'], 'outs_first': ['in', 'out', 'sp'], 'spiders_first': ['sp', 'in', 'out'],
            'declared_backwards': ['in', 'sp', 'out']}[order]
    for what in plan:
        if what == 'in':
            for i in range(n_in):
                ids[('in', i)] = g.add_vertex(VT.BOUNDARY)
        elif what == 'out':
            for i in range(n_out):
                ids[('out', i)] = g.add_vertex(VT.BOUNDARY)
        else:
            for k, t in enumerate(types):
                ids[('sp', k)] = g.add_vertex(t, phase=[0.25, 0.5][k % 2])
    g.inputs = [ids[('in', i)] for i in range(n_in)]
    g.outputs = [ids[('out', i)] for i in range(n_out)]
    if order == 'declared_backwards':
        # the k-th input / output of the graph is the k-th entry of its declared list, whatever the vertex numbers
        g.inputs, g.outputs = g.inputs[::-1], g.outputs[::-1]
    e = 0
    for i, k in enumerate(attach_in):
        g.add_edge((ids[('in', i)], ids[('sp', k)]), etypes[e % len(etypes)])
        e += 1
    for i, k in enumerate(attach_out):
        g.add_edge((ids[('sp', k)], ids[('out', i)]), etypes[e % len(etypes)])
        e += 1
    if inner is not None:
        g.add_edge((ids[('sp', 0)], ids[('sp', 1)]), inner)
    return g


def check_import(rep, spec, order):
    g = build(spec, order)
    r = 'graph %r numbering=%s' % (spec, order)
    rep.case(r)
    real = g.finish()
    want = adapters.matrix_of_graph(real)
    got = common.outcome(zx.Diagram.from_pyzx, adapters.OldGraph(real))
    if got[0] != 'ok':
        rep.fail('C17:import.raises', 'from_pyzx raised %r on a simple graph with declared disjoint boundaries' % (got[1],), r)
        return
    d = got[1]
    if common.wf_reason(d):
        rep.fail('C01:from_pyzx.wf', common.wf_reason(d), r)
        return
    if (len(d.dom), len(d.cod)) != (len(real.inputs()), len(real.outputs())):
        rep.fail('C17:import.arity', 'imported diagram has type %d -> %d' % (len(d.dom), len(d.cod)), r)
        return
    if not_zx(d):
        rep.fail('C17:import.zx_diagram', 'the imported diagram is not a ZX diagram: ' + not_zx(d), r)
        return
    m = zxsim.matrix(d)
    # up to the scalar, which graphs carry separately
    k = numpy.argmax(abs(want.flatten()))
    if abs(want.flatten()[k]) < 1e-12:
        ok = numpy.allclose(m, 0)
    else:
        ratio = m.flatten()[k] / want.flatten()[k]
        ok = abs(ratio) > 1e-9 and numpy.allclose(m, ratio * want, atol=1e-9)
    if not ok:
        rep.fail('C17:import.matrix', 'the imported diagram %r does not denote the matrix of the graph' % (d,), r)


def check_boundary_edges(rep):
    """graphs in which an edge joins two boundary vertices directly (input-output: a bare wire; input-input / output-output:
    a cup / cap): the import must denote the graph's matrix"""
    VT, ET = pyzx.VertexType, pyzx.EdgeType
    for kind, et in itertools.product(('in-out', 'in-in', 'out-out'), (ET.SIMPLE, ET.HADAMARD)):
        g = adapters.OldGraph()
        a, b = g.add_vertex(VT.BOUNDARY), g.add_vertex(VT.BOUNDARY)
        s, i0, o0 = g.add_vertex(VT.Z, phase=0.25), g.add_vertex(VT.BOUNDARY), g.add_vertex(VT.BOUNDARY)
        g.add_edge((a, b), et)
        g.add_edge((i0, s), ET.SIMPLE)
        g.add_edge((s, o0), ET.SIMPLE)
        if kind == 'in-out':
            g.inputs, g.outputs = [a, i0], [b, o0]
        elif kind == 'in-in':
            g.inputs, g.outputs = [a, b, i0], [o0]
        else:
            g.inputs, g.outputs = [i0], [a, b, o0]
        r = 'graph with a %s edge (%s) between two boundaries beside a Z spider' % (kind, et)
        rep.case(r)
        real = g.finish()
        want = adapters.matrix_of_graph(real)
        got = common.outcome(zx.Diagram.from_pyzx, adapters.OldGraph(real))
        same_kind = kind != 'in-out'
        key = 'C17:import.boundary_edge.same_kind' if same_kind else 'C17:import.boundary_edge'
        if got[0] != 'ok':
            rep.fail(key, 'from_pyzx raised %r' % (got[1],), r)
            continue
        d = got[1]
        if (len(d.dom), len(d.cod)) != (len(real.inputs()), len(real.outputs())):
            rep.fail(key, 'imported diagram has type %d -> %d, the graph %d -> %d'
                     % (len(d.dom), len(d.cod), len(real.inputs()), len(real.outputs())), r)
            continue
        if not_zx(d):
            rep.fail('C17:import.zx_diagram', 'the imported diagram is not a ZX diagram: ' + not_zx(d), r)
            continue
        m = zxsim.matrix(d)
        k = numpy.argmax(abs(want.flatten()))
        ratio = m.flatten()[k] / want.flatten()[k]
        if not (abs(ratio) > 1e-9 and numpy.allclose(m, ratio * want, atol=1e-9)):
            rep.fail(key, 'the imported diagram %r does not denote the matrix of the graph' % (d,), r)


def check_refusals(rep):
    VT = pyzx.VertexType
    g = adapters.OldGraph()
    a, b, s = g.add_vertex(VT.BOUNDARY), g.add_vertex(VT.BOUNDARY), g.add_vertex(VT.Z)
    g.add_edge((a, s)); g.add_edge((s, b))
    g.inputs, g.outputs = [a], []          # b is a stray boundary
    rep.case('stray boundary')
    if common.outcome(zx.Diagram.from_pyzx, g) != ('exc', ValueError):
        rep.fail('C17:refuses.stray_boundary', 'a boundary vertex missing from inputs/outputs is accepted', 'stray')
    g.inputs, g.outputs = [a, b], [b]
    rep.case('shared boundary')
    if common.outcome(zx.Diagram.from_pyzx, g) != ('exc', ValueError):
        rep.fail('C17:refuses.shared_boundary', 'a vertex that is both input and output is accepted', 'shared')
    # every choice of the shared vertex (in particular vertex number 0), of its place in the two lists and of the order
    for shared in (a, b):
        other = b if shared == a else a
        for ins, outs in (([shared], [shared, other]), ([shared, other], [shared]), ([other, shared], [shared]),
                          ([shared], [other, shared]), ([shared], [shared])):
            g2 = adapters.OldGraph()
            a2, b2, s2 = g2.add_vertex(VT.BOUNDARY), g2.add_vertex(VT.BOUNDARY), g2.add_vertex(VT.Z)
            g2.add_edge((a2, s2)); g2.add_edge((s2, b2))
            g2.inputs, g2.outputs = list(ins), list(outs)
            rep.case('shared boundary %r %r' % (ins, outs))
            got = common.outcome(zx.Diagram.from_pyzx, g2)
            if got != ('exc', ValueError):
                rep.fail('C17:refuses.shared_boundary', 'vertex %d listed both as input and as output is accepted: %r' % (shared, got),
                         'inputs=%r outputs=%r' % (ins, outs))
    rep.case('non-zx box')
    from discopy.quantum import gates
    if common.outcome(zx.Diagram.to_pyzx, gates.H) != ('exc', TypeError):
        rep.fail('C17:to_pyzx.refuses', 'a box that is not a ZX generator is accepted', 'quantum.H')


def by_swaps(perm):
    """the permutation sending wire i to position perm[i], written with explicit adjacent SWAP boxes (bubble sort), so that
    the inputs of this driver do not depend on Diagram.swap / Diagram.permutation"""
    n = len(perm)
    cur = list(perm)          # cur[p] = target position of the wire now at position p
    d = Id(n)
    changed = True
    while changed:
        changed = False
        for p in range(n - 1):
            if cur[p] > cur[p + 1]:
                d = d >> Id(p) @ SWAP @ Id(n - p - 2)
                cur[p], cur[p + 1] = cur[p + 1], cur[p]
                changed = True
    return d


def run(tier, seed=0, shard=(0, 1)):
    max_boxes = 2 if tier == 'quick' else 3
    rep = Report({'export': 'all ZX diagrams with <= %d boxes over 16 generators (spiders of arity 0-2 with phases, H, SWAP, a '
                            'complex scalar) on 0-2 inputs, width <= 3, simple underlying graph' % max_boxes,
                  'import': 'graphs with 1-2 spiders, 0-2 inputs/outputs attached in every way, both edge types, optional inner '
                            'edge, three vertex numberings (sampled)',
                  'adapter': 'rtc/adapters.py: pyzx 0.6-style API on the installed pyzx 0.10 GraphS; semantics by pyzx.tensorfy'})
    idx = 0
    for d in gen(max_boxes):
        idx += 1
        if idx % shard[1] != shard[0] or not simple(d):
            continue
        check_export(rep, d)
        rep.sample(repr(d))
    specs = graphs(tier)
    step = 11 if tier == 'quick' else 3
    for j, spec in enumerate(specs):
        if j % step:
            continue
        for order in ('std', 'outs_first', 'spiders_first', 'declared_backwards'):
            idx += 1
            if idx % shard[1] != shard[0]:
                continue
            check_import(rep, spec, order)
    # wide diagrams whose import has to move a wire three or more places: distinguishable wires (a different phase on
    # each) permuted by every permutation of four wires and by the two long cycles on five, and a spider joining the outer wires
    if shard[0] == 1 % shard[1]:
        phases = [Fraction(1, 8), Fraction(1, 4), Fraction(3, 8), Fraction(1, 2), Fraction(5, 8)]
        for width, perms in ((4, list(itertools.permutations(range(4)))), (5, [(4, 0, 1, 2, 3), (1, 2, 3, 4, 0), (4, 3, 2, 1, 0)])):
            marks = Id(0)
            for k in range(width):
                marks = marks @ Z(1, 1, phases[k])
            for perm in perms:
                check_export(rep, marks >> by_swaps(perm))
        for width in (4, 5):
            marks = Id(0)
            for k in range(width):
                marks = marks @ Z(1, 1, phases[k])
            join = by_swaps([0] + [k + 1 for k in range(1, width - 1)] + [1]) \
                >> Z(2, 1, Fraction(1, 4)) @ Id(width - 2)
            check_export(rep, marks >> join)
    if shard[0] == 0:
        check_refusals(rep)
        check_boundary_edges(rep)
    return rep.result()
