"""C03 bounded stand-in: equality is structural / an equivalence, box == wrapping diagram, equal
values have equal hashes, repr evaluates back to an equal value -- over enumerated values of the
free classes (cat, monoidal, rigid) including adjoint types, daggered boxes, data payloads, sums."""
import itertools

from discopy import cat, monoidal, rigid
from rtc import common
from rtc.report import Report

SHARDED = True


def cat_values():
    x, y, z = cat.Ob('x'), cat.Ob('y'), cat.Ob(3)
    f, g, h = cat.Box('f', x, y), cat.Box('g', y, z, data=[1, {'a': 2}]), cat.Box('f', x, y, data=7)
    falsy = [cat.Box('f', x, y, data=d) for d in (0, [], {}, ())]
    falsy += [cat.Box('f', x, y, data=d) for d in ('a', '', 'ab', ('x', 1))]      # string payloads   # pairwise unequal falsy payloads (0 == 0.0 == False are outside the repr-faithful precondition)
    vals = falsy + [x, y, z, cat.Ob('x'), f, g, h, f.dagger(), g.dagger(), cat.Box('f', x, y), cat.Id(x), cat.Id(y),
            f >> g, cat.Arrow(x, y, [f]), cat.Arrow(x, z, [f, g]), f >> f.dagger(), (f >> g).dagger(),
            cat.Id(x) >> f, f + h, cat.Sum([f, h]), cat.Sum([h, f]), cat.Sum([], x, y), cat.Sum([f]),
            cat.Box('f', y, x), f.dagger().dagger(),
            # sums however they were built (tuple / list of terms), bubbles with default and explicit types
            cat.Sum((f, h)), f.bubble(), h.bubble(), cat.Box('f', x, y).bubble(),
            f.bubble(dom=y, cod=x), (f >> g).bubble(),
            # bubbles that differ in one declared type only
            f.bubble(dom=y, cod=z), f.bubble(dom=z, cod=x), f.bubble(dom=y, cod=y), f.bubble(dom=x, cod=z)]
    ns = {'Ob': cat.Ob, 'Box': cat.Box, 'Arrow': cat.Arrow, 'Id': cat.Id, 'Sum': cat.Sum, 'Bubble': cat.Bubble}
    return vals, ns


def monoidal_values():
    from discopy.monoidal import Ty, Box, Id, Diagram, Swap, Sum, PRO
    x, y = Ty('x'), Ty('y')
    f, g, s = Box('f', x, y @ y), Box('g', y, x, data=(1, 2)), Box('s', Ty(), Ty())
    D = list(common.gen_diagrams([Ty(), x], [f, g, s, g.dagger(), Swap(x, y)], 2))
    falsy = [Box('f', x, y @ y, data=d) for d in (0, [], ())] + [Box('f', x, y @ y, data=0).dagger()]
    vals = falsy + [Ty(), x, y, x @ y, Ty('x', 'y'), Ty(1), PRO(2), PRO(0), Ty(1, 1), f, g, s, f.dagger(), Swap(x, y), Swap(y, x),
            Box('f', x, y @ y), Id(x), Id(Ty()), Id(x @ y), f @ g, f >> g @ g, Diagram(x, y @ y, [f], [0]),
            f + f, Sum([f]), Sum([], x, y), f @ s, s @ f,
            Sum((f, f)), f.bubble(), Box('f', x, y @ y, data='label'),
            # layers are boxes of the layer view: equal exactly when left, box and right are
            (Id(x) @ f).layers.boxes[0], (Id(x) @ Box('g', x, y @ y)).layers.boxes[0], (f @ Id(x)).layers.boxes[0],
            (Id(x) @ f).layers.boxes[0], Box('f', x, y @ y, data=0).bubble(), f.bubble(dom=x @ x, cod=y), (f >> g @ g).bubble(),
            f.bubble() >> g @ g, f.bubble(dom=x @ x, cod=y @ y), f.bubble(dom=x, cod=y), f.bubble(dom=x, cod=y @ y @ x),
            f.bubble(dom=x @ x, cod=y @ y) >> g @ g, f.bubble(dom=x @ x, cod=y) >> g] + D[:40]
    from discopy.monoidal import Bubble
    ns = {'Ty': Ty, 'Box': Box, 'Id': Id, 'Diagram': Diagram, 'Swap': Swap, 'Sum': Sum, 'PRO': PRO, 'Ob': cat.Ob,
          'Bubble': Bubble, 'Layer': monoidal.Layer}
    return vals, ns


def rigid_values():
    from discopy.rigid import Ty, Ob, Box, Id, Diagram, Cup, Cap, Swap, PRO
    x, y = Ty('x'), Ty('y')
    f = Box('f', x @ y.l, y.r.r)
    falsy = [Box('f', x @ y.l, y.r.r, data=d) for d in (0, [])]
    vals = falsy + [Ob('x'), Ob('x', z=1), Ob('x', z=-2), cat.Ob('x'), x, x.l, x.r, x.l.r, x.r.r, x @ y.l, Ty(Ob('x', z=1), 'y'),
            f, f.dagger(), Box('f', x @ y.l, y.r.r), Cup(x, x.r), Cap(x.r, x), Cup(x.l, x), Cap(x, x.l), Cup(x, x.r).dagger(),
            Swap(x, y.l), Id(x.l), Id(Ty()), f @ Id(x.r), Cap(x, x.l) @ Id(x) >> Id(x) @ Cup(x.l, x),
            Diagram(x @ y.l, y.r.r, [f], [0]), Id(x).transpose(), PRO(2), PRO(2).l]
    ns = {'Ty': Ty, 'Ob': Ob, 'Box': Box, 'Id': Id, 'Diagram': Diagram, 'Cup': Cup, 'Cap': Cap, 'Swap': Swap, 'PRO': PRO}
    return vals, ns


def structural_key(v):
    """the data the property says equality is determined by"""
    if isinstance(v, monoidal.Layer):
        return ('L', repr(v._left), repr(v._box), repr(v._right))
    if isinstance(v, cat.Sum):
        return ('Sum', repr(v.dom), repr(v.cod), tuple(structural_key(t) for t in v.terms))
    if isinstance(v, monoidal.Diagram):
        return ('D', repr(v.dom), repr(v.cod), tuple(repr(b) for b in v.boxes), tuple(v.offsets))
    if isinstance(v, cat.Arrow):
        return ('A', repr(v.dom), repr(v.cod), tuple(repr(b) for b in v.boxes))
    return None


def check_family(rep, name, vals, ns, shard):
    n = len(vals)
    for i, a in enumerate(vals):
        if i % shard[1] != shard[0]:
            continue
        ra = '%s: %r' % (name, a)
        rep.case((name, i, repr(a)))
        if not a == a:
            rep.fail('C03:eq.reflexive', 'a != a', ra)
        try:
            ha = hash(a)
        except TypeError:
            ha = None          # unhashable payload (lists / dicts as data): outside the claim
        try:
            back = eval(repr(a), dict(ns))
            if not (back == a and a == back):
                rep.fail('C03:repr.roundtrip', 'eval(repr(a)) = %r is not == a' % (back,), ra)
        except Exception as e:
            rep.fail('C03:repr.evaluates', 'repr does not evaluate: %r' % (e,), ra)
        for j, b in enumerate(vals):
            ab, ba = (a == b), (b == a)
            rep.count('pairs')
            if bool(ab) != bool(ba):
                rep.fail('C03:eq.symmetric', '(a == b) = %r but (b == a) = %r' % (ab, ba), ra + ' ; %r' % (b,))
            if ab and ha is not None:
                try:
                    if hash(b) != ha:
                        rep.fail('C03:hash.consistent', 'equal values with different hashes', ra + ' ; %r' % (b,))
                except TypeError:
                    pass
            ka, kb = structural_key(a), structural_key(b)
            if ka is not None and kb is not None and type(a) is type(b):
                if bool(ab) != (ka == kb):
                    rep.fail('C03:eq.structural', 'same class: == is %r but (dom, cod, boxes, offsets) %s' % (
                        ab, 'agree' if ka == kb else 'differ'), ra + ' ; %r' % (b,))
            if ab:
                for c in vals[:25]:
                    if (b == c) and not (a == c):
                        rep.fail('C03:eq.transitive', 'a == b == c but a != c', ra + ' ; %r ; %r' % (b, c))
        # a box equals the one-box diagram that wraps it
        if isinstance(a, monoidal.Box) and not isinstance(a, cat.Sum):
            w = monoidal.Diagram(a.dom, a.cod, [a], [0]) if not isinstance(a, rigid.Box) else \
                rigid.Diagram(a.dom, a.cod, [a], [0])
            if not (a == w and w == a):
                rep.fail('C03:eq.box_vs_wrapper', 'a box is not == the one-box diagram wrapping it', ra)
            elif hash(a) != hash(w):
                rep.fail('C03:hash.box_vs_wrapper', 'box and wrapping diagram hash differently', ra)
        if isinstance(a, cat.Box) and not isinstance(a, (monoidal.Box, cat.Sum)) and isinstance(a.dom, cat.Ob):
            w = cat.Arrow(a.dom, a.cod, [a])
            if not (a == w and w == a) or hash(a) != hash(w):
                rep.fail('C03:eq.box_vs_wrapper', 'cat.Box vs Arrow wrapping it', ra)


def check_functor_keys(rep):
    """equal values can be used interchangeably as keys of a functor's mapping"""
    from discopy.rigid import Ty, Box, Functor, Diagram
    x, y = Ty('x'), Ty('y')
    f = Box('f', x, y)
    F = Functor({x: y, y: x}, {f: Box('g', y, x)})
    for key in (Box('f', x, y), Diagram(x, y, [f], [0]), Ty('x') @ Ty()):
        rep.case(('functor key', repr(key)))
        try:
            F(key)
        except KeyError as e:
            rep.fail('C03:hash.functor_key', 'an equal value is not found as a key: %r' % (e,), repr(key))


def check_mixed_and_downgraded(rep):
    """equal values of mixed classes (rigid objects inside plain monoidal types, PRO of both modules, downgraded diagrams):
    == symmetric, transitive, and equal values hash alike -- also when one of them was hashed before it was downgraded"""
    from discopy import rigid as R, monoidal as M
    x, y = R.Ty('x'), R.Ty('y')
    vals = [M.Ty('x'), M.Ty(R.Ob('x')), R.Ty('x'), R.Ty('x').downgrade(), M.Ty(cat.Ob('x')), M.Ty('x', 'y'), (x @ y).downgrade(),
            M.Ty(R.Ob('x'), 'y'), x @ y, M.PRO(2), R.PRO(2), R.PRO(2).downgrade(), M.Ty(1, 1), M.PRO(1), R.PRO(1),
            R.Box('f', x, y), R.Box('f', x, y).downgrade(), M.Box('f', M.Ty('x'), M.Ty('y')),
            M.Box('f', M.Ty(R.Ob('x')), M.Ty('y')), R.Id(x).downgrade(), M.Id(M.Ty('x')), R.Id(x),
            (R.Box('f', x, y) @ R.Id(x)).downgrade(), M.Box('f', M.Ty('x'), M.Ty('y')) @ M.Id(M.Ty(R.Ob('x')))]
    # hashed first, downgraded afterwards, against the same value downgraded without ever being hashed
    for mk in (lambda: R.Box('g', x.l, y.r.r), lambda: R.Cup(x, x.r), lambda: R.Cap(x.r, x), lambda: R.Swap(x, y.l),
               lambda: R.Box('g', x.l, y) @ R.Id(x.r)):
        a, b = mk(), mk()
        hash(a)
        for bx in (getattr(a, 'boxes', [a]) or [a]):
            hash(bx)
        vals += [a.downgrade(), b.downgrade()]
    for i, a in enumerate(vals):
        rep.case(('mixed', i, repr(a)))
        for b in vals:
            ab, ba = a == b, b == a
            inp = 'mixed: %r (%s.%s) ; %r (%s.%s)' % (a, type(a).__module__, type(a).__name__, b, type(b).__module__, type(b).__name__)
            if bool(ab) != bool(ba):
                rep.fail('C03:eq.symmetric', '(a == b) = %r but (b == a) = %r' % (ab, ba), inp)
            if ab and hash(a) != hash(b):
                rep.fail('C03:hash.consistent', 'equal values with different hashes', inp)
            if ab:
                for c in vals:
                    if (b == c) and not (a == c):
                        rep.fail('C03:eq.transitive', 'a == b == c but a != c', inp + ' ; %r' % (c,))


def run(tier, seed=0, shard=(0, 1)):
    rep = Report({'values': 'fixed lists of ~25-65 values per family (cat, monoidal incl. all diagrams <= 2 boxes over '
                            '5 boxes, rigid incl. adjoints |z| <= 2, cups, caps, daggers)', 'pairs': 'all', 'triples':
                  'a == b against the first 25 values'})
    for name, fn in (('cat', cat_values), ('monoidal', monoidal_values), ('rigid', rigid_values)):
        vals, ns = fn()
        check_family(rep, name, vals, ns, shard)
        rep.sample('%s: %r' % (name, vals[len(vals) // 2]))
    if shard[0] == 0:
        check_functor_keys(rep)
        check_mixed_and_downgraded(rep)
    return rep.result()
