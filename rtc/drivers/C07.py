"""C07 bounded stand-in: snake removal on enumerated rigid diagrams (boxes, cups, caps in both
orientations, adjoint wires, obstructions on either side): every yielded step and the normal form
are well-typed with the input's dom/cod and denote the same tensor under a rigid functor into
tensors (random real arrays, self-dual dimensions); no yankable cap/cup pair is left; the only
exception is NotImplementedError."""
import numpy

from discopy import rigid, tensor, monoidal
from discopy.rigid import Ty, Box, Id, Cup, Cap, Diagram
from rtc import common
from rtc.report import Report

SHARDED = True


def make_functor(gens, seed):
    rng = numpy.random.RandomState(seed)
    ar = {}
    for b in gens:
        shape = (2,) * (len(b.dom) + len(b.cod))
        ar[b] = rng.randint(-2, 3, size=shape or (1,)).astype(float)
    ob = {Ty('x'): 2, Ty('y'): 2}
    for b in gens:
        for o in list(b.dom) + list(b.cod):
            ob.setdefault(Ty(o.name), 2)       # every atomic type has dimension 2 (adjoints follow from the functor)
    return tensor.Functor(ob, ar)


def yankable_left(d):
    """independent search for a cap whose leg runs straight into the opposite leg of a cup:
    label every wire, follow it through the scan"""
    wires = list(range(len(d.dom)))
    fresh = len(wires)
    caps = {}      # wire id -> (box index, leg)
    for k, (box, off) in enumerate(zip(d.boxes, d.offsets)):
        ins = wires[off:off + len(box.dom)]
        if isinstance(box, Cup):
            a, b = ins
            # cap's right leg into cup's left leg, or cap's left leg into cup's right leg; the pair matches
            # (satisfies a snake equation) iff the straight-through wire keeps its type
            if a in caps and caps[a][1] == 1 and d.boxes[caps[a][0]].cod[:1] == box.dom[1:]:
                return (caps[a][0], k)
            if b in caps and caps[b][1] == 0 and d.boxes[caps[b][0]].cod[1:] == box.dom[:1]:
                return (caps[b][0], k)
        outs = list(range(fresh, fresh + len(box.cod)))
        fresh += len(box.cod)
        if isinstance(box, Cap):
            caps[outs[0]] = (k, 0)
            caps[outs[1]] = (k, 1)
        wires = wires[:off] + outs + wires[off + len(box.dom):]
    return None


def snake_typed(d, cap, cup):
    """the pair satisfies a snake equation iff the straight-through wire keeps its type"""
    return True


def check(rep, d, F):
    from rtc.drivers.C06 import connected
    r = repr(d)
    rep.case(r, nontrivial=any(isinstance(b, (Cup, Cap)) for b in d.boxes))
    want = None
    try:
        want = F(d).array
    except Exception as e:
        rep.fail('C07:functor.input', 'cannot evaluate the input: %r' % (e,), r)
        return
    for left in (False, True):
        tag = ' (left=%r)' % left
        steps = []
        try:
            with common.time_limit(30):
                for k, s in enumerate(d.normalize(left=left)):
                    steps.append(s)
                    if k > 80:
                        break
                nf = ('ok', d.normal_form(left=left)) if len(steps) <= 80 else ('long', None)
        except NotImplementedError:
            nf = ('notimpl', None)
            rep.count('notimplemented')
            if connected(d):
                rep.fail('C07:NotImplementedError.connected', 'NotImplementedError on a diagram whose boxes are all '
                         'connected to one another' + tag, r)
                return
        except common.Hang:
            rep.fail('C07:terminates', 'normalisation neither finished nor raised within 30 s' + tag, r)
            return
        except Exception as e:
            rep.fail('C07:only_NotImplementedError', 'normalisation raised %s: %s%s' % (type(e).__name__, e, tag), r)
            return
        if nf[0] == 'long' and connected(d):
            rep.fail('C07:terminates', 'more than 80 rewrite steps on a connected diagram with <= 5 boxes' + tag, r)
            return
        for k, s in enumerate(steps + ([nf[1]] if nf[0] == 'ok' else [])):
            why = common.wf_reason(s)
            if why:
                rep.fail('C01:snake.step.wf', 'step %d: %s%s' % (k, why, tag), r)
                return
            if (s.dom, s.cod) != (d.dom, d.cod):
                rep.fail('C07:step.dom_cod', 'step %d changes dom/cod%s' % (k, tag), r)
                return
            got = F(s).array
            if got.shape != want.shape or not numpy.allclose(got, want):
                rep.fail('C07:step.semantics', 'step %d denotes another tensor%s' % (k, tag), r)
                return
        if nf[0] == 'ok':
            yl = yankable_left(nf[1])
            if yl is not None:
                rep.fail('C07:no_yankable_left', 'the normal form still has a cap (box %d) running into a cup (box %d)%s'
                         % (yl + (tag,)), r + ' -> %r' % (nf[1],))
            rep.count('normal_forms')


def gen(doms, boxes, max_boxes, max_width=4):
    return common.gen_diagrams(doms, boxes, max_boxes, max_width=max_width, diagram=Diagram)


def run(tier, seed=0, shard=(0, 1)):
    max_boxes = 3 if tier == 'quick' else 4
    x, y = Ty('x'), Ty('y')
    f, g, h, s = Box('f', x, x), Box('g', x.r, x.r), Box('h', x @ x.r, y), Box('s', Ty(), Ty())
    gens = [f, g, h, s]
    boxes = gens + [f.dagger(), Cup(x, x.r), Cap(x.r, x), Cup(x.l, x), Cap(x, x.l), Cup(x.r, x.r.r), Cap(x.l.l, x.l),
                    Cap(x, x.r), Cup(x.r, x)]
    doms = [Ty(), x, x.r, x @ x.r, x.l]
    rep = Report({'max_boxes': max_boxes, 'max_width': 4, 'boxes': [repr(b) for b in boxes], 'doms': [repr(t) for t in doms],
                  'semantics': 'rigid functor into tensors, dimension 2, random integer arrays (seeded)',
                  'steps': '<= 80 per diagram, both left and right normalisation, 30 s budget',
                  'self_adjoint': '7 diagrams over rigid.PRO(1) (dimension 3) with closed loops, alone / nested / beside snakes'})
    F = make_functor(gens, seed)
    for idx, d in enumerate(gen(doms, boxes, max_boxes)):
        if idx % shard[1] != shard[0] or not len(d):
            continue
        check(rep, d, F)
        rep.sample(repr(d))
    if shard[0] == 0:
        # transposes and nested snakes with obstructions
        extra = [Id(x).transpose(), Id(x).transpose(left=True), f.transpose(), f.transpose(left=True),
                 f.transpose().transpose(left=True), Id(x @ x).transpose(), (f @ f >> Id(x) @ f).transpose(),
                 Cap(x, x.l) @ f >> f @ Cup(x.l, x) >> f, f @ Cap(x.r, x) >> Cup(x, x.r) @ f,
                 s @ Cap(x, x.l) @ f @ s >> f @ Id(x.l) @ f >> Id(x) @ Cup(x.l, x) @ s]
        for d in extra:
            check(rep, d, F)
        # a cup directly above a cap at the same offset, inside a connected diagram (both flags must terminate)
        tie = f >> Cup(x, x.r) @ Id(x) if False else None
        ff, gg = Box('ff', x, x @ x.r @ x), Box('gg', x.r @ x @ x, x)
        for d in (ff >> Cup(x, x.r) @ Id(x) >> Cap(x.r, x) @ Id(x) >> gg,
                  Cap(x, x.l) @ Id(x) >> Id(x) @ Cup(x.l, x) >> ff >> Cup(x, x.r) @ Id(x) >> Cap(x.r, x) @ Id(x) >> gg):
            Fx = make_functor([ff, gg], seed)
            check(rep, d, Fx)
        # snakes of both hands next to boxes with wide codomains (the obstruction is moved past the cap / cup by the third
        # geometric branch of interchange), and several rewrite rounds in which the indices of the caps shift: a box between
        # two snakes, a cap-shaped state after a snake, a second wire with an obstructing box
        m_, p_, q_ = Ty('m'), Ty('p'), Ty('q')
        wide = Box('wide', m_, x.r @ p_ @ q_)
        narrow, wide2 = Box('narrow', Ty(), p_), Box('wide2', m_, q_ @ q_ @ q_)
        st = Box('st', Ty(), x.r @ x)
        snake_r = Cap(x.r, x) @ Id(x.r) >> Id(x.r) @ Cup(x, x.r)          # : x.r -> x.r
        snake_l = Id(x) @ Cap(x.r, x) >> Cup(x, x.r) @ Id(x)              # : x -> x
        rounds = [Cap(x.r, x) @ Id(m_) >> Id(x.r @ x) @ wide >> Id(x.r) @ Cup(x, x.r) @ Id(p_ @ q_),
                  Id(m_) @ Cap(x, x.l) >> wide2 @ Id(x @ x.l) >> Id(q_ @ q_ @ q_) @ Box('k', x, x) @ Id(x.l),
                  narrow @ Cap(x.r, x) @ Id(m_) >> Id(p_ @ x.r @ x) @ wide2 >> Id(p_ @ x.r @ x) @ Box('e3', q_ @ q_ @ q_, x.r)
                  >> Id(p_ @ x.r) @ Cup(x, x.r),
                  snake_r >> g >> snake_r, snake_l >> f >> snake_l, snake_l >> f >> snake_l >> f.dagger() >> snake_l,
                  snake_r >> st @ Id(x.r) >> Id(x.r) @ Cup(x, x.r),
                  snake_l @ Id(x) >> f @ f >> snake_l @ snake_l,
                  Id(x) @ snake_r >> f @ g >> Id(x) @ snake_r >> Cup(x, x.r)]
        # two EQUAL caps: the first one is not part of a snake (its legs feed a box / reach the codomain), the second one is
        g2, m2 = Box('g2', x.r @ x, y), Box('m2', y @ x, y)
        rounds += [Cap(x.r, x) @ Id(x) >> g2 @ Id(x) >> Id(y @ x) @ Cap(x.r, x) >> Id(y) @ Cup(x, x.r) @ Id(x) >> m2,
                   Cap(x.r, x) @ Id(x) >> Id(x.r @ x) @ snake_l >> g2 @ Id(x) >> m2,
                   Cap(x.r, x) @ Cap(x.r, x) @ Id(x.r) >> g2 @ Id(x.r) @ Cup(x, x.r) >> Box('m3', y @ x.r, y)]
        Fw = make_functor(gens + [wide, narrow, wide2, st, Box('k', x, x), Box('e3', q_ @ q_ @ q_, x.r), g2, m2,
                                  Box('m3', y @ x.r, y)], seed)
        for d in rounds:
            check(rep, d, Fw)
        # self-adjoint wires (rigid.PRO): a closed loop Cap >> Cup is a scalar (the dimension), not a snake
        p = rigid.PRO(1)
        u = Box('u', p, p)
        Fp = tensor.Functor({p: 3}, {u: numpy.arange(9).reshape(3, 3).astype(float)})
        loops = [Cap(p, p) >> Cup(p, p), Cap(p, p) @ Cap(p, p) >> Id(p) @ Cup(p, p) @ Id(p) >> Cup(p, p),
                 Cap(p, p) >> u @ Id(p) >> Cup(p, p), Id(p) @ Cap(p, p) >> Cup(p, p) @ Id(p),
                 Id(p) @ Cap(p, p) @ Cap(p, p) >> Cup(p, p) @ Id(p) @ Cup(p, p) >> u,
                 u @ (Cap(p, p) >> Cup(p, p)), Cap(p, p) @ Id(p) >> Id(p) @ Cup(p, p) >> u]
        for d in loops:
            check(rep, d, Fp)
    return rep.result()
