"""C19 bounded stand-in: cartesian diagrams called on tuples against an independent box-by-box
evaluator (wire list, splice outputs in place); Swap / Copy / Discard of every width <= 5 as wire
permutations / duplications / deletions; naturality axioms; arity errors.
Contract precondition (DESIGN 6/C19): wire values are not tuples."""
import itertools

from discopy import cartesian
from discopy.cartesian import Box, Id, Swap, Copy, Discard, Diagram, Function
from discopy.cat import AxiomError
from rtc import common
from rtc.report import Report

SHARDED = True
VALUES = [0, 1, -3, 2.5, 'a', '', None, False, 7, [5], [], [1, 2], {'k': 1}]     # any non-tuple value, incl. lists


def reference(d, values):
    """feed the inputs through the boxes in order, each applied to the wires at its offset"""
    wires = list(values)
    for box, off in zip(d.boxes, d.offsets):
        n = len(box.dom)
        out = box.function(*wires[off:off + n])
        m = len(box.cod)
        # one output: the bare value, or (the library's own convention, wire values not being tuples) a 1-tuple of it
        outs = list(out) if m != 1 else [out[0] if isinstance(out, tuple) and len(out) == 1 else out]
        if m != 1 and not isinstance(out, tuple):
            raise ValueError('box %r returned a non-tuple for %d outputs' % (box, m))
        wires = wires[:off] + outs + wires[off + n:]
    return wires


def boxes():
    return [
        Box('add', 2, 1, lambda x, y: (x, y)),                 # pairing as an opaque value? no: keep atoms
    ]


def atom_boxes():
    tag = lambda name: (lambda *xs: '%s(%s)' % (name, ','.join(map(repr, xs))))
    return [
        Box('f11', 1, 1, tag('f11')), Box('f21', 2, 1, tag('f21')),
        Box('f12', 1, 2, lambda x: ('l' + repr(x), 'r' + repr(x))),
        Box('f01', 0, 1, lambda: 'c'), Box('f10', 1, 0, lambda x: ()), Box('f00', 0, 0, lambda: ()),
        Box('f02', 0, 2, lambda: ('c0', 'c1')), Box('f20', 2, 0, lambda x, y: ()),
        Box('zero', 0, 1, lambda: 0), Box('neg', 1, 1, lambda x: 0 if x else 1),
        Box('t11', 1, 1, lambda *xs: tuple('t' + repr(x) for x in xs)),      # variadic code returning a 1-tuple
        cartesian.SWAP, cartesian.COPY, cartesian.DISCARD,
    ]


def gen(doms, bs, max_boxes, max_width=4):
    def rec(dom, width, chosen, offs, depth):
        yield Diagram(dom, width, list(chosen), list(offs))
        if depth == max_boxes:
            return
        for b in bs:
            n, m = len(b.dom), len(b.cod)
            for off in range(width - n + 1):
                if width - n + m <= max_width:
                    yield from rec(dom, width - n + m, chosen + [b], offs + [off], depth + 1)
    for dom in doms:
        yield from rec(dom, dom, [], [], 0)


def call(d, values):
    return common.outcome(lambda: cartesian.tuplify(d(*values)))


def check(rep, d, inputs):
    r = repr(d)
    for values in inputs:
        rep.case((r, repr(values)), nontrivial=len(d) > 0)
        got = call(d, values)
        want = reference(d, values)
        if got[0] != 'ok':
            rep.fail('C19:call.raises', 'calling the diagram raised %r (reference gives %r)' % (got[1], want), '%s(*%r)' % (r, values))
        elif list(got[1]) != want and not (len(want) == 1 and got[1] == (want[0],)):
            rep.fail('C19:call.value', 'got %r, feeding the inputs through the boxes gives %r' % (got[1], want),
                     '%s(*%r)' % (r, values))


def structural(rep):
    vals = ['a', [5], 'c', '', [], None]
    for l in range(0, 4):
        for r_ in range(0, 4):
            s = Swap(l, r_)
            xs = tuple(vals[:l + r_]) if l + r_ <= len(vals) else tuple(range(l + r_))
            rep.case(('swap', l, r_))
            got = call(s, xs)
            want = xs[l:] + xs[:l]
            if got != ('ok', tuple(want)):
                rep.fail('C19:swap', 'Swap(%d, %d)%r = %r, expected %r' % (l, r_, xs, got, want), 'Swap(%d, %d)' % (l, r_))
            why = common.wf_reason(s)
            if why:
                rep.fail('C01:cartesian.swap.wf', why, 'Swap(%d, %d)' % (l, r_))
    for n in range(0, 6):
        xs = tuple(vals[:n]) if n <= len(vals) else tuple(range(n))
        for name, d, want in (('copy', Copy(n), xs + xs), ('discard', Discard(n), ())):
            rep.case((name, n))
            got = call(d, xs)
            if got != ('ok', tuple(want)):
                rep.fail('C19:' + name, '%s(%d)%r = %r, expected %r' % (name, n, xs, got, want), '%s(%d)' % (name, n))
            why = common.wf_reason(d)
            if why:
                rep.fail('C01:cartesian.%s.wf' % name, why, '%s(%d)' % (name, n))
    # naturality of swap, copy, discard for boxes of every arity 0..2 -> 0..2
    bs = [b for b in atom_boxes() if b not in (cartesian.SWAP, cartesian.COPY, cartesian.DISCARD)]
    for f in bs:
        n, m = len(f.dom), len(f.cod)
        for xs in itertools.product(['a', 0, '', [5]], repeat=n):
            inp = '%r on %r' % (f, xs)
            rep.case(('natural', repr(f), repr(xs)))
            lhs, rhs = call(f >> Copy(m), xs), call(Copy(n) >> f @ f, xs)
            if lhs != rhs or lhs[0] != 'ok':
                rep.fail('C19:copy.natural', 'f >> Copy = %r but Copy >> f @ f = %r' % (lhs, rhs), inp)
            lhs, rhs = call(f >> Discard(m), xs), call(Discard(n), xs)
            if lhs != rhs or lhs[0] != 'ok':
                rep.fail('C19:discard.natural', '%r vs %r' % (lhs, rhs), inp)
            for g in bs[:6]:
                k, j = len(g.dom), len(g.cod)
                for ys in itertools.product(['b', 1], repeat=k):
                    lhs = call(f @ g >> Swap(m, j), xs + ys)
                    rhs = call(Swap(n, k) >> g @ f, xs + ys)
                    if lhs != rhs or lhs[0] != 'ok':
                        rep.fail('C19:swap.natural', '%r vs %r' % (lhs, rhs), inp + ' ; %r on %r' % (g, ys))
    # arity errors are refused
    f = atom_boxes()[1]
    for xs in ((), (1,), (1, 2, 3)):
        rep.case(('arity', repr(xs)))
        got = call(f, xs)
        if got[0] != 'exc':
            rep.fail('C19:arity.refused', 'calling a 2-input box on %d values returned %r' % (len(xs), got), repr(xs))
    # Function.then / tensor / id
    F = lambda b: Function(len(b.dom), len(b.cod), b.function)
    for a, b in itertools.product(bs[:8], bs[:8]):
        rep.case(('function', repr(a), repr(b)))
        xs = tuple(['p', 0, 'q', ''][:len(a.dom)])
        ys = tuple(['u', 0][:len(b.dom)])
        t = F(a) @ F(b)
        got = common.outcome(lambda: cartesian.tuplify(t(*(xs + ys))))
        want = reference(a @ b, xs + ys)
        if got[0] != 'ok' or list(got[1]) != want and not (len(want) == 1 and got[1] == (want[0],)):
            rep.fail('C19:Function.tensor', '%r vs %r' % (got, want), '%r @ %r' % (a, b))
        if len(a.cod) == len(b.dom):
            c = F(a) >> F(b)
            got = common.outcome(lambda: cartesian.tuplify(c(*xs)))
            want = reference(a >> b, xs)
            if got[0] != 'ok' or list(got[1]) != want and not (len(want) == 1 and got[1] == (want[0],)):
                rep.fail('C19:Function.then', '%r vs %r' % (got, want), '%r >> %r' % (a, b))
        else:
            if common.outcome(lambda: F(a) >> F(b)) != ('exc', AxiomError):
                rep.fail('C19:Function.then.refuses', 'mismatched arities compose', '%r >> %r' % (a, b))


def records_and_folds(rep):
    """boxes whose several outputs come back as a tuple SUBCLASS (a namedtuple constructor used as the box function), and
    functions placed side by side with the n-ary tensor (three or more operands in one call)"""
    import collections
    Pair = collections.namedtuple('Pair', 'first second')
    Triple = collections.namedtuple('Triple', 'a b c')
    pair, triple = Box('pair', 2, 2, Pair), Box('triple', 3, 3, lambda x, y, z: Triple(z, x, y))
    dup = Box('dup', 1, 2, lambda x: Pair(x, repr(x)))
    tagb = Box('tag', 1, 1, lambda x: 't' + repr(x))
    Id = cartesian.Id
    for d in (pair, pair @ Id(1), Id(1) @ pair, pair >> tagb @ tagb, dup >> pair, Id(1) @ dup >> triple, triple >> Id(1) @ pair,
              cartesian.Swap(1, 1) >> pair >> cartesian.Swap(1, 1), dup @ dup >> Id(1) @ pair @ Id(1), cartesian.Copy(2) >> pair @ pair):
        n = len(d.dom)
        check(rep, d, [tuple(VALUES[(k + j) % len(VALUES)] for j in range(n)) for k in (0, 3, 5)])
    # n-ary tensor of Functions
    F = lambda b: cartesian.Function(len(b.dom), len(b.cod), b.function)
    inc, dbl, neg = Box('inc', 1, 1, lambda x: 'inc(%r)' % (x,)), Box('dbl', 1, 1, lambda x: 'dbl(%r)' % (x,)), Box('neg', 1, 1, lambda x: 'neg(%r)' % (x,))
    mrg, unit, drop = Box('mrg', 2, 1, lambda x, y: 'mrg(%r, %r)' % (x, y)), Box('unit', 0, 1, lambda: 'u'), Box('drop', 1, 0, lambda x: ())
    for ops in ((inc, dbl, neg), (inc, dbl), (inc, mrg, dbl), (unit, inc, drop, dbl), (dbl, dbl, inc), (mrg, unit, neg, inc), (drop, drop, inc)):
        n = sum(len(b.dom) for b in ops)
        xs = tuple(VALUES[j % len(VALUES)] for j in range(n))
        want = []
        k = 0
        for b in ops:
            out = b.function(*xs[k:k + len(b.dom)])
            want += list(out) if len(b.cod) != 1 else [out]
            k += len(b.dom)
        for nm, build in (('first.tensor(*rest)', lambda: F(ops[0]).tensor(*[F(b) for b in ops[1:]])),
                          ('id(0).tensor(*all)', lambda: cartesian.Function.id(0).tensor(*[F(b) for b in ops])),
                          ('nested @', lambda: __import__('functools').reduce(lambda a_, b_: a_ @ b_, [F(b) for b in ops]))):
            inp = '%s of %s on %r' % (nm, [b.name for b in ops], xs)
            rep.case(('nary', inp))
            got = common.outcome(lambda: cartesian.tuplify(build()(*xs)))
            if got[0] != 'ok' or (list(got[1]) != want and not (len(want) == 1 and got[1] == (want[0],))):
                rep.fail('C19:Function.tensor.nary', 'got %r, side by side gives %r' % (got, want), inp)


def run(tier, seed=0, shard=(0, 1)):
    max_boxes = 2 if tier == 'quick' else 3
    bs = atom_boxes()
    rep = Report({'diagrams': 'all cartesian diagrams with <= %d boxes over 13 boxes (arities 0..2 -> 0..2, swap, copy, '
                              'discard) on 0..3 input wires, width <= 4' % max_boxes,
                  'inputs': '2-3 tuples per diagram drawn from %r (falsy values included)' % (VALUES,),
                  'structural': 'Swap(l, r) for l, r <= 3; Copy(n), Discard(n) for n <= 5; naturality for 10 boxes'})
    for idx, d in enumerate(gen([0, 1, 2, 3], bs, max_boxes)):
        if idx % shard[1] != shard[0]:
            continue
        n = len(d.dom)
        inputs = [tuple(VALUES[(k + j) % len(VALUES)] for j in range(n)) for k in (0, 3, 5, 8, 9)][:2 if n == 0 else 5]
        check(rep, d, inputs)
        rep.sample(repr(d))
    if shard[0] == 0:
        structural(rep)
    if shard[0] == 1 % shard[1]:
        records_and_folds(rep)
    return rep.result()
