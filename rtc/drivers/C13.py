"""C13 bounded stand-in: export to tket, run on an exact simulator (rtc/tksim.py, independent of
discopy and of pytket's own simulators), post-process with the recorded post-selection, scalar and
classical post-processing through discopy's own backend code path (mock backend returning exact
frequencies), and compare with the circuit's own mixed evaluation; re-import; import of tket circuits."""
import itertools

import numpy
import pytket

from discopy.quantum import gates, circuit, tk
from discopy.quantum.circuit import Measure, Discard, bit, qubit, Id
from discopy.quantum.gates import Rx, Rz, CRz, Ket, Bra, Bits, ClassicalGate, scalar, Controlled
from rtc import tksim, cqsim, qsim
from rtc.report import Report

SHARDED = True


class ExactBackend:
    """a backend that returns exact frequencies of the pytket circuits it is given"""

    def process_circuits(self, circuits, n_shots=None, seed=None):
        self.circuits = list(circuits)
        return list(range(len(self.circuits)))

    def get_result(self, handle):
        probs = tksim.simulate(self.circuits[handle])

        class Result:
            def get_counts(self_):
                return dict(probs)
        return Result()


def local_distribution(c):
    return numpy.array(c.init_and_discard().eval(mixed=True).array, dtype=complex)


def layers(ty):
    out = []
    n = len(ty)
    NOT = ClassicalGate('NOT', 1, 1, [0, 1, 1, 0])
    for off in range(n):
        left, right = ty[:off], ty[off + 1:]
        if ty[off:off + 1] == qubit:
            for g in (gates.H, gates.X, gates.Y, gates.S, gates.T, gates.S.dagger(), gates.T.dagger(), Rx(0.3), Rz(0.77),
                      Measure(), Discard(), Bra(0), Bra(1), Measure(destructive=False)):
                out.append(Id(left) @ g @ Id(right))
        else:
            for g in (NOT, Discard(bit)):
                out.append(Id(left) @ g @ Id(right))
        if off + 1 < n:
            pair, right2 = ty[off:off + 2], ty[off + 2:]
            if pair == qubit @ qubit:
                for g in (gates.CX, gates.CZ, gates.SWAP, CRz(0.3)):
                    out.append(Id(left) @ g @ Id(right2))
            if pair == bit @ bit:
                out.append(Id(left) @ circuit.Swap(bit, bit) @ Id(right2))
    for off in range(n + 1):
        out.append(Id(ty[:off]) @ Ket(1) @ Id(ty[off:]))
        out.append(Id(ty[:off]) @ Ket(0) @ Id(ty[off:]))
    out.append(Id(ty) @ Bits(0))
    out.append(Id(ty) @ scalar(0.5))
    return out


def gen(dom, depth, max_width=3):
    def rec(c, d):
        yield c
        if d == depth:
            return
        for l in layers(c.cod):
            if len(l.cod) <= max_width:
                yield from rec(c >> l, d + 1)
    yield from rec(Id(dom), 0)


def _repaired_add_bit(self, unit, offset=None):
    """tk.Circuit.add_bit with the known defect F23 repaired (the new input wire of post_processing is inserted at the
    new bit's register position instead of last); used only to attribute a failure to F23 exactly"""
    from pytket.circuit import Circuit as _TkCircuit
    if offset is not None:
        index = unit.index[0] - len([i for i in self.post_selection if i < unit.index[0]])
        n_inputs = len(self.post_processing.dom)
        self.post_processing = Id(bit ** index) @ Id.swap(bit, bit ** (n_inputs - index)) >> self.post_processing @ Id(bit)
        self.post_processing >>= Id(bit ** offset) @ Id.swap(self.post_processing.cod[offset:-1], bit)
    _TkCircuit.add_bit(self, unit)


def bits_left_of_live_bit(c):
    """a (non-daggered) Bits box is prepared while another classical bit is live: prepare_bits may then insert the new
    register bit before an existing one (to the left of a live bit, or after out-of-order measurements)"""
    for left, box, right in c.layers:
        if isinstance(box, Bits) and not box.is_dagger and (left.count(bit) or right.count(bit)):
            return True
    return False


def only_F23(c, want):
    """the export agrees with local evaluation once add_bit alone is replaced by its repaired version"""
    saved = tk.Circuit.add_bit
    tk.Circuit.add_bit = _repaired_add_bit
    try:
        got = numpy.array(c.eval(backend=ExactBackend(), normalize=False).array, dtype=complex)
        back = numpy.array(tk.from_tk(c.to_tk()).eval(mixed=True).array, dtype=complex)
        return got.size == want.size and numpy.allclose(got.reshape(want.shape), want, atol=1e-9) \
            and back.size == want.size and numpy.allclose(back.reshape(want.shape), want, atol=1e-9)
    except Exception:
        return False
    finally:
        tk.Circuit.add_bit = saved


def _is_classical_gate(box):
    return isinstance(box, ClassicalGate) and not isinstance(box, Bits) or isinstance(box, Bits) and box.is_dagger


def override_after_classical_gate(c):
    """a Measure(override_bits=True) comes after a classical gate was recorded: the live bit it overrides is by then an
    output of post_processing, not a register bit (known finding F30)"""
    seen = False
    for box in c.boxes:
        if _is_classical_gate(box):
            seen = True
        elif seen and isinstance(box, Measure) and box.override_bits:
            return True
    return False


def bits_after_arity_change(c):
    """a Bits preparation or an overriding Measure comes after a classical gate with a different number of inputs and
    outputs: to_tk's list of live register bits is not updated by classical gates (known finding F31)"""
    seen = False
    for box in c.boxes:
        if _is_classical_gate(box) and len(box.dom) != len(box.cod):
            seen = True
        elif seen and (isinstance(box, Bits) and not box.is_dagger or isinstance(box, Measure) and box.override_bits):
            return True
    return False


def check(rep, c):
    r = repr(c)
    rep.case(r, nontrivial=len(c) > 0)
    want = local_distribution(c)
    try:
        tkc = c.to_tk()
    except NotImplementedError:
        rep.count('not_exportable')
        return
    except Exception as e:
        key = 'C13:to_tk.raises.bits_after_arity_change' if isinstance(e, IndexError) and bits_after_arity_change(c) \
            else 'C13:to_tk.raises'
        rep.fail(key, 'to_tk raised %s: %s' % (type(e).__name__, e), r)
        return
    rep.count('exported')
    discards_bit = any(isinstance(b, Discard) and b.dom.count(bit) for b in c.boxes) \
        or (c.dom.count(bit) and False)
    # (1) exact simulation + discopy's own counts post-processing + post-processing circuit
    try:
        got = c.eval(backend=ExactBackend(), normalize=False)
        got = numpy.array(got.array, dtype=complex)
    except Exception as e:
        rep.fail('C13:backend.raises', 'evaluation through an exact backend raised %s: %s' % (type(e).__name__, e), r)
        return
    if discards_bit and got.size != want.size:
        # known finding F20: to_tk forgets that the bit was discarded; classified apart so that any other
        # disagreement of a circuit that discards bits is still reported
        marg = got.real.reshape((2,) * int(round(numpy.log2(got.size))))
        rep.fail('C13:export.discard_bit.extra_dimension', 'a discarded bit is still an output of the exported circuit '
                 '(%d entries instead of %d)' % (got.size, want.size), r)
        return
    if got.size != want.size or not numpy.allclose(got.reshape(want.shape), want, atol=1e-9):
        # known finding F23: attributed only when the circuit prepares Bits left of a live bit AND the disagreement
        # disappears with add_bit alone repaired; anything else is reported under the generic key
        key = 'C13:export.bits_left_of_live_bit' if bits_left_of_live_bit(c) and only_F23(c, want) \
            else 'C13:export.bits_after_arity_change' if bits_after_arity_change(c) \
            else 'C13:export.override_after_classical_gate' if override_after_classical_gate(c) \
            else 'C13:export.distribution'
        rep.fail(key, 'distribution of the exported tket circuit differs from local evaluation: '
                 '%s vs %s' % (numpy.round(got.flatten(), 4)[:8], numpy.round(want.flatten(), 4)[:8]), r)
        return
    # counts through the backend
    counts = c.get_counts(ExactBackend(), normalize=False)
    probs = want.real.reshape((2,) * len(want.shape)) if want.shape != (1,) else want.real
    pp = len(tkc.post_processing) > 0
    n_out = len(want.shape) if want.shape != (1,) else 0
    for bits, p in counts.items():
        if len(bits) != n_out:
            ref = None          # a key of the wrong length: not a count of the circuit's output bits at all
        else:
            ref = probs[bits] if bits else probs.flatten()[0]
        if ref is None or abs(ref - p) > 1e-9:
            # known finding F22: Circuit.get_counts(backend) returns tket's counts without the classical post-processing
            key = 'C13:get_counts.backend.post_processing_ignored' if pp and _without_pp_matches(tkc, counts) \
                else 'C13:get_counts.backend'
            rep.fail(key, 'count of %r is %r, local evaluation gives %r' % (bits, p, ref), r)
            break
    # (2) import the exported circuit back
    try:
        back = tk.from_tk(tkc)
        again = numpy.array(back.eval(mixed=True).array, dtype=complex)
        if again.size != want.size or not numpy.allclose(again.reshape(want.shape), want, atol=1e-9):
            rep.fail('C13:roundtrip', 'from_tk(to_tk(c)) evaluates differently', r)
    except NotImplementedError:
        # the statement: "importing the exported circuit back yields a circuit with the same mixed evaluation"
        rep.fail('C13:roundtrip.refused', 'from_tk refuses (NotImplementedError) the circuit to_tk exported: %s'
                 % [str(cmd) for cmd in tkc.get_commands()][:6], r)
    except Exception as e:
        rep.fail('C13:from_tk.raises', 'from_tk(to_tk(c)) raised %s: %s' % (type(e).__name__, e), r)


def _without_pp_matches(tkc, counts):
    """the counts are exactly the exported circuit's own (post-selected, scaled) frequencies"""
    raw = tksim.simulate(tkc)
    sel = {}
    for bits, p in raw.items():
        if all(bits[i] == v for i, v in tkc.post_selection.items()):
            key = tuple(v for i, v in enumerate(bits) if i not in tkc.post_selection)
            sel[key] = sel.get(key, 0) + p * tkc.scalar
    return all(abs(sel.get(k, 0) - v) < 1e-9 for k, v in counts.items())


def tket_circuits(depth):
    ops1 = [('H', ()), ('X', ()), ('Y', ()), ('Z', ()), ('S', ()), ('T', ()), ('Sdg', ()), ('Tdg', ()),
            ('Rx', (0.4,)), ('Rz', (1.3,))]
    ops2 = [('CX', ()), ('CZ', ()), ('SWAP', ()), ('CRz', (0.7,)), ('CY', ()), ('CH', ()), ('CS', ()), ('CSdg', ())]
    for n in (1, 2, 3):
        cmds = [(name, p, (q,)) for name, p in ops1 for q in range(n)]
        cmds += [(name, p, (a, b)) for name, p in ops2 for a in range(n) for b in range(n) if a != b]
        cmds += [('Measure', (), (q, q)) for q in range(n)]
        for combo in itertools.product(cmds, repeat=depth):
            c = pytket.Circuit(n, n)
            for name, p, qs in combo:
                if name == 'Measure':
                    c.Measure(qs[0], qs[1])
                else:
                    getattr(c, name)(*(list(p) + list(qs)))
            yield combo, c


# what to_tk itself emits: an operation the exporter produces is an operation the importer supports
SUPPORTED_TKET_OPS = {'H', 'X', 'Y', 'Z', 'S', 'T', 'Sdg', 'Tdg', 'Rx', 'Rz', 'CX', 'CZ', 'SWAP', 'CRz', 'CY', 'CH',
                      'CS', 'CSdg', 'Measure'}


def check_import(rep, combo, tkc):
    r = 'pytket circuit %r' % (combo,)
    rep.case(r)
    want = tksim.simulate(tkc)
    try:
        d = tk.from_tk(tkc)
    except NotImplementedError:
        ops = {c.op.type.name for c in tkc.get_commands()}
        if ops <= SUPPORTED_TKET_OPS:
            rep.fail('C13:import.refused', 'from_tk refused (NotImplementedError) a circuit over the supported operations %s'
                     % sorted(ops), r)
        return
    except Exception as e:
        rep.fail('C13:from_tk.raises', 'from_tk raised %s: %s' % (type(e).__name__, e), r)
        return
    got = numpy.array(d.eval(mixed=True).array, dtype=complex).real
    n = len(tkc.bits)
    got = got.reshape((2,) * n) if n else got
    for bits in itertools.product((0, 1), repeat=n):
        if abs(got[bits] - want.get(bits, 0.0)) > 1e-9:
            rep.fail('C13:import.computes', 'imported circuit gives %r for %r, tket circuit gives %r' % (
                got[bits], bits, want.get(bits, 0.0)), r)
            return


def run(tier, seed=0, shard=(0, 1)):
    depth = 2 if tier == 'quick' else 3
    rep = Report({'export': 'circuits of depth <= %d (quick: all of depth 1, a quarter of depth 2) from the domains qubit, qubit@qubit, Ty(), bit over H X Y S T Rx(.3) '
                            'Rz(.77) CX CZ SWAP CRz(.3) Measure (destructive or not) Discard Bra(0/1) Ket(0/1) Bits(0) NOT '
                            'bit swaps scalar(.5), width <= 3' % depth,
                  'import': 'all pytket circuits with <= %d commands over H X Y Z S T Sdg Tdg Rx Rz CX CZ SWAP CRz CY CH CS CSdg Measure on 1-3 '
                            'qubits (sampled 1/5 in the quick tier)' % depth,
                  'classical': '3 measured qubits (6 ways of measuring, incl. Measure(3)) then <= 2 classical steps among bit '
                               'swaps, NOT on one bit, Bits(0) at every offset (quick: a third of the 2-step sequences); '
                               'mixed and pure scalars at both ends',
                  'angles': 'Rx / Rz / CRz with 9 tket angles in [-3.3, 4.25] half-turns imported, 5 discopy phases in [-1.65, 1.85] '
                            'exported and re-imported, the control in superposition before and after',
                  'controlled': 'Controlled(g), its dagger and double dagger for g in X Y Z H S T S† T†, control and target in superposition, three read-outs',
                  'chains': '5 selections with two or three adjacent post-selected qubits next to measured ones, then Bits(0) at every offset',
                  'holes': 'a middle qubit of three removed (Bra / Measure / Discard), a Ket prepared at every offset, H on it, everything measured',
                  'late': '12 circuits with NOT / Copy / XOR / Match recorded before an overriding Measure, a fresh Bits(0) or nothing',
                  'simulator': 'rtc/tksim.py exact branching state-vector simulation'})
    idx = 0
    for dom in (qubit, qubit @ qubit, circuit.Ty(), bit):
        for c in gen(dom, depth):
            idx += 1
            if idx % shard[1] != shard[0]:
                continue
            if tier == 'quick' and len(c) == depth and (idx // shard[1]) % 4:
                continue        # quick: every depth-1 circuit, a quarter of the deeper ones
            check(rep, c)
            rep.sample(repr(c))
    # multi-step sequences: a qubit is removed (discarded, post-selected, measured), then wires are swapped, then
    # gates that tell the wires apart -- the wire-to-register map is no longer the identity
    if True:
        prep = Ket(0, 0, 0) >> gates.H @ gates.X @ Rx(0.3)
        removals = [Discard(), Bra(0), Measure()]
        tails = [Id(1) @ gates.X >> Measure() @ Measure(), gates.CX >> Measure() @ Discard(), Rz(0.2) @ gates.H >> Measure() @ Measure()]
        for pos in (0, 1, 2):
            for rem in removals:
                mid = Id(qubit ** pos) @ rem @ Id(qubit ** (2 - pos))
                kept = mid.cod
                nb = kept.count(bit)
                for tail in tails:
                    for do_swap in (True, False):
                        idx += 1
                        if idx % shard[1] != shard[0]:
                            continue
                        c = prep >> mid
                        # bring the bit (if any) to the right end so that the two remaining qubits are adjacent
                        if nb:
                            k = list(kept).index(bit[0])
                            for j in range(k, 2):
                                c = c >> Id(c.cod[:j]) @ circuit.Swap(c.cod[j:j + 1], c.cod[j + 1:j + 2]) @ Id(c.cod[j + 2:])
                        if do_swap:
                            c = c >> gates.SWAP @ Id(c.cod[2:])
                        c = c >> tail @ Id(c.cod[2:])
                        check(rep, c)
    # a qubit is removed while a bit wire sits to its LEFT (an earlier measurement), then gates act on the qubits to its right
    if shard[0] == 5 % shard[1]:
        prep3 = Ket(0, 0, 0) >> Rx(0.3) @ gates.X @ gates.H
        for rem in (Discard(), Bra(1), Measure()):
            for tail in (gates.H >> Measure(), Rx(0.2) >> Measure(), gates.X >> Measure()):
                c = prep3 >> Measure() @ Id(2) >> Id(bit) @ rem @ Id(1)
                c = c >> Id(c.cod[:-1]) @ tail
                check(rep, c)
            check(rep, prep3 >> Measure() @ rem @ Measure())
            check(rep, prep3 >> Measure() @ rem @ Id(1) >> Id(bit @ rem.cod) @ Rx(0.4) >> Id(bit @ rem.cod) @ Measure())
        check(rep, Ket(0, 0, 0, 0) >> Rx(0.3) @ gates.X @ gates.H @ Rx(0.6) >> Measure() @ Id(3) >> Id(bit) @ Measure() @ Id(2)
              >> Id(bit @ bit) @ Discard() @ Id(1) >> Id(bit @ bit) @ gates.H >> Id(bit @ bit) @ Measure())
    # several circuits evaluated through the backend in one call, each with its own classical post-processing
    if shard[0] == 6 % shard[1]:
        NOT_ = ClassicalGate('NOT', 1, 1, [0, 1, 1, 0])
        m2 = Ket(0, 0) >> Rx(0.3) @ Rx(0.7) >> Measure() @ Measure()
        batch = [m2, m2 >> NOT_ @ Id(bit), m2 >> circuit.Swap(bit, bit), m2 >> Id(bit) @ NOT_, m2 >> circuit.Swap(bit, bit) >> NOT_ @ Id(bit)]
        for order in (batch, batch[::-1], batch[2:] + batch[:2]):
            r = 'batch %r' % ([repr(c)[-60:] for c in order],)
            rep.case(('batch', r), nontrivial=True)
            try:
                got = order[0].eval(*order[1:], backend=ExactBackend(), normalize=False)
            except Exception as e:
                rep.fail('C13:backend.batch.raises', 'batch evaluation through an exact backend raised %s: %s' % (type(e).__name__, e), r)
                continue
            for k, (c, g) in enumerate(zip(order, got)):
                want = local_distribution(c)
                g = numpy.array(g.array, dtype=complex)
                if g.size != want.size or not numpy.allclose(g.reshape(want.shape), want, atol=1e-9):
                    rep.fail('C13:backend.batch', 'circuit %d of a batch: backend %s vs local %s' % (
                        k, numpy.round(g.flatten(), 4)[:8], numpy.round(want.flatten(), 4)[:8]), r)
                    break
    # classical bookkeeping: all qubits measured (by one wide Measure box or several), then up to two classical steps
    # among bit swaps, NOT on one bit, a fresh Bits(0) at every offset; distinct marginals tell the bits apart
    NOT = ClassicalGate('NOT', 1, 1, [0, 1, 1, 0])
    base = Ket(0, 0, 0) >> Rx(0.3) @ Rx(0.2) @ Rx(0.7)
    stages = [Measure(3), Measure(2) @ Measure(), Measure() @ Measure(2), Measure() @ Measure() @ Measure(),
              Id(1) @ Measure(2) >> Measure() @ Id(bit ** 2), Measure(2) @ Id(1) >> Id(bit ** 2) @ Measure()]

    def classical_steps(ty):
        n = len(ty)
        out = [Id(bit ** k) @ circuit.Swap(bit, bit) @ Id(bit ** (n - k - 2)) for k in range(n - 1)]
        out += [Id(bit ** k) @ NOT @ Id(bit ** (n - k - 1)) for k in range(n)]
        if n < 4:
            out += [Id(bit ** k) @ Bits(0) @ Id(bit ** (n - k)) for k in range(n + 1)]
        return out
    for st in stages:
        m = base >> st
        seqs = [m]
        for s1 in classical_steps(m.cod):
            seqs.append(m >> s1)
            for s2 in classical_steps(s1.cod):
                if tier == 'thorough' or (len(seqs) % 3 == 0):
                    seqs.append(m >> s1 >> s2)
                else:
                    seqs.append(None)
        for c in seqs:
            idx += 1
            if c is None or idx % shard[1] != shard[0]:
                continue
            check(rep, c)
    # controlled named gates and their daggers, control and target in superposition, interfered afterwards so that the
    # phase of the controlled gate shows in the distribution (CS and its dagger differ)
    for inner in (gates.X, gates.Y, gates.Z, gates.H, gates.S, gates.T, gates.S.dagger(), gates.T.dagger()):
        for mk in (lambda g: Controlled(g), lambda g: Controlled(g).dagger(), lambda g: Controlled(g).dagger().dagger()):
            try:
                cg = mk(inner)
            except NotImplementedError:
                continue
            for post in (Measure() @ Measure(), gates.H @ gates.H >> Measure() @ Measure(),
                         Rx(0.4) @ gates.H >> Measure() @ Discard()):
                idx += 1
                if idx % shard[1] != shard[0]:
                    continue
                check(rep, Ket(0, 0) >> gates.H @ Rx(0.3) >> gates.S @ Id(1) >> cg >> post)
    # classical gates first, then an overriding measure or a fresh bit: the live bits are outputs of the recorded
    # post-processing by then (F30), and gates with different numbers of inputs and outputs change how many there are (F31)
    XOR = ClassicalGate('XOR', 2, 1, [1, 0, 0, 1, 0, 1, 1, 0])
    OVER = Measure(1, override_bits=True)
    late = [Ket(1) >> Measure() >> NOT >> Ket(1) @ Id(bit) >> OVER,
            Ket(0) >> Rx(0.3) >> Measure() >> NOT >> Ket(0) @ Id(bit) >> Rx(0.2) @ Id(bit) >> OVER,
            Ket(1) >> Measure() >> gates.Copy() >> Ket(0) @ Id(bit ** 2) >> Id(qubit) @ circuit.Swap(bit, bit) >> OVER @ Id(bit),
            Ket(0) >> Measure() >> gates.Copy() >> Id(bit @ bit) @ Bits(0),
            Ket(1) >> Measure() >> gates.Copy() >> Id(bit) @ Ket(0) @ Id(bit) >> Id(bit) @ OVER,
            Ket(1, 1) >> Measure(2) >> XOR >> Id(bit) @ Bits(0),
            Ket(0, 0) >> Rx(0.3) @ Rx(0.7) >> Measure(2) >> XOR >> Id(bit) @ Bits(0),
            # the same gates with nothing prepared or overridden afterwards: these must agree
            Ket(0, 0) >> Rx(0.3) @ Rx(0.7) >> Measure(2) >> XOR,
            Ket(0) >> Rx(0.3) >> Measure() >> gates.Copy() >> NOT @ Id(bit),
            Ket(0, 0) >> Rx(0.3) @ Rx(0.7) >> Measure() @ Id(1) >> gates.Copy() @ Id(1) >> Id(bit ** 2) @ Measure(),
            Ket(0, 0) >> Rx(0.3) @ Rx(0.7) >> Measure() @ Id(1) >> circuit.Swap(bit, qubit) >> OVER,
            Ket(0, 0) >> Rx(0.3) @ Rx(0.7) >> Measure() @ Measure() >> gates.Match()]
    for c in late:
        idx += 1
        if idx % shard[1] != shard[0]:
            continue
        check(rep, c)
    # post-selection next to measured bits, then bit swaps: the post-selected register must keep its value
    pre = Ket(0, 0, 0) >> gates.X @ gates.H @ Rx(0.3) >> gates.CX @ Id(1)
    for sel in (Bra(1) @ Measure(2), Measure() @ Bra(0) @ Measure(), Measure(2) @ Bra(0)):
        for tail in (circuit.Swap(bit, bit), Id(bit ** 2), circuit.Swap(bit, bit) >> NOT @ Id(bit)):
            idx += 1
            if idx % shard[1] != shard[0]:
                continue
            check(rep, pre >> sel >> tail)
    # a qubit is removed from the MIDDLE of the live wires (post-selected, measured, discarded), then a fresh qubit is prepared
    # at every offset to the right of (and at) the hole, then gates tell the wires apart: the live registers are no longer
    # a contiguous range when the new one is numbered
    base3 = Ket(0, 0, 1) >> gates.H @ Rx(0.3) @ Id(1) >> gates.CX @ Id(1)
    for rem in (Bra(0), Measure(), Discard()):
        mid3 = base3 >> Id(1) @ rem @ Id(1)
        nq = mid3.cod.count(qubit)
        for pos in range(len(mid3.cod) + 1):
            left_t, right_t = mid3.cod[:pos], mid3.cod[pos:]
            with_ket = mid3 >> Id(left_t) @ Ket(0) @ Id(right_t)
            k = list(with_ket.cod).index(qubit[0]) if False else None
            # a gate on the new qubit, then everything is measured (bits stay where they are)
            tail = Id(with_ket.cod)
            c_ = with_ket
            for j, t_ in enumerate(list(with_ket.cod)):
                if with_ket.cod[j:j + 1] == qubit and j == pos:
                    c_ = c_ >> Id(c_.cod[:j]) @ gates.H @ Id(c_.cod[j + 1:])
            for j in range(len(c_.cod)):
                if c_.cod[j:j + 1] == qubit:
                    c_ = c_ >> Id(c_.cod[:j]) @ Measure() @ Id(c_.cod[j + 1:])
            idx += 1
            if idx % shard[1] != shard[0]:
                continue
            check(rep, c_)
    # several post-selections next to each other while a measured bit is live, then a fresh bit: the registers of the
    # post-selected bits are renamed in a chain (i -> i + 1 -> i + 2), every one of them must keep its own value
    pre4 = Ket(0, 0, 0, 0) >> gates.H @ gates.X @ Rx(0.3) @ gates.H >> gates.CX @ Id(2) >> Id(1) @ gates.CX @ Id(1)
    for sel in (Measure() @ Bra(1) @ Bra(0) @ Measure(), Measure() @ Bra(0) @ Bra(1) @ Measure(),
                Measure() @ Bra(1) @ Bra(0) @ Discard(), Bra(1) @ Measure() @ Bra(0) @ Bra(1),
                Measure() @ Bra(1) @ Bra(1) @ Bra(0)):
        m_ = pre4 >> sel
        nb_ = m_.cod.count(bit)
        for pos in range(nb_ + 1):
            idx += 1
            if idx % shard[1] != shard[0]:
                continue
            check(rep, m_ >> Id(bit ** pos) @ Bits(0) @ Id(bit ** (nb_ - pos)))
    # scalars of both kinds at both ends: amplitudes (recorded as their squared modulus) and weights (recorded as is,
    # e.g. the negative weights of parameter-shift gradients)
    for sc in (scalar(0.5, is_mixed=True), scalar(-1, is_mixed=True), scalar(2.5, is_mixed=True), scalar(0.5j), scalar(-2)):
        for c in (sc @ Ket(0) >> Rx(0.3) >> Measure(), Ket(0) >> Rx(0.3) >> Measure() @ sc,
                  sc @ Ket(0, 0) >> gates.H @ Rx(0.3) >> gates.CX >> Measure() @ Discard() >> sc @ Id(bit)):
            idx += 1
            if idx % shard[1] != shard[0]:
                continue
            check(rep, c)
    # batches: several circuits with different scalars / post-selections processed by one backend call
    batch = [scalar(0.5, is_mixed=True) @ Ket(0) >> Rx(0.3) >> Measure(), Ket(0) >> Rx(0.2) >> Measure(),
             scalar(2) @ Ket(0, 0) >> gates.H @ Rx(0.3) >> gates.CX >> Measure() @ Bra(0),
             Ket(0, 0) >> gates.H @ Rx(0.3) >> Measure() @ Measure() >> circuit.Swap(bit, bit)]
    for i, j in itertools.permutations(range(len(batch)), 2):
        idx += 1
        if idx % shard[1] != shard[0]:
            continue
        r = 'batch: %r ; %r' % (batch[i], batch[j])
        rep.case(r)
        try:
            got = batch[i].eval(batch[j], backend=ExactBackend(), normalize=False)
            cnt = batch[i].get_counts(batch[j], backend=ExactBackend(), normalize=False)
        except Exception as e:
            rep.fail('C13:batch.raises', 'batch evaluation raised %s: %s' % (type(e).__name__, e), r)
            continue
        for k, g, cn in zip((i, j), got, cnt):
            want = local_distribution(batch[k])
            g = numpy.array(g.array, dtype=complex)
            if g.size != want.size or not numpy.allclose(g.reshape(want.shape), want, atol=1e-9):
                rep.fail('C13:batch.eval', 'circuit %d of the batch evaluates to %s through the backend, locally to %s'
                         % ((i, j).index(k), numpy.round(g.flatten().real, 4), numpy.round(want.flatten().real, 4)), r)
            probs = want.real.reshape((2,) * len(want.shape))
            if not len(batch[k].to_tk().post_processing) and any(abs(probs[b] - p) > 1e-9 for b, p in cn.items()):
                rep.fail('C13:batch.get_counts', 'counts of circuit %d of the batch disagree with local evaluation: %r'
                         % ((i, j).index(k), cn), r)
    for combo, tkc in tket_circuits(min(depth, 2)):
        idx += 1
        if idx % shard[1] != shard[0] or (tier == 'quick' and (idx // shard[1]) % 5):
            continue
        check_import(rep, combo, tkc)
    # rotation angles over tket's whole range (half-turns modulo 4, negative, > 2): interference makes the controlled
    # phase observable (the control is put in superposition before and after)
    for angle in (-3.3, -1.5, -0.5, 0.5, 1.5, 2.0, 2.5, 3.7, 4.25):
        for gate in ('CRz', 'Rz', 'Rx'):
            idx += 1
            if idx % shard[1] != shard[0]:
                continue
            c = pytket.Circuit(2, 2)
            c.H(0)
            c.Rx(0.7, 1)
            if gate == 'CRz':
                c.CRz(angle, 0, 1)
            else:
                getattr(c, gate)(angle, 0)
                c.CX(0, 1)
            c.H(0)
            c.Rx(0.5, 1)
            c.Measure(0, 0)
            c.Measure(1, 1)
            check_import(rep, ('angles', gate, angle), c)
    # the same range from the discopy side: negative phases and phases >= 1 exported, then imported back
    for phase in (-1.65, -0.25, 0.75, 1.25, 1.85):
        for mk in (lambda p: CRz(p), lambda p: Rz(p) @ Id(1) >> gates.CX, lambda p: Rx(p) @ Id(1) >> gates.CX):
            idx += 1
            if idx % shard[1] != shard[0]:
                continue
            check(rep, Ket(0, 0) >> gates.H @ Rx(0.35) >> mk(phase) >> gates.H @ Rx(0.25) >> Measure(2))
    # two-qubit gates between every ordered pair of 4 and 5 qubits (units far apart, both orders): measurement-free,
    # so the pure part of the imported circuit (everything before the final discards) is compared as a state vector
    for n in (4, 5):
        for a, b in itertools.permutations(range(n), 2):
            for name, p in (('CX', ()), ('CRz', (0.7,))):
                idx += 1
                if idx % shard[1] != shard[0]:
                    continue
                c = pytket.Circuit(n)
                for q in range(n):
                    c.Rx(0.1 + 0.2 * q, q)
                getattr(c, name)(*(list(p) + [a, b]))
                c.Rz(0.3, b)
                r = 'pytket: Rx on all; %s(%d, %d); Rz(.3, %d) on %d qubits' % (name, a, b, b, n)
                rep.case(r)
                try:
                    d = tk.from_tk(c)
                except Exception as e:
                    rep.fail('C13:from_tk.raises', 'from_tk raised %s: %s' % (type(e).__name__, e), r)
                    continue
                k = min([i for i, bx in enumerate(d.boxes) if isinstance(bx, Discard)] or [len(d)])
                got = numpy.array(d[:k].eval().array, dtype=complex).flatten()
                want = tksim.statevector(c)
                if got.shape != want.shape or not numpy.allclose(got, want, atol=1e-9):
                    rep.fail('C13:import.computes.far_units', 'the imported circuit does not compute the tket circuit', r)
    return rep.result()
