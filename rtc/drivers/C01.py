"""C01 bounded stand-in: every public producer is run on enumerated inputs and its result must
satisfy the representation invariant (native re-scan); ill-typed requests must be refused.
Covers the producers that are not (yet) under a discharged contract: rewrite traces, normal
forms, foliation, flatten, swaps, permutations, cups/caps, transposes, functor images in the
monoidal and rigid classes, plus the constructor's refusals."""
import itertools

from discopy import cat, monoidal, rigid
from discopy.cat import AxiomError
from rtc import common
from rtc.report import Report

SHARDED = True


def must_be_wf(rep, what, d, inp):
    rep.count(what)
    why = common.wf_reason(d)
    if why:
        rep.fail('C01:%s.wf' % what, why, inp)


def steps(gen, limit=40):
    out = []
    try:
        for k, d in enumerate(gen):
            out.append(d)
            if k >= limit:
                break
    except NotImplementedError:
        pass
    return out


def check_diagram(rep, d, others):
    r = repr(d)
    must_be_wf(rep, 'generated', d, r)
    must_be_wf(rep, 'dagger', d[::-1], r + '[::-1]')
    n = len(d)
    for k in range(-n - 1, n + 2):
        must_be_wf(rep, 'slice', d[:k], '%s[:%d]' % (r, k))
        must_be_wf(rep, 'slice', d[k:], '%s[%d:]' % (r, k))
    for k in range(n):
        must_be_wf(rep, 'getitem', d[k], '%s[%d]' % (r, k))
    # slices with any other step either are refused or are well-typed (skipping boxes cannot compose in general)
    for step in (2, 3, -2, -3):
        for a in (None, 0, 1):
            got = common.outcome(lambda: d[a::step])
            if got[0] == 'ok':
                must_be_wf(rep, 'slice.step', got[1], '%s[%r::%d]' % (r, a, step))
    # reversed slices with bounds: the selected boxes, daggered, in reverse order -- and well-typed
    for a in [None] + list(range(-n - 1, n + 2)):
        for b in [None] + list(range(-n - 1, n + 2)):
            got = common.outcome(lambda: d[a:b:-1])
            inp = '%s[%r:%r:-1]' % (r, a, b)
            if got[0] != 'ok':
                rep.fail('C01:slice.reversed.raises', 'reversed slice raised %r' % (got[1],), inp)
                continue
            must_be_wf(rep, 'slice.reversed', got[1], inp)
            want = [bx[::-1] for bx in d.boxes[a:b:-1]]
            if got[1].boxes != want:
                rep.fail('C01:slice.reversed.boxes', 'boxes %r, expected %r' % (got[1].boxes, want), inp)
    for left in (False, True):
        for s in steps(monoidal.Diagram.normalize(d, left=left)):
            must_be_wf(rep, 'normalize.step', s, 'normalize(%s, left=%r)' % (r, left))
    try:
        with common.time_limit(30):      # a hang is C06's business (reported there), not a typing failure
            n_f = monoidal.Diagram.normal_form(d)
        must_be_wf(rep, 'normal_form', n_f, 'normal_form(%s)' % r)
    except (NotImplementedError, common.Hang):
        pass
    fol = steps(d.foliate())
    for s in fol:
        must_be_wf(rep, 'foliate.step', s, 'foliate(%s)' % r)
    f = d.foliation()
    must_be_wf(rep, 'foliation', f, 'foliation(%s)' % r)
    must_be_wf(rep, 'flatten', f.flatten(), 'foliation(%s).flatten()' % r)
    for o in others:
        must_be_wf(rep, 'tensor', d @ o, '%s @ %r' % (r, o))
        if d.cod == o.dom:
            must_be_wf(rep, 'then', d >> o, '%s >> %r' % (r, o))
        else:
            got = common.outcome(lambda: d >> o)
            if got != ('exc', AxiomError):
                rep.fail('C01:then.refuses', 'ill-typed composition gave %r' % (got,), '%s >> %r' % (r, o))
    # composing with a formal sum (empty or not) of another type is refused as well
    q = monoidal.Ty('q')
    for what, thunk in (('d >> Sum([], d.cod @ q, q)', lambda: d >> monoidal.Sum([], d.cod @ q, q)),
                        ('Sum([], q, d.dom @ q) >> d', lambda: monoidal.Sum([], q, d.dom @ q) >> d),
                        ('(d + d) >> Sum([], d.cod @ q, q)', lambda: (d + d) >> monoidal.Sum([], d.cod @ q, q))):
        got = common.outcome(thunk)
        rep.count('then.refuses.sum')
        if got != ('exc', AxiomError):
            rep.fail('C01:then.refuses.sum', 'ill-typed composition with an empty sum gave %r' % (got,), '%s with d = %s' % (what, r))
    # adding a formal sum (empty or not) of another hom-set is refused; of the same hom-set it is accepted
    for what, thunk in (('d + Sum([], d.dom @ q, d.cod)', lambda: d + monoidal.Sum([], d.dom @ q, d.cod)),
                        ('Sum([], d.dom, d.cod @ q) + d', lambda: monoidal.Sum([], d.dom, d.cod @ q) + d),
                        ('(d + d) + Sum([], q, q)', lambda: (d + d) + monoidal.Sum([], q, q)),
                        ('Sum([], d.dom, d.cod) + Sum([], q, q)', lambda: monoidal.Sum([], d.dom, d.cod) + monoidal.Sum([], q, q))):
        got = common.outcome(thunk)
        rep.count('add.refuses.sum')
        if got != ('exc', AxiomError):
            rep.fail('C01:add.refuses.sum', 'ill-typed addition of an empty sum gave %r' % (got,), '%s with d = %s' % (what, r))
    ok = common.outcome(lambda: (d + monoidal.Sum([], d.dom, d.cod)) == (d + d.sum([], d.dom, d.cod)))
    if ok[0] != 'ok':
        rep.fail('C01:add.accepts.sum', 'well-typed addition of the empty sum raised %r' % (ok,), r)
    rep.case(r, nontrivial=n > 0)


def check_mixed_classes(rep):
    """boxes typed by plain monoidal types meet rigid diagrams with adjoint wires: a composition is refused, or well-typed
    wire by wire (name and winding number)"""
    n, s_ = rigid.Ty('n'), rigid.Ty('s')
    mn, ms = monoidal.Ty('n'), monoidal.Ty('s')
    h, k = monoidal.Box('h', mn, ms), monoidal.Box('k', ms, mn @ mn)
    f = rigid.Box('f', rigid.Ty('x'), n.r)
    verb = rigid.Box('verb', rigid.Ty(), n.r @ s_)
    cases = [('f >> h', lambda: f >> h), ('verb >> h @ Id(s)', lambda: verb >> h @ monoidal.Id(ms)),
             ('Cap(n, n.l) >> Id(n) @ h', lambda: rigid.Cap(n, n.l) >> rigid.Id(n) @ h),
             ('k >> Cup(n, n.r)', lambda: k >> rigid.Cup(n, n.r)), ('h >> Box(s.l -> n)', lambda: h >> rigid.Box('g', s_.l, n)),
             ('Id(n.l) @ f >> h @ h', lambda: rigid.Id(n.l) @ rigid.Box('a', rigid.Ty(), n) >> h @ h),
             # plain (z = 0) rigid wires do meet plain monoidal boxes
             ('Box(x -> n) >> h', lambda: rigid.Box('f0', rigid.Ty('x'), n) >> h)]
    # wires of a PRO next to wires with other integer names (dimensions, Ty(2)): tensor, slices and composites either are
    # refused or keep every wire as it is
    from discopy import tensor as _tensor
    from discopy.quantum import zx as _zx
    P1, P2 = monoidal.PRO(1), monoidal.PRO(2)
    fp, g2 = monoidal.Box('fp', P1, P2), monoidal.Box('g2', monoidal.Ty(2), monoidal.Ty(2, 3))
    tv = _tensor.Box('v', _tensor.Dim(2), _tensor.Dim(3), [0] * 6)
    cases += [('PRO box @ Ty(2) box', lambda: fp @ g2), ('Ty(2) box @ PRO box', lambda: g2 @ fp),
              ('PRO box @ Ty(2) box >> Id', lambda: (fp @ g2) >> monoidal.Id((fp @ g2).cod)),
              ('Id(PRO(1)) @ Id(Ty(2))', lambda: monoidal.Id(P1) @ monoidal.Id(monoidal.Ty(2))),
              ('(PRO(2) @ Ty(2, 3))[1:]', lambda: monoidal.Id(P2 @ monoidal.Ty(2, 3))[0:0] @ monoidal.Id((P2 @ monoidal.Ty(2, 3))[1:])),
              ('zx.Z(1, 2) @ tensor.Box', lambda: _zx.Z(1, 2, .25) @ tv), ('rigid.PRO box @ rigid.Ty(2) box',
               lambda: rigid.Box('fp', rigid.PRO(1), rigid.PRO(2)) @ rigid.Box('g2', rigid.Ty(2), rigid.Ty(2, 3)))]
    # classical and quantum wires of the same dimension other than 2 (a trit is not a qutrit), and quantum wires of
    # different dimensions: never plugged into one another
    from discopy.quantum import circuit as _qc
    trit, qutrit, ququart = _qc.Ty(_qc.Digit(3)), _qc.Ty(_qc.Qudit(3)), _qc.Ty(_qc.Qudit(4))
    st_c, st_q = _qc.Box('s', _qc.Ty(), trit @ trit), _qc.Box('r', _qc.Ty(), qutrit @ trit)
    gate_q, gate_c = _qc.Box('U', qutrit, qutrit), _qc.Box('N', trit, trit)
    cases += [('state(trit) >> gate(qutrit) @ Id(trit)', lambda: st_c >> gate_q @ _qc.Id(trit)),
              ('state(qutrit @ trit) >> Id(qutrit) @ gate(qutrit)', lambda: st_q >> _qc.Id(qutrit) @ gate_q),
              ('state(qutrit @ trit) >> gate(trit) @ Id(trit)', lambda: st_q >> gate_c @ _qc.Id(trit)),
              ('Circuit(trit, qutrit, [gate(qutrit)], [0])', lambda: _qc.Circuit(trit, qutrit, [gate_q], [0])),
              ('gate(qutrit) >> Box(ququart -> ququart)', lambda: gate_q >> _qc.Box('V', ququart, ququart)),
              ('Swap(trit, qutrit) >> gate(qutrit) @ Id(trit)', lambda: _qc.Swap(trit, qutrit) >> gate_q @ _qc.Id(trit)),
              # well-typed controls
              ('state(qutrit @ trit) >> gate(qutrit) @ gate(trit)', lambda: st_q >> gate_q @ gate_c),
              ('Swap(trit, qutrit) >> gate(qutrit) @ gate(trit)', lambda: _qc.Swap(trit, qutrit) >> gate_q @ gate_c)]
    for what, thunk in cases:
        rep.case(('mixed', what))
        got = common.outcome(thunk)
        if got[0] == 'exc':
            if got[1] not in (AxiomError, TypeError):
                rep.fail('C01:mixed.refuses', 'raised %r' % (got[1],), what)
            continue
        why = common.wf_reason(got[1])
        if why:
            rep.fail('C01:mixed.wf', 'accepted but ' + why, what)


def check_biclosed(rep):
    """slash types that agree on one side only: a composition / rule box over them is refused, or well-typed wire by wire
    (a slash type is one wire, compared structurally through its repr, not with the library's `==`)"""
    from discopy import biclosed as B
    x, y, z, a, w = (B.Ty(n) for n in 'xyzaw')
    noun = B.Box('noun', B.Ty(), a)
    pairs = [(x << y, x << z), (x << z, y << z), (y >> x, y >> z), (y >> x, z >> x), (x << (y << y), x << (y << z)),
             ((x >> y) >> z, (x >> w) >> z), (x << y, x >> y), ((x << y) << z, (x << y) << w), (x << y, x << y)]
    cases = []
    for s_, t_ in pairs:
        same = repr(s_) == repr(t_)
        cases += [('Box(a -> %s) >> Box(%s -> w)' % (s_, t_), same, lambda s_=s_, t_=t_: B.Box('v', a, s_) >> B.Box('u', t_, w)),
                  ('Id(%s) >> Id(%s)' % (s_, t_), same, lambda s_=s_, t_=t_: B.Id(s_) >> B.Id(t_)),
                  ('noun >> Box(a -> %s @ z) >> Box(%s -> w) @ Id(z)' % (s_, t_), same,
                   lambda s_=s_, t_=t_: noun >> B.Box('v', a, s_ @ z) >> B.Box('u', t_, w) @ B.Id(z)),
                  ('Diagram(%s, w, [Box(%s -> w)], [0])' % (s_, t_), same,
                   lambda s_=s_, t_=t_: B.Diagram(s_, w, [B.Box('u', t_, w)], [0])),
                  ('(Box(a -> %s) @ noun >> Box(%s -> w) @ Id(a))[1:]' % (s_, t_), same,
                   lambda s_=s_, t_=t_: (B.Box('v', a, s_) @ noun >> B.Box('u', t_, w) @ B.Id(a))[1:])]
    verb = B.Box('verb', a, (x << y) @ z)
    cases += [('verb >> FA(x << z)', False, lambda: verb >> B.FA(x << z)),
              ('Box(a -> (x << y) @ y) >> FA(x << y)', True, lambda: B.Box('verb', a, (x << y) @ y) >> B.FA(x << y)),
              ('Box(a -> z @ (y >> x)) >> BA(z >> x)', True, lambda: B.Box('verb', a, z @ (z >> x)) >> B.BA(z >> x)),
              ('Box(a -> y @ (z >> x)) >> BA(z >> x)', False, lambda: B.Box('verb', a, y @ (z >> x)) >> B.BA(z >> x)),
              ('FC(x << (y << y), (y << z) << w)', False, lambda: B.FC(x << (y << y), (y << z) << w)),
              ('FC(x << (y << z), (y << z) << w)', True, lambda: B.FC(x << (y << z), (y << z) << w)),
              ('BC(w >> (y >> z), (y >> y) >> x)', False, lambda: B.BC(w >> (y >> z), (y >> y) >> x)),
              ('BC(w >> (y >> z), (y >> z) >> x)', True, lambda: B.BC(w >> (y >> z), (y >> z) >> x))]
    for what, acceptable, thunk in cases:
        rep.case(('biclosed', what))
        got = common.outcome(thunk)
        if got[0] == 'exc':
            if got[1] not in (AxiomError, TypeError):
                rep.fail('C01:biclosed.refuses', 'raised %r' % (got[1],), what)
            elif acceptable:
                rep.fail('C01:biclosed.accepts', 'a well-typed request was refused with %r' % (got[1],), what)
            continue
        why = common.wf_reason(got[1])
        if why:
            rep.fail('C01:biclosed.wf', 'accepted but ' + why, what)
        elif not acceptable:
            rep.fail('C01:biclosed.refuses', 'an ill-typed request was accepted', what)


def check_sum_constructor(rep):
    """Sum([...]) with a term that differs from the others on one side only (or on both) is refused, in every class that has sums"""
    from discopy import tensor as _tensor
    from discopy.quantum import circuit as _circuit, gates as _gates
    x, y, z = monoidal.Ty('x'), monoidal.Ty('y'), monoidal.Ty('z')
    rx, ry, rz = rigid.Ty('x'), rigid.Ty('y'), rigid.Ty('z')
    D2, D3 = _tensor.Dim(2), _tensor.Dim(3)
    q = _circuit.qubit
    families = [
        ('cat', cat.Sum, lambda a, b: cat.Box('f', a, b), cat.Ob('x'), cat.Ob('y'), cat.Ob('z')),
        ('monoidal', monoidal.Sum, lambda a, b: monoidal.Box('f', a, b), x, y, z),
        ('rigid', rigid.Diagram.sum, lambda a, b: rigid.Box('f', a, b), rx, ry, rz.l),
        ('tensor', _tensor.Diagram.sum, lambda a, b: _tensor.Box('f', a, b, [0] * (a @ b and __import__('numpy').prod(list(a @ b)) or 1)), D2, D3, D2 @ D3),
        ('circuit', _circuit.Circuit.sum, lambda a, b: _circuit.Box('f', a, b), q, q @ q, _circuit.bit)]
    for name, mk, box, a, b, c in families:
        try:
            good, good2 = box(a, b), box(a, b)
            bads = [('wrong codomain', box(a, c)), ('wrong domain', box(c, b)), ('both wrong', box(c, a)), ('swapped', box(b, a))]
        except Exception as e:       # noqa
            rep.fail('C01:no_exception', 'building boxes for sums in %s raised %r' % (name, e), name)
            continue
        ok = common.outcome(lambda: mk([good, good2, good]))
        rep.case(('sum.constructor', name, 'well-typed'))
        if ok[0] != 'ok' or (ok[1].dom, ok[1].cod) != (good.dom, good.cod):
            rep.fail('C01:sum.constructor.accepts', 'a well-typed sum gave %r' % (ok,), name)
        for why, bad in bads:
            for pos, terms in (('last', [good, good2, bad]), ('middle', [good, bad, good2]), ('first', [bad, good, good2]),
                               ('second of two', [good, bad])):
                rep.case(('sum.constructor', name, why, pos))
                got = common.outcome(lambda: mk(terms))
                if got != ('exc', AxiomError):
                    rep.fail('C01:sum.constructor.refuses', 'a sum with a term of another type (%s, %s) gave %r' % (why, pos, got), name)
            for pos, kw in (('dom given', dict(dom=good.dom)), ('cod given', dict(cod=good.cod)), ('both given', dict(dom=good.dom, cod=good.cod))):
                if ('dom' in kw and 'cod' not in kw and common.ty_key_any(bad.dom) == common.ty_key_any(good.dom)) \
                        or ('cod' in kw and 'dom' not in kw and common.ty_key_any(bad.cod) == common.ty_key_any(good.cod)):
                    continue         # the side that is not announced is taken from the term: a well-typed request
                rep.case(('sum.constructor', name, why, pos))
                got = common.outcome(lambda: mk([bad], **kw))
                if got != ('exc', AxiomError):
                    rep.fail('C01:sum.constructor.refuses', 'a sum announced with another type than its term (%s, %s) gave %r' % (why, pos, got), name)


def check_constructor(rep, boxes, doms):
    """ill-typed requests are refused; accepted ones are wf"""
    for dom in doms:
        for b in boxes:
            for off in range(-3, 5):
                for cod in doms:
                    inp = 'Diagram(%r, %r, [%r], [%d])' % (dom, cod, b, off)
                    got = common.outcome(monoidal.Diagram, dom, cod, [b], [off])
                    rep.case(inp)
                    if got[0] == 'ok':
                        must_be_wf(rep, 'constructor', got[1], inp)
                        t = monoidal.Id(monoidal.Ty('w')) @ got[1]
                        must_be_wf(rep, 'constructor.then_tensor', t, 'Id(w) @ ' + inp)


def check_structural(rep, tys, cls, shard):
    """swaps, permutations, cups, caps, transposes in the monoidal and rigid classes"""
    idx = 0
    for l, r in itertools.product(tys, tys):
        idx += 1
        if idx % shard[1] != shard[0]:
            continue
        s = cls.swap(l, r)
        must_be_wf(rep, 'swap', s, '%s.swap(%r, %r)' % (cls.__module__, l, r))
        rep.case(('swap', repr(l), repr(r)))
        if (s.dom, s.cod) != (l @ r, r @ l):
            rep.fail('C10:swap.type', 'swap has type %r -> %r' % (s.dom, s.cod), 'swap(%r, %r)' % (l, r))
    for t in tys:
        n = len(t)
        for perm in itertools.permutations(range(n)):
            idx += 1
            if idx % shard[1] != shard[0]:
                continue
            p = cls.permutation(list(perm), t)
            must_be_wf(rep, 'permutation', p, 'permutation(%r, %r)' % (perm, t))
            rep.case(('perm', perm, repr(t)))
    if cls is rigid.Diagram:
        for t in tys:
            idx += 1
            if idx % shard[1] != shard[0]:
                continue
            for a, b, what in ((t, t.r, 'cups'), (t.l, t, 'cups'), (t, t.l, 'caps'), (t.r, t, 'caps')):
                d = getattr(cls, what)(a, b)
                must_be_wf(rep, what, d, '%s(%r, %r)' % (what, a, b))
                rep.case((what, repr(a), repr(b)))
            for left in (False, True):
                d = rigid.Id(t).transpose(left=left)
                must_be_wf(rep, 'transpose', d, 'Id(%r).transpose(left=%r)' % (t, left))
                f = rigid.Box('f', t, t[:1])
                must_be_wf(rep, 'transpose', f.transpose(left=left), '%r.transpose(left=%r)' % (f, left))
                for s in steps(f.transpose(left=left).normalize()):
                    must_be_wf(rep, 'rigid.normalize.step', s, 'normalize(%r.transpose(%r))' % (f, left))


def check_functors(rep, diagrams):
    x, y = monoidal.Ty('x'), monoidal.Ty('y')
    a = monoidal.Box('a', x @ y, y)
    for d in diagrams:
        boxes = set(d.boxes)
        ob = {x: x @ y, y: monoidal.Ty()}
        ar = {}
        for b in boxes:
            F0 = monoidal.Functor(ob, {})
            dom, cod = F0(b.dom), F0(b.cod)
            ar[b] = monoidal.Box('F' + str(b.name), dom, cod) if len(dom) != 1 or len(cod) != 1 \
                else monoidal.Box('u', dom, x) >> monoidal.Box('v', x, cod)
        F = monoidal.Functor(ob, ar)
        img = F(d)
        must_be_wf(rep, 'functor', img, 'F(%r)' % d)
        if (img.dom, img.cod) != (F(d.dom), F(d.cod)):
            rep.fail('C04:functor.type', 'image has the wrong type', 'F(%r)' % d)
        rep.case(('functor', repr(d)))


def box_catalogue():
    """one instance of every box class of the library with every combination of its type-changing flags"""
    from discopy import tensor
    from discopy.quantum import circuit as C, gates as G, zx
    out = []
    x, y = monoidal.Ty('x'), monoidal.Ty('y')
    out += [monoidal.Box('f', x, y @ x), monoidal.Swap(x, y)]
    # formal sums are boxes too: the zero of a hom-set with dom != cod and a two-term sum (the dagger of a bubble
    # raises TypeError: known finding F3 of C02, not a typing matter)
    out += [monoidal.Sum([], x, y @ x), monoidal.Box('f', x, y @ x) + monoidal.Box('g', x, y @ x)]
    rx, ry = rigid.Ty('x'), rigid.Ty('y')
    out += [rigid.Box('f', rx, ry @ rx.l), rigid.Cup(rx, rx.r), rigid.Cup(rx.l, rx), rigid.Cap(rx, rx.l),
            rigid.Cap(rx.r, rx), rigid.Swap(rx, ry.l)]
    d2, d3 = tensor.Dim(2), tensor.Dim(3)
    out += [tensor.Box('f', d2, d3 @ d2, list(range(12))), tensor.Cup(d2, d2), tensor.Cap(d3, d3),
            tensor.Swap(d2, d3)]
    for n in (1, 2):
        for a, b in itertools.product((False, True), repeat=2):
            out += [C.Measure(n, destructive=a, override_bits=b), C.Encode(n, constructive=a, reset_bits=b)]
        out += [C.Discard(C.qubit ** n), C.Discard(C.bit ** n), C.MixedState(C.qubit ** n), C.MixedState(C.bit ** n)]
    out += [C.Discard(C.bit @ C.qubit), C.MixedState(C.qubit @ C.bit), C.Swap(C.bit, C.qubit), C.Swap(C.qubit, C.qubit)]
    out += [G.Ket(0, 1), G.Bra(1), G.Bits(1, 0), G.Bits(1).dagger(), G.H, G.S, G.T, G.X, G.Y, G.Z, G.CX, G.CZ, G.SWAP,
            G.Rx(0.25), G.Ry(0.25), G.Rz(0.25), G.CRz(0.25), G.CRx(0.25), G.CU1(0.25), G.Controlled(G.S),
            G.scalar(0.5), G.sqrt(2), G.Copy(), G.Match(),
            G.ClassicalGate('c', 1, 2, [0, 1, 1, 0, 1, 0, 0, 1])]
    out += [zx.Z(1, 2, 0.25), zx.X(2, 1, 0.5), zx.H, zx.SWAP, zx.scalar(0.5)]
    return out


def check_box_catalogue(rep):
    """the dagger of every box class exchanges its domain and codomain (the unchecked fast path of Diagram.dagger
    relies on it), twice the dagger is the box, and the dagger of a diagram around the box is well-typed"""
    for b in box_catalogue():
        inp = '%s.%s %r' % (type(b).__module__, type(b).__name__, b)
        rep.case(inp)
        got = common.outcome(lambda: b.dagger())
        rep.count('box.dagger')
        if got[0] != 'ok':
            rep.fail('C01:box.dagger.raises', 'dagger raised %r' % (got,), inp)
            continue
        dag = got[1]
        if (dag.dom, dag.cod) != (b.cod, b.dom):
            rep.fail('C01:box.dagger.type', 'dagger has type %r -> %r, expected %r -> %r'
                     % (dag.dom, dag.cod, b.cod, b.dom), inp)
        back = common.outcome(lambda: dag.dagger())
        if back[0] != 'ok' or (back[1].dom, back[1].cod) != (b.dom, b.cod):
            rep.fail('C01:box.dagger.twice', 'dagger of the dagger: %r' % (back,), inp)
        for d, what in ((b >> b.dagger(), 'b >> b.dagger()'), (b.dagger() >> b, 'b.dagger() >> b'),
                        ((b @ b).dagger(), '(b @ b).dagger()'), ((b >> b.dagger()).dagger(), '(b >> b.dagger()).dagger()')):
            must_be_wf(rep, 'box.dagger.diagram', d, what + ' with b = ' + inp)


def check_cat(rep):
    """the cat.Arrow constructor refuses ill-typed requests, including the empty box list"""
    x, y, z = cat.Ob('x'), cat.Ob('y'), cat.Ob('z')
    f, g = cat.Box('f', x, y), cat.Box('g', y, z)
    for dom, cod, boxes in itertools.product((x, y, z), (x, y, z), ([], [f], [g], [f, g], [g, f], [f, f])):
        inp = 'cat.Arrow(%r, %r, %r)' % (dom, cod, boxes)
        rep.case(inp)
        rep.count('cat.constructor')
        scan, ok = dom, True
        for b in boxes:
            ok, scan = ok and b.dom == scan, b.cod
        ok = ok and scan == cod
        got = common.outcome(cat.Arrow, dom, cod, boxes)
        if ok and got[0] != 'ok':
            rep.fail('C01:cat.constructor.accepts', 'well-typed request gave %r' % (got,), inp)
        if not ok and got != ('exc', AxiomError):
            rep.fail('C01:cat.constructor.refuses', 'ill-typed request gave %r' % (got,), inp)


def run(tier, seed=0, shard=(0, 1)):
    max_boxes = 3 if tier == 'quick' else 4
    x, y = monoidal.Ty('x'), monoidal.Ty('y')
    boxes = common.signature(('x',), arities=((0, 0), (0, 1), (1, 0), (1, 1), (1, 2), (2, 1)))
    boxes += [monoidal.Box('g', x, y), monoidal.Box('h', y @ x, x)]
    doms = [monoidal.Ty(), x, x @ x]
    others = [monoidal.Id(monoidal.Ty()), monoidal.Id(x), boxes[3], boxes[4] >> boxes[5], boxes[1]]
    rep = Report({'max_boxes': max_boxes, 'max_width': 4, 'boxes': [repr(b) for b in boxes],
                  'doms': [repr(t) for t in doms], 'operations': 'dagger, all slices (forward and reversed with every pair of bounds), getitem, normalize (both '
                  'sides, <= 40 steps), normal_form, foliate, foliation, flatten, tensor/then with 5 fixed '
                  'diagrams, constructor with offsets -3..4, swap/permutation of types of length <= 3 '
                  '(monoidal, rigid), cups/caps/transpose (rigid), one monoidal functor per diagram; the dagger of one instance of every box class with every flag combination (about 75 boxes) and of diagrams around it; the cat.Arrow constructor on 54 requests'})
    sample = []
    for idx, d in enumerate(common.gen_diagrams(doms, boxes, max_boxes)):
        if idx % shard[1] != shard[0]:
            continue
        check_diagram(rep, d, others)
        if len(sample) < 40 and len(d) >= 2:
            sample.append(d)
        rep.sample(repr(d))
    check_functors(rep, sample)
    if shard[0] == 0:
        check_constructor(rep, boxes, [monoidal.Ty(), x, x @ x, x @ y])
    if shard[0] == 1 % shard[1]:
        check_box_catalogue(rep)
        check_cat(rep)
        check_mixed_classes(rep)
        check_biclosed(rep)
        check_sum_constructor(rep)
    mtys = [monoidal.Ty(), x, y, x @ y, x @ x @ y]
    check_structural(rep, mtys, monoidal.Diagram, shard)
    rx, ry = rigid.Ty('x'), rigid.Ty('y')
    rtys = [rigid.Ty(), rx, ry.l, rx @ ry, rx.r @ ry @ rx.l]
    check_structural(rep, rtys, rigid.Diagram, shard)
    return rep.result()
