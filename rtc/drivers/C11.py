"""C11 bounded stand-in: whole pure circuits (enumerated placements, phases from a fixed list)
evaluated by discopy against the independent simulator rtc/qsim.py; unitarity; dagger; rewire."""
import itertools

import numpy

from discopy.quantum import gates, circuit
from discopy.quantum.gates import Rx, Ry, Rz, CRz, CRx, CU1, Ket, Bra, Controlled, rewire
from rtc import qsim
from rtc.report import Report

SHARDED = True
PHASES = [0.125, 1 / 3, -0.77]


def gate_set():
    one = [gates.H, gates.S, gates.T, gates.X, gates.Y, gates.Z, gates.S.dagger(), gates.T.dagger()]
    one += [cls(p) for cls in (Rx, Ry, Rz) for p in PHASES[:2]]
    two = [gates.CX, gates.CZ, gates.SWAP, Controlled(gates.S), Controlled(gates.S).dagger(), Controlled(gates.Y)]
    two += [cls(PHASES[0]) for cls in (CRz, CRx, CU1)]
    return one, two


def layers(n, one, two):
    for g in one:
        for off in range(n):
            yield circuit.Id(off) @ g @ circuit.Id(n - off - 1)
    for g in two:
        for off in range(n - 1):
            yield circuit.Id(off) @ g @ circuit.Id(n - off - 2)


def run(tier, seed=0, shard=(0, 1)):
    depth = 2 if tier == 'quick' else 3
    one, two = gate_set()
    rep = Report({'qubits': '2 and 3', 'depth': depth, 'gates': [repr(g) for g in one + two],
                  'preparations': 'Ket on every wire pattern of width <= 2, Bra post-selection on the last wire',
                  'rewire': 'all (a, b) on <= 4 qubits'})
    idx = 0
    for n in (2, 3):
        L = list(layers(n, one, two))
        for combo in itertools.product(L, repeat=depth):
            idx += 1
            if idx % shard[1] != shard[0] or (tier == 'quick' and n == 3 and idx % 7):
                continue
            c = combo[0]
            for l in combo[1:]:
                c = c >> l
            check(rep, c)
        rep.sample(repr(c))
    if shard[0] == 0:
        for bits in itertools.product((0, 1), repeat=2):
            c = Ket(*bits) >> gates.H @ Ry(0.3) >> gates.CX >> circuit.Id(1) @ Bra(bits[0])
            check(rep, c, unitary=False)
        for n in range(2, 5):
            for a, b in itertools.permutations(range(n), 2):
                for op in (gates.CX, CRz(0.3), Controlled(gates.Y)):
                    c = rewire(op, a, b, dom=circuit.qubit ** n)
                    rep.case(('rewire', repr(op), a, b, n))
                    want = on_qubits(qsim.box_matrix(op), a, b, n)
                    if not numpy.allclose(qsim.eval_matrix(c), want):
                        rep.fail('C11:rewire', 'rewire(%r, %d, %d) on %d qubits is not op on qubits a, b' % (op, a, b, n),
                                 'rewire(%r, %d, %d, dom=qubit ** %d)' % (op, a, b, n))
    return rep.result()


def on_qubits(U, a, b, n):
    dim = 2 ** n
    M = numpy.zeros((dim, dim), dtype=complex)
    for col in range(dim):
        bits = [(col >> (n - 1 - q)) & 1 for q in range(n)]
        sub_in = 2 * bits[a] + bits[b]
        for sub_out in range(4):
            out = list(bits)
            out[a], out[b] = sub_out >> 1, sub_out & 1
            M[int(''.join(map(str, out)), 2), col] += U[sub_out, sub_in]
    return M


def check(rep, c, unitary=True):
    r = repr(c)
    rep.case(r)
    got = qsim.eval_matrix(c)
    want = qsim.circuit_matrix(c)
    if got.shape != want.shape or not numpy.allclose(got, want, atol=1e-9):
        rep.fail('C11:circuit.product', 'evaluation differs from the ordered product of the gates', r)
        return
    if unitary and not numpy.allclose(got.conj().T @ got, numpy.eye(got.shape[1]), atol=1e-9):
        rep.fail('C11:circuit.unitary', 'evaluation is not unitary', r)
    d = qsim.eval_matrix(c.dagger())
    if not numpy.allclose(d, got.conj().T, atol=1e-9):
        rep.fail('C11:circuit.dagger', 'dagger does not evaluate to the conjugate transpose', r + '.dagger()')
