"""C18 bounded stand-in: pregroup parsers (eager_parse, brute_force), CFG generation, and type
preservation of the biclosed -> rigid translation for every rule over nested slash types with
composite left and right sides; CCG trees through tree2diagram / cat2ty."""
import itertools

from discopy import rigid, biclosed
from discopy.biclosed import FA, BA, FC, BC, FX, BX, Curry, biclosed2rigid, Over, Under
from discopy.grammar import pregroup, cfg, ccg
from discopy.grammar.pregroup import Word, eager_parse, brute_force
from discopy.rigid import Ty, Cup, Id
from rtc import common
from rtc.report import Report

SHARDED = True


def check_parse(rep, d, words, target, inp):
    why = common.wf_reason(d)
    if why:
        rep.fail('C01:eager_parse.wf', why, inp)
    if d.dom != Ty() or d.cod != target:
        rep.fail('C18:parse.type', 'parse has type %r -> %r, target %r' % (d.dom, d.cod, target), inp)
    n = len(words)
    if d.boxes[:n] != list(words):
        rep.fail('C18:parse.words', 'the first boxes are not the given words in order', inp)
    # the rest are cups between adjacent adjoint types
    scan = Ty().tensor(*[w.cod for w in words])
    for box, off in zip(d.boxes[n:], d.offsets[n:]):
        if not isinstance(box, Cup):
            rep.fail('C18:parse.only_cups', 'box %r after the words is not a cup' % (box,), inp)
            return
        l, r = scan[off:off + 1], scan[off + 1:off + 2]
        if box.dom != l @ r or not (l.r == r or l == r.r):
            rep.fail('C18:parse.adjacent_adjoints', 'cup %r is not on adjacent adjoint types of %r' % (box, scan), inp)
            return
        scan = scan[:off] @ scan[off + 2:]
    if scan != target:
        rep.fail('C18:parse.scan', 'contracting the cups leaves %r, not the target' % (scan,), inp)


def pregroup_part(rep, shard):
    n, s, p = Ty('n'), Ty('s'), Ty('p')
    vocab = [Word('Alice', n), Word('Bob', n), Word('loves', n.r @ s @ n.l), Word('runs', n.r @ s),
             Word('who', n.r @ n @ s.l @ n), Word('is', n.r @ s @ p.l), Word('rich', p), Word('odd', n @ n.r.r),
             Word('very', p @ p.l), Word('e', Ty())]
    targets = [s, n, Ty(), n @ s]
    idx = 0
    for k in range(1, 5):
        for words in itertools.product(vocab, repeat=k):
            idx += 1
            if idx % shard[1] != shard[0] or (k == 4 and (idx // shard[1]) % 7):
                continue
            for target in targets[:2] if k > 2 else targets:
                inp = 'eager_parse(%s, target=%r)' % (', '.join(w.name for w in words), target)
                rep.case(inp)
                got = common.outcome(eager_parse, *words, target=target)
                if got[0] == 'ok':
                    rep.count('parsed')
                    check_parse(rep, got[1], words, target, inp)
                elif got[1] is not NotImplementedError:
                    rep.fail('C18:eager_parse.raises', 'raised %r' % (got[1],), inp)
    if shard[0] == 0:
        gen = brute_force(*vocab[:5], target=s)
        for _ in range(12):
            d = next(gen)
            k = sum(1 for b in d.boxes if isinstance(b, Word))
            rep.case('brute_force sentence %s' % (d,))
            check_parse(rep, d, d.boxes[:k], s, 'brute_force: %s' % (d,))


def cfg_part(rep, shard):
    from discopy.monoidal import Ty as MTy, Box as MBox, Id as MId
    s, np_, vp, n, v, adj = (MTy(t) for t in ('S', 'NP', 'VP', 'N', 'V', 'ADJ'))
    R0, R1, R2, R3 = MBox('R0', np_ @ vp, s), MBox('R1', adj @ np_, np_), MBox('R2', n, np_), MBox('R3', v @ np_, vp)
    words = [cfg.Word('Alice', n), cfg.Word('Bob', n), cfg.Word('loves', v), cfg.Word('red', adj)]
    grammar = cfg.CFG(R0, R1, R2, R3, *words)
    prods = set(grammar.productions)
    for seed in range(shard[0], 40, shard[1]):
        for max_depth, not_twice in ((8, None), (12, [R1]), (30, [R1])):
            inp = 'CFG.generate(S, 5, %d, seed=%d, not_twice=%r)' % (max_depth, seed, not_twice)
            for sent in grammar.generate(s, 5, max_depth, max_iter=30, seed=seed, not_twice=not_twice):
                rep.case((inp, repr(sent)))
                why = common.wf_reason(sent)
                if why:
                    rep.fail('C01:cfg.wf', why, inp)
                if sent.cod != s or sent.dom != MTy():
                    rep.fail('C18:cfg.derivation', 'sentence has type %r -> %r' % (sent.dom, sent.cod), inp)
                if not set(sent.boxes) <= prods:
                    rep.fail('C18:cfg.productions', 'a box is not one of the productions', inp)
                if not_twice and sent.boxes.count(R1) > 1:
                    rep.fail('C18:cfg.not_twice', 'R1 used twice', inp)


    # a grammar with productions whose codomain has several objects (they can never rewrite a single symbol: they are
    # ignored), one of them starting with a non-terminal that does get expanded
    adv = MTy('ADV')
    R4, R5 = MBox('R4', v @ adv, vp @ adv), MBox('R5', n @ n, np_ @ np_)
    grammar2 = cfg.CFG(R0, R4, R1, R5, R2, R3, *words, cfg.Word('quickly', adv))
    prods2 = set(grammar2.productions)
    for seed in range(shard[0], 40, shard[1]):
        for max_depth in (8, 20):
            inp = 'CFG(R0..R5, words).generate(S, 5, %d, seed=%d)' % (max_depth, seed)
            got = common.outcome(lambda: list(grammar2.generate(s, 5, max_depth, max_iter=30, seed=seed)))
            rep.case((inp,))
            if got[0] != 'ok':
                rep.fail('C18:cfg.raises', 'generate raised %r' % (got[1],), inp)
                continue
            for sent in got[1]:
                rep.case((inp, repr(sent)))
                why = common.wf_reason(sent)
                if why:
                    rep.fail('C01:cfg.wf', why, inp)
                if sent.cod != s or sent.dom != MTy():
                    rep.fail('C18:cfg.derivation', 'sentence has type %r -> %r' % (sent.dom, sent.cod), inp)
                if not set(sent.boxes) <= prods2:
                    rep.fail('C18:cfg.productions', 'a box is not one of the productions', inp)


def slash_types():
    x, y, z = biclosed.Ty('x'), biclosed.Ty('y'), biclosed.Ty('z')
    base = [x, y, x @ y, x << y, x >> y, (x << y) >> z, x << (y @ z), (x @ y) >> z, (x << y) << (z >> x), biclosed.Ty()]
    return base


def translation_part(rep, shard):
    F = biclosed2rigid
    tys = slash_types()

    def preserved(box, inp, key):
        rep.case(inp)
        got = common.outcome(F, box)
        if got[0] != 'ok':
            rep.fail('C18:%s.no_image' % key, 'the translation raised %r' % (got[1],), inp)
            return
        img = got[1]
        why = common.wf_reason(img)
        if why:
            rep.fail('C01:biclosed2rigid.wf', why, inp)
        if img.dom != F(box.dom) or img.cod != F(box.cod):
            rep.fail('C18:%s.type_preserving' % key, 'image %r -> %r, expected %r -> %r' % (
                img.dom, img.cod, F(box.dom), F(box.cod)), inp)
    idx = 0
    for a, b in itertools.product(tys, tys):
        idx += 1
        if idx % shard[1] != shard[0]:
            continue
        if len(a) and len(b):
            preserved(FA(a << b), 'FA(%s << %s)' % (a, b), 'FA')
            preserved(BA(a >> b), 'BA(%s >> %s)' % (a, b), 'BA')
        for c in tys[:7]:
            if not (len(a) and len(b) and len(c)):
                continue
            preserved(FC(a << b, b << c), 'FC(%s << %s, %s << %s)' % (a, b, b, c), 'FC')
            preserved(BC(a >> b, b >> c), 'BC(%s >> %s, %s >> %s)' % (a, b, b, c), 'BC')
            preserved(FX(a << b, c >> b), 'FX(%s << %s, %s >> %s)' % (a, b, c, b), 'FX')
            preserved(BX(a << b, a >> c), 'BX(%s << %s, %s >> %s)' % (a, b, a, c), 'BX')
    # currying: 1 <= n_wires <= len(dom), both sides
    for dom in [t for t in tys if len(t)] + [tys[0] @ tys[3] @ tys[1], tys[2] @ tys[4]]:
        f = biclosed.Box('f', dom, tys[1])
        for n_wires in range(0, len(dom) + 1):
            for left in (False, True):
                idx += 1
                if idx % shard[1] != shard[0]:
                    continue
                preserved(Curry(f, n_wires, left), 'Curry(f: %s -> y, %d, left=%r)' % (dom, n_wires, left), 'Curry')
    # whole derivations
    if shard[0] == 0:
        x, y, z = tys[0], tys[1], biclosed.Ty('z')
        ds = [biclosed.Id(x << y) @ biclosed.Box('w', biclosed.Ty(), y) >> FA(x << y),
              biclosed.Box('a', biclosed.Ty(), x) @ biclosed.Box('b', biclosed.Ty(), x >> (y << z))
              @ biclosed.Box('c', biclosed.Ty(), z) >> BA(x >> (y << z)) @ biclosed.Id(z) >> FA(y << z)]
        for d in ds:
            preserved(d, 'derivation %s' % (d,), 'derivation')


def ccg_part(rep):
    cats = ['S', 'NP', r'S\NP', r'(S\NP)/NP', 'NP/N', r'S[dcl]\NP', r'(S[dcl]\NP)/(S[b]\NP)', r'((S\NP)/NP)/NP',
            'N/N', '(N/N)/(N/N)']
    for c in cats:
        rep.case('cat2ty(%r)' % c)
        got = common.outcome(ccg.cat2ty, c)
        if got[0] != 'ok' or not isinstance(got[1], biclosed.Ty):
            rep.fail('C18:cat2ty', 'cat2ty(%r) gave %r' % (c, got), c)
    tree = {'type': 'ba', 'cat': 'S', 'children': [
        {'word': 'Alice', 'cat': 'NP'},
        {'type': 'fa', 'cat': 'S\\NP', 'children': [{'word': 'loves', 'cat': '(S\\NP)/NP'}, {'word': 'Bob', 'cat': 'NP'}]}]}
    d = ccg.tree2diagram(tree)
    rep.case('tree2diagram(Alice loves Bob)')
    if common.wf_reason(d) or d.dom != biclosed.Ty() or d.cod != biclosed.Ty('S'):
        rep.fail('C18:tree2diagram', 'ill-typed CCG derivation %r' % (d,), repr(tree))
    img = biclosed2rigid(d)
    if img.dom != biclosed2rigid(d.dom) or img.cod != biclosed2rigid(d.cod) or common.wf_reason(img):
        rep.fail('C18:tree2diagram.translation', 'translation of the CCG derivation is not type preserving', repr(tree))
    tree_fc = {'type': 'fa', 'cat': 'S', 'children': [
        {'type': 'fc', 'cat': 'S/NP', 'children': [{'word': 'a', 'cat': 'S/VP'}, {'word': 'b', 'cat': 'VP/NP'}]},
        {'word': 'c', 'cat': 'NP'}]}
    d = ccg.tree2diagram(tree_fc)
    rep.case('tree2diagram(fc)')
    img = common.outcome(biclosed2rigid, d)
    if img[0] != 'ok' or img[1].cod != biclosed2rigid(d.cod) or img[1].dom != biclosed2rigid(d.dom):
        rep.fail('C18:tree2diagram.translation', 'translation of a derivation with composition fails: %r' % (img,), repr(tree_fc))


def run(tier, seed=0, shard=(0, 1)):
    rep = Report({'pregroup': 'all sentences of <= 3 words (a seventh of the 4-word ones) over a 10-word vocabulary incl. '
                              'double adjoints and an empty word, 2-4 targets; 12 brute_force sentences',
                  'cfg': '40 seeds x 3 depth limits with / without not_twice',
                  'biclosed': 'FA BA over all pairs, FC BC FX BX over triples of 10 slash types (nested, composite sides); '
                              'Curry with every 1 <= n_wires <= len(dom), left and right',
                  'ccg': '10 category strings, 2 trees'})
    pregroup_part(rep, shard)
    cfg_part(rep, shard)
    translation_part(rep, shard)
    if shard[0] == 0:
        ccg_part(rep)
    rep.sample('eager_parse(Alice, loves, Bob)')
    rep.sample('FC(x << (y @ z), (y @ z) << x)')
    return rep.result()
