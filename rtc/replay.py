"""rtc/replay.py <property> <replay.json>: re-run a recorded counterexample against the real code.

rtc failures carry the python expression that builds the input; vc / sym failures carry the failed
obligation and the solver's output, and are replayed by re-running the property's bounded driver
and reporting the native inputs that violate the same contract."""
import importlib
import json
import sys


def main():
    pid, path = sys.argv[1:3]
    with open(path) as f:
        payload = json.load(f)
    mod = importlib.import_module('rtc.drivers.' + pid)
    if payload.get('backend') == 'rtc' and hasattr(mod, 'replay'):
        ok, msg = mod.replay(payload)
        print(msg)
        print('REPRODUCED' if not ok else 'NOT-REPRODUCED')
        return 1 if not ok else 0
    res = mod.run('quick', 0)
    fails = res.get('failures', [])
    for f in fails[:5]:
        print('native failing input: %s\n   %s: %s' % (f['input'], f['key'], f['what']))
    print('REPRODUCED' if fails else 'NOT-REPRODUCED (obligation %s failed in the verifier; no native input within the bound)'
          % payload.get('obligation'))
    return 1 if fails else 0


if __name__ == '__main__':
    sys.exit(main())
