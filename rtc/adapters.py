"""In-process adapter exposing the pyzx 0.6-era Graph API that discopy 0.3.5 calls, on top of the
installed pyzx 0.10 graph (assumed model of the external library, T3): list-valued inputs/outputs,
float phases (converted to Fractions of pi), edge_type of a missing edge = 0."""
from fractions import Fraction

import pyzx
from pyzx.graph.graph_s import GraphS


class OldGraph:
    def __init__(self, real=None):
        self.real = real if real is not None else GraphS()
        self.inputs = list(self.real.inputs()) if real is not None else []
        self.outputs = list(self.real.outputs()) if real is not None else []

    # --- construction (used by to_pyzx)
    def add_vertex(self, ty=pyzx.VertexType.BOUNDARY, phase=None, **kw):
        ph = None if phase is None else Fraction(phase).limit_denominator(1 << 20)
        return self.real.add_vertex(ty, phase=ph)

    def set_position(self, node, q, r):
        self.real.set_qubit(node, q)
        self.real.set_row(node, r)

    def add_edge(self, edge, edgetype=pyzx.EdgeType.SIMPLE):
        return self.real.add_edge((edge[0], edge[1]), edgetype)

    @property
    def scalar(self):
        return self.real.scalar

    # --- inspection (used by from_pyzx)
    def vertices(self):
        return list(self.real.vertices())

    def type(self, v):
        return self.real.type(v)

    def phase(self, v):
        return float(self.real.phase(v))

    def neighbors(self, v):
        return list(self.real.neighbors(v))

    def edge_type(self, edge):
        s, t = edge
        if not self.real.connected(s, t):
            return 0
        return self.real.edge_type(self.real.edge(s, t))

    def finish(self):
        self.real.set_inputs(tuple(self.inputs))
        self.real.set_outputs(tuple(self.outputs))
        return self.real


def matrix_of_graph(g):
    """pyzx's own tensor semantics, as a matrix M[out][in] (first wire most significant)"""
    real = g.finish() if isinstance(g, OldGraph) else g
    t = pyzx.tensorfy(real, preserve_scalar=True)
    return pyzx.tensor_to_matrix(t, len(real.inputs()), len(real.outputs()))
