"""Numeric standard interpretation of ZX diagrams (oracle for C17): spiders with phases in full
turns, Hadamard, swap, scalar; layers composed by Kronecker products.  M[out][in]."""
import numpy
from numpy import pi, exp

Hm = numpy.array([[1, 1], [1, -1]]) / numpy.sqrt(2)


def z_spider(n_in, n_out, alpha):
    M = numpy.zeros((2 ** n_out, 2 ** n_in), dtype=complex)
    M[0, 0] += 1
    M[-1, -1] += exp(2j * pi * alpha)
    return M


def kron(*ms):
    out = numpy.eye(1)
    for m in ms:
        out = numpy.kron(out, m)
    return out


def x_spider(n_in, n_out, alpha):
    return kron(*([Hm] * n_out)) @ z_spider(n_in, n_out, alpha) @ kron(*([Hm] * n_in))


def box_matrix(box):
    from discopy.quantum import zx
    if isinstance(box, zx.Z):
        return z_spider(len(box.dom), len(box.cod), float(box.phase))
    if isinstance(box, zx.X):
        return x_spider(len(box.dom), len(box.cod), float(box.phase))
    if isinstance(box, zx.Had):
        return Hm
    if isinstance(box, zx.Swap):
        return numpy.array([[1, 0, 0, 0], [0, 0, 1, 0], [0, 1, 0, 0], [0, 0, 0, 1]], dtype=complex)
    if isinstance(box, zx.Scalar):
        return numpy.array([[complex(box.data)]])
    raise KeyError(repr(box))


def matrix(d):
    width = len(d.dom)
    M = numpy.eye(2 ** width, dtype=complex)
    for box, off in zip(d.boxes, d.offsets):
        right = width - off - len(box.dom)
        M = kron(numpy.eye(2 ** off), box_matrix(box), numpy.eye(2 ** right)) @ M
        width = off + len(box.cod) + right
    return M
