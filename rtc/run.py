"""rtc/run.py <property> <tier> <out.json> [seed] : bounded run-time-contract driver (stand-in)"""
import importlib
import json
import sys
import time
import traceback


def _guarded(pid, fn):
    """run a driver; an exception escaping from the real code (not from the driver) is a failed case:
    the function under contract raised on an input of its domain"""
    from rtc import report
    try:
        return fn()
    except Exception as e:
        frames = traceback.extract_tb(e.__traceback__)
        where = [f for f in frames if '/discopy/' in f.filename]
        if not where or not report.CURRENT:
            raise
        rep = report.CURRENT[-1]
        drv = [f for f in frames if '/rtc/drivers/' in f.filename]
        rep.fail('%s:no_exception' % pid, 'the real code raised %s: %s at %s:%d in %s (driver line %d); the rest of this '
                 'shard was not explored' % (type(e).__name__, str(e)[:200], where[-1].filename, where[-1].lineno,
                                             where[-1].name, drv[-1].lineno if drv else 0), 'driver %s' % pid)
        if rep.evaluations == 0:
            rep.evaluations = 1
        res = rep.result()
        res['aborted'] = True
        return res


def _shard(pid, tier, seed, k, n):
    mod = importlib.import_module('rtc.drivers.' + pid)
    return _guarded(pid, lambda: mod.run(tier, seed, shard=(k, n)))


def merge(parts):
    out = dict(parts[0])
    out['failures'] = list(out['failures'])
    out['samples'] = list(out['samples'])
    out['counts'] = dict(out['counts'])
    for p in parts[1:]:
        out['evaluations'] += p['evaluations']
        out['distinct_nontrivial'] += p['distinct_nontrivial']    # shards are disjoint
        keys = {}
        for f in out['failures']:
            keys[f['key']] = keys.get(f['key'], 0) + 1
        for f in p['failures']:
            if keys.get(f['key'], 0) < 3:
                out['failures'].append(f)
                keys[f['key']] = keys.get(f['key'], 0) + 1
        out['samples'] = (out['samples'] + p['samples'])[:8]
        for k, v in p['counts'].items():
            out['counts'][k] = out['counts'].get(k, 0) + v
    return out


def main():
    pid, tier, out = sys.argv[1:4]
    seed = int(sys.argv[4]) if len(sys.argv) > 4 else 0
    t0 = time.time()
    try:
        mod = importlib.import_module('rtc.drivers.' + pid)
        if getattr(mod, 'SHARDED', False):
            import multiprocessing
            n = min(16, multiprocessing.cpu_count())
            with multiprocessing.get_context('fork').Pool(n) as pool:
                parts = pool.starmap(_shard, [(pid, tier, seed, k, n) for k in range(n)])
            res = merge(parts)
        else:
            res = _guarded(pid, lambda: mod.run(tier, seed))
        res['status'] = 'ok'
    except Exception as e:
        res = {'status': 'error', 'error': repr(e), 'traceback': traceback.format_exc()}
    res['wall_s'] = round(time.time() - t0, 2)
    with open(out, 'w') as f:
        json.dump(res, f, indent=1, default=repr)


if __name__ == '__main__':
    main()
